#!/bin/sh
# Offline self-test of the tool chain; nothing is built (the checks read /repo at run time).
set -e
cd "$(dirname "$0")"
java -version >/dev/null 2>&1 || { echo "java missing"; exit 1; }
test -f /opt/veriftools/tla/tla2tools.jar || { echo "tla2tools.jar missing"; exit 1; }
/venv/bin/python -c "import sys; assert sys.version_info >= (3, 10)"
mkdir -p .work evidence replays
PYTHONDONTWRITEBYTECODE=1 /venv/bin/python -m vlib.selftest
echo "setup ok"
