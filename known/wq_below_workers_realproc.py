"""Real-process witness of the open known finding (C02/C03): FactoryFunctorPool with an explicit integer
work_queue_maxsize smaller than the number of workers; both workers retire at the end of the last call and their
ids reach the replace queue after the stop token; __exit__ then blocks on its second put(None).
Run:  PYTHONPATH=/repo /venv/bin/python known/wq_below_workers_realproc.py   (exits 0 = context left, 3 = hang)"""
import multiprocessing
import os
import signal
import sys
import time

from windpyutils.parallel.own_proc_pools import FactoryFunctorPool, FunctorWorker, FunctorWorkerFactory


class W(FunctorWorker):
    """the worker pauses 1.5 s after it has delivered its result and released the lock (before it counts the chunk
    against its quota), so its retirement notice arrives after the call has ended"""

    def begin(self):
        object.__setattr__(self, "_armed", True)

    def __setattr__(self, k, v):
        if k == "max_chunks_per_worker" and getattr(self, "_armed", False):
            time.sleep(1.5)
        super().__setattr__(k, v)

    def __call__(self, x):
        return x * 2


def scenario():
    class F(FunctorWorkerFactory):
        def create(self):
            return W(max_chunks_per_worker=1)
    pool = FactoryFunctorPool(2, F(), work_queue_maxsize=1)
    with pool:
        print(list(pool.imap([1, 2])), flush=True)
    print("context left", flush=True)


if __name__ == "__main__":
    pid = os.fork()
    if pid == 0:
        os.setsid()
        scenario()
        os._exit(0)
    deadline = time.time() + 15
    while time.time() < deadline:
        done, status = os.waitpid(pid, os.WNOHANG)
        if done:
            sys.exit(0 if status == 0 else 1)
        time.sleep(0.2)
    print("HANG: the pool context could not be left within 15 s", flush=True)
    try:
        os.killpg(pid, signal.SIGKILL)
    except OSError:
        pass
    sys.exit(3)
