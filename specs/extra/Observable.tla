------------------------------ MODULE Observable ------------------------------
(* Beyond the listed properties: design_patterns.Observable - observers registered per event tag are called
   (each once, order free) when the decorated method has run; unregistering something unknown is a no-op.
   Results: fire returns the sorted ids of the observers that were called.                              *)
EXTENDS Integers, Sequences, FiniteSets, TLC, Json, SequencesExt
CONSTANTS Tags, Observers
VARIABLES built, reg, last
vars == <<built, reg>>
Sorted(T) == SetToSortSeq(T, LAMBDA a, b : a < b)
Init == built = FALSE /\ reg = [t \in Tags |-> {}] /\ last = [op |-> [op |-> "none"], ret |-> <<>>]
Ret(o, r) == last' = [op |-> o, ret |-> r]
New(o) == ~built /\ built' = TRUE /\ UNCHANGED reg /\ Ret(o, <<>>)
Register(o) == built /\ UNCHANGED built /\ reg' = [reg EXCEPT ![o.t] = @ \cup {o.o}] /\ Ret(o, <<>>)
Unregister(o) == built /\ UNCHANGED built /\ reg' = [reg EXCEPT ![o.t] = @ \ {o.o}] /\ Ret(o, <<>>)
Clear(o) == built /\ UNCHANGED built /\ reg' = [t \in Tags |-> {}] /\ Ret(o, <<>>)
Fire(o) == built /\ UNCHANGED vars /\ Ret(o, Sorted(reg[o.t]))
Apply(o) ==
    \/ o.op = "new" /\ New(o)
    \/ o.op = "register" /\ Register(o)
    \/ o.op = "unregister" /\ Unregister(o)
    \/ o.op = "clear" /\ Clear(o)
    \/ o.op = "fire" /\ Fire(o)
Next == \/ Apply([op |-> "new"]) \/ Apply([op |-> "clear"])
        \/ \E t \in Tags : \/ Apply([op |-> "fire", t |-> t])
                           \/ \E ob \in Observers : Apply([op |-> "register", t |-> t, o |-> ob]) \/ Apply([op |-> "unregister", t |-> t, o |-> ob])
Spec == Init /\ [][Next]_<<vars, last>>
FireCallsRegistered == [][ last'.op.op = "fire" => {last'.ret[i] : i \in DOMAIN last'.ret} = reg[last'.op.t] ]_<<vars, last>>
Obs == [built |-> built, reg |-> [i \in 1..Cardinality(Tags) |-> Sorted(reg[Sorted(Tags)[i]])]]
Hid == 0
View == vars
Emit == PrintT(<<"EDGE", ToJson([s |-> [o |-> Obs, h |-> Hid], l |-> last', t |-> [o |-> Obs', h |-> Hid']])>>)
=============================================================================
