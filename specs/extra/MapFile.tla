------------------------------- MODULE MapFile -------------------------------
(* Beyond the listed properties: files.MapAccessFile - read-only access to the lines of a file through a
   mapping key -> line, given as a dictionary of offsets or loaded from a tsv index file (keys converted by
   key_type).  Lines are 1..NLines (the harness writes distinct lines and knows their offsets); a mapping is a
   function from keys to lines, not necessarily injective or complete.
   Results: <<line>> for a read, <<>> = KeyError, <<-1>> = RuntimeError (the file is not open).            *)
EXTENDS Integers, Sequences, FiniteSets, TLC, Json
CONSTANTS Keys, NLines
VARIABLES phase,      \* "none" | "closed" | "open"
          map,        \* sequence of <<key, line>> pairs (later pairs win, as in a dict / an index file read top to bottom)
          src,        \* 1 = dict, 2 = index file with str keys, 3 = index file with int keys
          last
vars == <<phase, map, src>>
Init == phase = "none" /\ map = <<>> /\ src = 0 /\ last = [op |-> [op |-> "none"], ret |-> <<>>]
Ret(o, r) == last' = [op |-> o, ret |-> r]
Dom == {map[i][1] : i \in DOMAIN map}
LineOf(k) == LET idx == {i \in DOMAIN map : map[i][1] = k} IN map[CHOOSE i \in idx : \A j \in idx : j <= i][2]

New(o) == /\ phase = "none" /\ phase' = "closed" /\ map' = o.ps /\ src' = o.src /\ Ret(o, <<>>)
Open(o) == /\ phase \in {"closed", "open"} /\ phase' = "open" /\ UNCHANGED <<map, src>> /\ Ret(o, <<>>)      \* idempotent
Close(o) == /\ phase \in {"closed", "open"} /\ phase' = "closed" /\ UNCHANGED <<map, src>> /\ Ret(o, <<>>)   \* idempotent
Get(o) == /\ phase \in {"closed", "open"} /\ UNCHANGED vars
          /\ Ret(o, IF phase = "closed" THEN <<-1>> ELSE IF o.k \in Dom THEN <<LineOf(o.k)>> ELSE <<>>)
LenOp(o) == phase \in {"closed", "open"} /\ UNCHANGED vars /\ Ret(o, <<Cardinality(Dom)>>)
Apply(o) ==
    \/ o.op = "new" /\ New(o)
    \/ o.op = "open" /\ Open(o)
    \/ o.op = "close" /\ Close(o)
    \/ o.op = "get" /\ Get(o)
    \/ o.op = "len" /\ LenOp(o)
Pairs == {<<k, l>> : k \in Keys, l \in 1..NLines}
PairSeqs == {<<>>} \cup {<<p>> : p \in Pairs} \cup {<<p, q>> : p \in Pairs, q \in Pairs}
Next == \/ \E ps \in PairSeqs, s \in 1..3 : Apply([op |-> "new", ps |-> ps, src |-> s])
        \/ Apply([op |-> "open"]) \/ Apply([op |-> "close"]) \/ Apply([op |-> "len"])
        \/ \E k \in Keys : Apply([op |-> "get", k |-> k])
Spec == Init /\ [][Next]_<<vars, last>>
\* a read never returns a line the mapping does not name for that key, and only while the file is open
ReadsFollowTheMapping == [][ last'.op.op = "get" /\ Len(last'.ret) = 1 /\ last'.ret[1] > 0 =>
                               phase = "open" /\ \E i \in DOMAIN map : map[i] = <<last'.op.k, last'.ret[1]>> ]_<<vars, last>>
Obs == [phase |-> phase, n |-> Cardinality(Dom), src |-> src]
Hid == map
View == vars
Emit == PrintT(<<"EDGE", ToJson([s |-> [o |-> Obs, h |-> Hid], l |-> last', t |-> [o |-> Obs', h |-> Hid']])>>)
=============================================================================
