---------------------------- MODULE RoundSequence ----------------------------
(* Beyond the listed properties: generic.RoundSequence cycles over a sequence for ever; its __iter__ hands out
   the inner iterator of the current round (finite: the rest of the round).  Results: integer sequences,
   <<>> = StopIteration (only for an empty sequence).                                                    *)
EXTENDS Integers, Sequences, TLC, Json
CONSTANTS Elems, MaxLen
VARIABLES built, seq, pos, last
vars == <<built, seq, pos>>
RECURSIVE SeqsOfLen(_)
SeqsOfLen(n) == IF n = 0 THEN {<<>>} ELSE {Append(s, x) : s \in SeqsOfLen(n - 1), x \in Elems}
Init == built = FALSE /\ seq = <<>> /\ pos = 0 /\ last = [op |-> [op |-> "none"], ret |-> <<>>]
Ret(o, r) == last' = [op |-> o, ret |-> r]
New(o) == ~built /\ built' = TRUE /\ seq' = o.s /\ pos' = 0 /\ Ret(o, <<>>)
NextOp(o) == /\ built /\ UNCHANGED <<built, seq>>
             /\ IF Len(seq) = 0 THEN pos' = pos /\ Ret(o, <<>>)
                ELSE LET p == IF pos = Len(seq) THEN 0 ELSE pos IN pos' = p + 1 /\ Ret(o, <<seq[p + 1]>>)
\* list(iter(r)): the rest of the current round
Rest(o) == built /\ UNCHANGED <<built, seq>> /\ pos' = Len(seq) /\ Ret(o, SubSeq(seq, pos + 1, Len(seq)))
Apply(o) ==
    \/ o.op = "new" /\ New(o)
    \/ o.op = "next" /\ NextOp(o)
    \/ o.op = "rest" /\ Rest(o)
Next == \/ \E n \in 0..MaxLen : \E s \in SeqsOfLen(n) : Apply([op |-> "new", s |-> s])
        \/ Apply([op |-> "next"]) \/ Apply([op |-> "rest"])
Spec == Init /\ [][Next]_<<vars, last>>
\* k consecutive next() calls from the start of a round return the sequence cyclically
Cyclic == [][ last'.op.op = "next" /\ Len(seq) > 0 => last'.ret = <<seq[(IF pos = Len(seq) THEN 0 ELSE pos) + 1]>> ]_<<vars, last>>
Obs == [built |-> built, seq |-> seq]
Hid == pos
View == vars
Emit == PrintT(<<"EDGE", ToJson([s |-> [o |-> Obs, h |-> Hid], l |-> last', t |-> [o |-> Obs', h |-> Hid']])>>)
=============================================================================
