------------------------------ MODULE ClassTree ------------------------------
(* Beyond the listed properties: class_utils.subclasses / sub_cls_from_its_name over an arbitrary class tree.
   A tree over nodes 0..N is a parent function (par[i] < i; node 0 is the root; children are created in index order),
   a set of abstract nodes and a name per node.
   subclasses(r, abstract_ok): every strict descendant of r (descendants of an abstract class included), abstract ones
   only when abstract_ok; order = depth-first pre-order, children in creation order.
   sub_cls_from_its_name(r, name, abstract_ok): r itself if its name matches and it passes the filter, else the first
   match in that order, else ValueError (<<>>).                                                                      *)
EXTENDS Integers, Sequences, FiniteSets, TLC, Json, SequencesExt
CONSTANTS N, Names
Nodes == 0..N
Parents == {p \in [1..N -> 0..(N - 1)] : \A i \in 1..N : p[i] < i}
Children(par, r) == {i \in 1..N : par[i] = r}
Sorted(T) == SetToSortSeq(T, LAMBDA a, b : a < b)
RECURSIVE PreOrder(_, _), Concat(_, _, _)
\* pre-order of the strict descendants of r
Concat(par, kids, i) == IF i > Len(kids) THEN <<>> ELSE <<kids[i]>> \o PreOrder(par, kids[i]) \o Concat(par, kids, i + 1)
PreOrder(par, r) == Concat(par, Sorted(Children(par, r)), 1)
\* written differently: descendants as a set (ancestor relation), used as a cross-check of the definition
RECURSIVE IsAnc(_, _, _)
IsAnc(par, a, d) == IF d = 0 THEN FALSE ELSE par[d] = a \/ IsAnc(par, a, par[d])
Desc(par, r) == {d \in 1..N : IsAnc(par, r, d)}
Keep(c, seq) == SelectSeq(seq, LAMBDA x : c.ok = 1 \/ x \notin c.abs)
DefSub(c) == Keep(c, PreOrder(c.par, c.r))
DomainSub == {[par |-> p, abs |-> a, r |-> r, ok |-> ok] : p \in Parents, a \in SUBSET Nodes, r \in Nodes, ok \in {0, 1}}
\* the sequence definition and the set definition agree on every tree: no duplicates, exactly the descendants
ASSUME \A p \in Parents : \A r \in Nodes :
        LET s == PreOrder(p, r) IN {s[i] : i \in DOMAIN s} = Desc(p, r) /\ Len(s) = Cardinality(Desc(p, r))
DefName(c) == LET cand == (IF c.ok = 1 \/ c.r \notin c.abs THEN <<c.r>> ELSE <<>>) \o Keep(c, PreOrder(c.par, c.r))
                  hits == SelectSeq(cand, LAMBDA x : c.names[x + 1] = c.name)
              IN IF hits = <<>> THEN <<>> ELSE <<hits[1]>>
DomainName == {[par |-> p, abs |-> a, r |-> r, ok |-> ok, names |-> nm, name |-> n] :
                 p \in Parents, a \in SUBSET Nodes, r \in {0, 1}, ok \in {0, 1}, nm \in [1..(N + 1) -> Names], n \in Names}
=============================================================================
