----------------------------- MODULE MockedRand -----------------------------
(* Beyond the listed properties: mocking.MockedRand / MockedRandInt - deterministic stand-ins for random sources.
   Sequence mode: every call returns the next element of the given sequence, cyclically (RoundSequence).
   Step mode:     MockedRandInt(k) returns 0, k, 2k, ... ; MockedRand(q/4) returns the fractional part of n*q/4
                  (the fraction is given and returned in quarters so that the floats are exact).
   m() and m.sample() are the same operation.  Results: <<value>> (in quarters for the float step mode).   *)
EXTENDS Integers, Sequences, TLC, Json
CONSTANTS Elems, MaxLen, Steps, MaxCalls
VARIABLES built, kind, mode, seq, step, cnt, last
vars == <<built, kind, mode, seq, step, cnt>>
RECURSIVE SeqsOfLen(_)
SeqsOfLen(n) == IF n = 0 THEN {<<>>} ELSE {Append(s, x) : s \in SeqsOfLen(n - 1), x \in Elems}
Init == /\ built = FALSE /\ kind = "none" /\ mode = "none" /\ seq = <<>> /\ step = 0 /\ cnt = 0
        /\ last = [op |-> [op |-> "none"], ret |-> <<>>]
Ret(o, r) == last' = [op |-> o, ret |-> r]
\* o.kind: "int" (MockedRandInt) or "float" (MockedRand)
NewSeq(o) == ~built /\ built' = TRUE /\ kind' = o.kind /\ mode' = "seq" /\ seq' = o.s /\ step' = 0 /\ cnt' = 0 /\ Ret(o, <<>>)
NewStep(o) == ~built /\ built' = TRUE /\ kind' = o.kind /\ mode' = "step" /\ seq' = <<>> /\ step' = o.k /\ cnt' = 0 /\ Ret(o, <<>>)
Value == IF mode = "seq" THEN seq[(cnt % Len(seq)) + 1]
         ELSE IF kind = "int" THEN cnt * step
         ELSE (cnt * step) % 4
\* o.how: "call" or "sample"
Call(o) == /\ built /\ cnt < MaxCalls /\ (mode = "seq" => Len(seq) > 0)
           /\ UNCHANGED <<built, kind, mode, seq, step>>
           /\ cnt' = cnt + 1 /\ Ret(o, <<Value>>)
Apply(o) ==
    \/ o.op = "newseq" /\ NewSeq(o)
    \/ o.op = "newstep" /\ NewStep(o)
    \/ o.op = "call" /\ Call(o)
Next == \/ \E k \in {"int", "float"} : \/ \E n \in 1..MaxLen : \E s \in SeqsOfLen(n) : Apply([op |-> "newseq", kind |-> k, s |-> s])
                                       \/ \E st \in Steps : Apply([op |-> "newstep", kind |-> k, k |-> st])
        \/ \E h \in {"call", "sample"} : Apply([op |-> "call", how |-> h])
Spec == Init /\ [][Next]_<<vars, last>>
\* the n-th value depends on n and the construction arguments only (deterministic), and a sequence repeats with its length
Deterministic == [][ last'.op.op = "call" => last'.ret = <<Value>> /\ cnt' = cnt + 1 ]_<<vars, last>>
Periodic == mode = "seq" /\ built => \A i \in 0..MaxCalls : seq[(i % Len(seq)) + 1] = seq[((i + Len(seq)) % Len(seq)) + 1]
IntStepIsMultiple == [][ last'.op.op = "call" /\ mode = "step" /\ kind = "int" => last'.ret[1] = cnt * step ]_<<vars, last>>
FractionInRange == [][ last'.op.op = "call" /\ mode = "step" /\ kind = "float" => last'.ret[1] \in 0..3 ]_<<vars, last>>
Obs == [built |-> built, kind |-> kind, mode |-> mode, seq |-> seq, step |-> step]
Hid == cnt
View == vars
Emit == PrintT(<<"EDGE", ToJson([s |-> [o |-> Obs, h |-> Hid], l |-> last', t |-> [o |-> Obs', h |-> Hid']])>>)
=============================================================================
