-------------------------- MODULE SingletonLogger --------------------------
(* Beyond the listed properties: design_patterns.Singleton (metaclass: one instance per class, created by the first
   construction with that construction's arguments, every later construction returns it unchanged and ignores its
   arguments) and logger.Logger (a Singleton Observable: log(txt) calls every observer registered for "LOG" with txt).
   Classes 1..NCls are plain singleton classes whose __init__ stores its argument; class 0 is Logger.
   Results: make -> <<creation number of the instance returned, stored argument>>; log -> sorted observer ids called. *)
EXTENDS Integers, Sequences, FiniteSets, TLC, Json, SequencesExt
CONSTANTS NCls, Args, Observers, Texts
VARIABLES inst, created, reg, last
vars == <<inst, created, reg>>
Sorted(T) == SetToSortSeq(T, LAMBDA a, b : a < b)
Cls == 1..NCls
\* inst[c] = <<>> (never constructed) or <<creation number, stored argument>>
Init == /\ inst = [c \in Cls |-> <<>>] /\ created = 0 /\ reg = {}
        /\ last = [op |-> [op |-> "none"], ret |-> <<>>]
Ret(o, r) == last' = [op |-> o, ret |-> r]
Make(o) == /\ UNCHANGED reg
           /\ IF inst[o.c] = <<>>
              THEN /\ created' = created + 1
                   /\ inst' = [inst EXCEPT ![o.c] = <<created + 1, o.a>>]
                   /\ Ret(o, <<created + 1, o.a>>)
              ELSE /\ UNCHANGED <<inst, created>>
                   /\ Ret(o, inst[o.c])
\* Logger() is obtained anew for every operation: registrations made through one Logger() are seen by the next
Register(o) == UNCHANGED <<inst, created>> /\ reg' = reg \cup {o.o} /\ Ret(o, <<>>)
Unregister(o) == UNCHANGED <<inst, created>> /\ reg' = reg \ {o.o} /\ Ret(o, <<>>)
Log(o) == UNCHANGED vars /\ Ret(o, Sorted(reg))
Apply(o) ==
    \/ o.op = "make" /\ Make(o)
    \/ o.op = "register" /\ Register(o)
    \/ o.op = "unregister" /\ Unregister(o)
    \/ o.op = "log" /\ Log(o)
Next == \/ \E c \in Cls, a \in Args : Apply([op |-> "make", c |-> c, a |-> a])
        \/ \E ob \in Observers : Apply([op |-> "register", o |-> ob]) \/ Apply([op |-> "unregister", o |-> ob])
        \/ \E t \in Texts : Apply([op |-> "log", t |-> t])
Spec == Init /\ [][Next]_<<vars, last>>
\* one instance per class for ever: once constructed, the instance and what it stores never change
OneInstance == [][ \A c \in Cls : inst[c] # <<>> => inst'[c] = inst[c] ]_<<vars, last>>
\* different classes never share an instance
Distinct == \A c, d \in Cls : c # d /\ inst[c] # <<>> /\ inst[d] # <<>> => inst[c][1] # inst[d][1]
LogReachesRegistered == [][ last'.op.op = "log" => {last'.ret[i] : i \in DOMAIN last'.ret} = reg ]_<<vars, last>>
Obs == [inst |-> inst, reg |-> Sorted(reg)]
Hid == created
View == vars
Emit == PrintT(<<"EDGE", ToJson([s |-> [o |-> Obs, h |-> Hid], l |-> last', t |-> [o |-> Obs', h |-> Hid']])>>)
=============================================================================
