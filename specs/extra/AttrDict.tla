------------------------------- MODULE AttrDict -------------------------------
(* Beyond the listed properties: structures.data_classes.AttributeDrivenDictionary - a dict whose keys are
   also attributes; keys must be valid identifiers that are not keywords (KeyError otherwise).
   Keys are symbols: 1 "a", 2 "b", 3 "x1" (valid); 4 "1x", 5 "class", 6 "None", 7 "a b" (invalid).
   Results: integer sequences, <<-1>> = KeyError / AttributeError.                                     *)
EXTENDS Integers, Sequences, FiniteSets, TLC, Json, SequencesExt
CONSTANTS Keys, Valid, Vals
VARIABLES built, M, last
vars == <<built, M>>
Err == <<-1>>
With(f, k, v) == [x \in DOMAIN f \cup {k} |-> IF x = k THEN v ELSE f[x]]
Without(f, k) == [x \in DOMAIN f \ {k} |-> f[x]]
Sorted(T) == SetToSortSeq(T, LAMBDA a, b : a < b)
Init == built = FALSE /\ M = <<>> /\ last = [op |-> [op |-> "none"], ret |-> <<>>]
Ret(o, r) == last' = [op |-> o, ret |-> r]
New(o) == ~built /\ built' = TRUE /\ M' = <<>> /\ Ret(o, <<>>)
\* obj[k] = v refuses invalid keys; obj.k = v goes straight to the dict (in source code an attribute name is always an
\* identifier, so the class does not validate there; setattr() with an arbitrary string stores it as it is)
SetItem(o) == /\ built /\ UNCHANGED built
              /\ IF o.k \in Valid THEN M' = With(M, o.k, o.v) /\ Ret(o, <<>>) ELSE M' = M /\ Ret(o, Err)
SetAttr(o) == built /\ UNCHANGED built /\ M' = With(M, o.k, o.v) /\ Ret(o, <<>>)
GetItem(o) == built /\ UNCHANGED vars /\ Ret(o, IF o.k \in DOMAIN M THEN <<M[o.k]>> ELSE Err)
GetAttr(o) == GetItem(o)
DelItem(o) == /\ built /\ UNCHANGED built
              /\ IF o.k \in DOMAIN M THEN M' = Without(M, o.k) /\ Ret(o, <<>>) ELSE M' = M /\ Ret(o, Err)
Has(o) == built /\ UNCHANGED vars /\ Ret(o, <<IF o.k \in DOMAIN M THEN 1 ELSE 0>>)
LenOp(o) == built /\ UNCHANGED vars /\ Ret(o, <<Cardinality(DOMAIN M)>>)
\* vars(obj) is the mapping itself
VarsOp(o) == built /\ UNCHANGED vars /\ Ret(o, Sorted(DOMAIN M))
Apply(o) ==
    \/ o.op = "new" /\ New(o)
    \/ o.op = "setitem" /\ SetItem(o)
    \/ o.op = "setattr" /\ SetAttr(o)
    \/ o.op = "getitem" /\ GetItem(o)
    \/ o.op = "getattr" /\ GetAttr(o)
    \/ o.op = "delitem" /\ DelItem(o)
    \/ o.op = "contains" /\ Has(o)
    \/ o.op = "len" /\ LenOp(o)
    \/ o.op = "vars" /\ VarsOp(o)
Next == \/ Apply([op |-> "new"]) \/ Apply([op |-> "len"]) \/ Apply([op |-> "vars"])
        \/ \E k \in Keys : \/ \E v \in Vals : Apply([op |-> "setitem", k |-> k, v |-> v]) \/ Apply([op |-> "setattr", k |-> k, v |-> v])
                           \/ Apply([op |-> "getitem", k |-> k]) \/ Apply([op |-> "getattr", k |-> k])
                           \/ Apply([op |-> "delitem", k |-> k]) \/ Apply([op |-> "contains", k |-> k])
Spec == Init /\ [][Next]_<<vars, last>>
ItemAssignmentValidates == [][ last'.op.op = "setitem" /\ last'.op.k \notin Valid => M' = M /\ last'.ret = Err ]_<<vars, last>>
Obs == [built |-> built, keys |-> Sorted(DOMAIN M), vals |-> [i \in DOMAIN Sorted(DOMAIN M) |-> M[Sorted(DOMAIN M)[i]]]]
Hid == 0
View == vars
Emit == PrintT(<<"EDGE", ToJson([s |-> [o |-> Obs, h |-> Hid], l |-> last', t |-> [o |-> Obs', h |-> Hid']])>>)
=============================================================================
