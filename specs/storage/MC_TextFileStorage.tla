------------------------- MODULE MC_TextFileStorage -------------------------
(* Model-checking wrapper: writer scripts are functions, which a cfg file cannot express. *)
EXTENDS TextFileStorage
\* two writers, gaps and reversed arrival; both store under id 1 (storing twice)
ScriptsA == (1 :> <<2, 0>>) @@ (2 :> <<1, 3>>)
ScriptsB == (1 :> <<1, 0>>) @@ (2 :> <<1>>)
ScriptsC == (1 :> <<3>>) @@ (2 :> <<0, 3>>)
=============================================================================
