------------------------------ MODULE StorageObs ------------------------------
(* Observer specification for TextFileStorage (C14), over API-visible events only.

   Texts are unique tokens (non-negative integers; the harness maps every string a read returns back to
   its token: -1 = IndexError, -2 = empty string, -3 = anything else: partial text, another id's text).
   Events of concurrent processes are totally ordered by the recording (begin / end of every call).
     store_begin(g, t), store_end(g, t, res)    res 1 = stored, 0 = ValueError
     read_begin(r, g),  read_end(r, g, res)
   and, at quiescent points (no call in progress): len(n), contig(b), iter(ts), flush(left)
   Results: <<>>.                                                                                     *)
EXTENDS Integers, Sequences, FiniteSets, TLC, Json, SequencesExt

VARIABLES began,    \* set of <<g, t>>: a store of t under g has begun
          ok,       \* g -> t: the store that succeeded
          failed,   \* tokens whose store raised ValueError
          seen,     \* tokens some read has returned
          snap,     \* reader call r -> ids stored before the read began
          last
vars == <<began, ok, failed, seen, snap>>
Init == /\ began = {} /\ ok = <<>> /\ failed = {} /\ seen = {} /\ snap = <<>>
        /\ last = [op |-> [op |-> "none"], ret |-> <<>>]
Ret(o) == last' = [op |-> o, ret |-> <<>>]
Ids == DOMAIN ok
With(f, k, v) == [x \in DOMAIN f \cup {k} |-> IF x = k THEN v ELSE f[x]]
SortedIds == SetToSortSeq(Ids, LAMBDA a, b : a < b)

StoreBegin(o) == began' = began \cup {<<o.g, o.t>>} /\ UNCHANGED <<ok, failed, seen, snap>> /\ Ret(o)
StoreEnd(o) ==
    /\ <<o.g, o.t>> \in began
    /\ IF o.res = 1
       THEN /\ o.g \notin Ids                                     \* storing twice never succeeds twice
            /\ ok' = With(ok, o.g, o.t) /\ UNCHANGED <<failed>>
       ELSE /\ \E x \in began : x[1] = o.g /\ x[2] # o.t          \* ValueError only if somebody else stores under g
            /\ o.t \notin seen                                    \* ... and it changed nothing
            /\ failed' = failed \cup {o.t} /\ UNCHANGED ok
    /\ UNCHANGED <<began, seen, snap>> /\ Ret(o)
ReadBegin(o) == snap' = With(snap, o.r, Ids) /\ UNCHANGED <<began, ok, failed, seen>> /\ Ret(o)
ReadEnd(o) ==
    /\ o.r \in DOMAIN snap
    /\ IF o.res = -1 THEN o.g \notin snap[o.r]                    \* IndexError only if nothing was stored under g before
       ELSE /\ o.res >= 0                                         \* never empty, partial or foreign
            /\ <<o.g, o.res>> \in began /\ o.res \notin failed    \* exactly a text stored under g
            /\ (o.g \in Ids => ok[o.g] = o.res)
    /\ seen' = (IF o.res >= 0 THEN seen \cup {o.res} ELSE seen)
    /\ UNCHANGED <<began, ok, failed, snap>> /\ Ret(o)
LenOp(o) == o.n = Cardinality(Ids) /\ UNCHANGED vars /\ Ret(o)
Contig(o) == (o.b = 1) = (Ids = 0..(Cardinality(Ids) - 1)) /\ UNCHANGED vars /\ Ret(o)
IterOp(o) == o.ts = [i \in DOMAIN SortedIds |-> ok[SortedIds[i]]] /\ UNCHANGED vars /\ Ret(o)
\* flush(): o.left = files still on disk, o.n = len() afterwards; the storage starts again
Flush(o) == /\ o.left = 0 /\ o.n = 0
            /\ began' = {} /\ ok' = <<>> /\ failed' = {} /\ seen' = {} /\ snap' = <<>> /\ Ret(o)

Apply(o) ==
    \/ o.op = "store_begin" /\ StoreBegin(o)
    \/ o.op = "store_end" /\ StoreEnd(o)
    \/ o.op = "read_begin" /\ ReadBegin(o)
    \/ o.op = "read_end" /\ ReadEnd(o)
    \/ o.op = "len" /\ LenOp(o)
    \/ o.op = "contig" /\ Contig(o)
    \/ o.op = "iter" /\ IterOp(o)
    \/ o.op = "flush" /\ Flush(o)

\* closed model of the observer (negative control / vacuity): two ids, two tokens per id
CONSTANTS MaxId
Next ==
    \/ \E g \in 0..MaxId, t \in 1..4 : \/ Apply([op |-> "store_begin", g |-> g, t |-> t])
                                       \/ \E res \in {0, 1} : Apply([op |-> "store_end", g |-> g, t |-> t, res |-> res])
    \/ \E r \in 1..2, g \in 0..MaxId : \/ Apply([op |-> "read_begin", r |-> r, g |-> g])
                                       \/ \E res \in -3..4 : Apply([op |-> "read_end", r |-> r, g |-> g, res |-> res])
    \/ \E n \in 0..3 : Apply([op |-> "len", n |-> n])
    \/ \E b \in {0, 1} : Apply([op |-> "contig", b |-> b])
Spec == Init /\ [][Next]_<<vars, last>>
\* what is stored under an id is what any process reads back
ReadBack == [][ last'.op.op = "read_end" /\ last'.op.res >= 0 /\ last'.op.g \in Ids => ok[last'.op.g] = last'.op.res ]_<<vars, last>>
OneWinner == \A g \in Ids : <<g, ok[g]>> \in began /\ ok[g] \notin failed
\* negative control: must fail (a read may legitimately see IndexError)
NeverIndexError == [][ last'.op.op = "read_end" => last'.op.res # -1 ]_<<vars, last>>

ObsSmall == Cardinality(began) <= 3 /\ Cardinality(DOMAIN snap) <= 2
Obs == [stored |-> Cardinality(Ids)]
Hid == 0
View == vars
=============================================================================
