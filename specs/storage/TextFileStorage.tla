--------------------------- MODULE TextFileStorage ---------------------------
(* Implementation-level model of windpyutils/parallel/storage.py (C14): writer processes with a script of
   ids, reader processes, the shared index / counters under the re-entrant lock, one append-only file per
   writer.  Exactly one label per visible operation of the code (lock operations, every access to the shared
   index, the registry of files or the counters, the two OS writes a flushed line is split into, opening and
   reading a file), so that a reader can fall between any two of them and so that executions of the real
   code can be compared with behaviours of this model step by step (ReplayTextFileStorage.tla).  PublishFirst = TRUE is the design of the pinned tree (index entry published under the lock,
   line written after the lock is released) and serves as the negative control; FALSE is the repaired
   design (line written, then published, all under the lock).  The text of id g written by writer w is the
   pair <<w, g>>.                                                                                         *)
EXTENDS Naturals, Sequences, FiniteSets, TLC

CONSTANTS Scripts,       \* writer -> sequence of ids to store
          Readers,       \* set of reader process ids
          Probe,         \* set of ids the readers ask for
          NReads,        \* reads per reader
          PreSize,       \* length of the pre-sized index (number_of_data), 0 = none
          PublishFirst
Writers == DOMAIN Scripts
None == [w |-> 0, off |-> 0]

(* --algorithm TextFileStorage {
variables index = [j \in 1..PreSize |-> None],   \* position g+1: None or [w, off]
          cnt = 0, wf = 0, lock = 0,
          paths = <<>>,                          \* registry of the writers' files, in registration order
          files = [w \in Writers |-> <<>>],      \* complete lines of writer w's file
          partial = [w \in Writers |-> FALSE],   \* the first half of a line has reached the file
          reads = {},                            \* completed reads [g, err, res]
          dups = {};                             \* ValueError outcomes [w, g]
define {
  Stored == {g \in 0..(Len(index) - 1) : index[g + 1] # None}
  \* what readline() at (w, off) returns: the complete line, a partial line, or nothing
  TextAt(w, off) == IF off < Len(files[w]) THEN files[w][off + 1]
                    ELSE IF partial[w] THEN <<"partial">> ELSE <<"empty">>
  ReadOK == \A r \in reads : r.err \/ (Len(r.res) = 2 /\ r.res[2] = r.g)
  CountOK == lock = 0 => cnt = Cardinality(Stored)
  WfOK == lock = 0 => wf = (CHOOSE g \in 0..Len(index) : g \notin Stored /\ \A h \in 0..(g - 1) : h \in Stored)
  \* storing twice under one id: exactly one store wins, every other one is a ValueError
  DupOK == \A d \in dups : d.g \in Stored
}
\* One label = one visible operation of the real code (the kind is given in the comment and, as a table, in
\* ReplayTextFileStorage.tla): the binding engines compare them step by step.
fair process (W \in Writers)
variables k = 1, g = 0, off = 0, t = 0;
{
 WStart:  skip;                                                          \* the process starts
 \* open(): the file is registered under the lock, then created
 WOAcq:   await lock = 0; lock := self;                                  \* rlock.acq
 WOLen:   skip;                                                          \* ml.len   (process identifier := len(paths))
 WOApp:   paths := Append(paths, self);                                  \* ml.append
 WORel:   lock := 0;                                                     \* rlock.rel
 WOCreate: skip;                                                         \* file.create
 \* st[g] = text, for every id of the script
 WAcq:    while (k <= Len(Scripts[self])) {
            await lock = 0; lock := self; g := Scripts[self][k];         \* rlock.acq
 WLen:      if (Len(index) <= g) {                                       \* ml.len
 WLen2:       skip;                                                      \* ml.len   (argument of extend)
 WExt:        index := index \o [j \in 1..(g - Len(index) + 1) |-> None]; };   \* ml.extend
 WDup:      if (index[g + 1] # None) {                                   \* ml.get
 WRelE:       dups := dups \cup {[w |-> self, g |-> g]}; lock := 0; k := k + 1; goto WAcq; };   \* rlock.rel (ValueError)
 WTell:     off := Len(files[self]);                                     \* file.tell
            if (PublishFirst) { goto WPub; };
 WWr1:      partial[self] := TRUE;                                       \* file.write (first part of the line)
 WWr2:      files[self] := Append(files[self], <<self, g>>); partial[self] := FALSE;   \* file.write (rest)
            if (PublishFirst) { k := k + 1; goto WAcq; };
 WPub:      index[g + 1] := [w |-> self, off |-> off];                   \* ml.set
 WCntG:     t := cnt;                                                    \* val.get  (_stored_cnt.value += 1)
 WCntS:     cnt := t + 1;                                                \* val.set
 WWfG:      if (g = wf) {                                                \* val.get  (g == _waiting_for.value)
 WWf1G:       t := wf;                                                   \* val.get  (_waiting_for.value += 1)
 WWf1S:       wf := t + 1;                                               \* val.set
 WLwf:        t := wf;                                                   \* val.get  (while _waiting_for.value < ...
 WLcnt:       if (t < cnt) {                                             \* val.get      ... len(self)
 WLwf2:         t := wf;                                                 \* val.get      and _index[_waiting_for.value]
 WLidx:         if (index[t + 1] # None) {                               \* ml.get           ... is not None)
 WLincG:          t := wf;                                               \* val.get  (_waiting_for.value += 1)
 WLincS:          wf := t + 1; goto WLwf; }; }; };                       \* val.set
 WRel:      lock := 0;                                                   \* rlock.rel
            if (PublishFirst) { goto WWr1; } else { k := k + 1; };
          }
}
fair process (R \in Readers)
variables want = 0, ent = None, n = 0, opened = {};
{
 RStart:  skip;                                                          \* the process starts
 \* st[want]
 RAcq:    while (n < NReads) {
            await lock = 0; lock := self;                                \* rlock.acq
            with (x \in Probe) { want := x; };
 RLen:      if (Len(index) <= want) { goto RRelE; };                     \* ml.len
 RGet:      if (index[want + 1] = None) { goto RRelE; } else { ent := index[want + 1]; };   \* ml.get
 RRel:      lock := 0;                                                   \* rlock.rel
            if (ent.w \in opened) { goto RRead; };
 RPath:     skip;                                                        \* ml.get   (path of the writer's file)
 ROpen:     opened := opened \cup {ent.w};                               \* file.open_r
 RRead:     reads := reads \cup {[g |-> want, err |-> FALSE, res |-> TextAt(ent.w, ent.off)]}; n := n + 1; goto RAcq;   \* file.readline
 RRelE:     lock := 0; reads := reads \cup {[g |-> want, err |-> TRUE, res |-> <<>>]}; n := n + 1;   \* rlock.rel (IndexError)
          }
}
} *)
\* BEGIN TRANSLATION
VARIABLES pc, index, cnt, wf, lock, paths, files, partial, reads, dups

(* define statement *)
Stored == {g \in 0..(Len(index) - 1) : index[g + 1] # None}

TextAt(w, off) == IF off < Len(files[w]) THEN files[w][off + 1]
                  ELSE IF partial[w] THEN <<"partial">> ELSE <<"empty">>
ReadOK == \A r \in reads : r.err \/ (Len(r.res) = 2 /\ r.res[2] = r.g)
CountOK == lock = 0 => cnt = Cardinality(Stored)
WfOK == lock = 0 => wf = (CHOOSE g \in 0..Len(index) : g \notin Stored /\ \A h \in 0..(g - 1) : h \in Stored)

DupOK == \A d \in dups : d.g \in Stored

VARIABLES k, g, off, t, want, ent, n, opened

vars == << pc, index, cnt, wf, lock, paths, files, partial, reads, dups, k, g, 
           off, t, want, ent, n, opened >>

ProcSet == (Writers) \cup (Readers)

Init == (* Global variables *)
        /\ index = [j \in 1..PreSize |-> None]
        /\ cnt = 0
        /\ wf = 0
        /\ lock = 0
        /\ paths = <<>>
        /\ files = [w \in Writers |-> <<>>]
        /\ partial = [w \in Writers |-> FALSE]
        /\ reads = {}
        /\ dups = {}
        (* Process W *)
        /\ k = [self \in Writers |-> 1]
        /\ g = [self \in Writers |-> 0]
        /\ off = [self \in Writers |-> 0]
        /\ t = [self \in Writers |-> 0]
        (* Process R *)
        /\ want = [self \in Readers |-> 0]
        /\ ent = [self \in Readers |-> None]
        /\ n = [self \in Readers |-> 0]
        /\ opened = [self \in Readers |-> {}]
        /\ pc = [self \in ProcSet |-> CASE self \in Writers -> "WStart"
                                        [] self \in Readers -> "RStart"]

WStart(self) == /\ pc[self] = "WStart"
                /\ TRUE
                /\ pc' = [pc EXCEPT ![self] = "WOAcq"]
                /\ UNCHANGED << index, cnt, wf, lock, paths, files, partial, 
                                reads, dups, k, g, off, t, want, ent, n, 
                                opened >>

WOAcq(self) == /\ pc[self] = "WOAcq"
               /\ lock = 0
               /\ lock' = self
               /\ pc' = [pc EXCEPT ![self] = "WOLen"]
               /\ UNCHANGED << index, cnt, wf, paths, files, partial, reads, 
                               dups, k, g, off, t, want, ent, n, opened >>

WOLen(self) == /\ pc[self] = "WOLen"
               /\ TRUE
               /\ pc' = [pc EXCEPT ![self] = "WOApp"]
               /\ UNCHANGED << index, cnt, wf, lock, paths, files, partial, 
                               reads, dups, k, g, off, t, want, ent, n, opened >>

WOApp(self) == /\ pc[self] = "WOApp"
               /\ paths' = Append(paths, self)
               /\ pc' = [pc EXCEPT ![self] = "WORel"]
               /\ UNCHANGED << index, cnt, wf, lock, files, partial, reads, 
                               dups, k, g, off, t, want, ent, n, opened >>

WORel(self) == /\ pc[self] = "WORel"
               /\ lock' = 0
               /\ pc' = [pc EXCEPT ![self] = "WOCreate"]
               /\ UNCHANGED << index, cnt, wf, paths, files, partial, reads, 
                               dups, k, g, off, t, want, ent, n, opened >>

WOCreate(self) == /\ pc[self] = "WOCreate"
                  /\ TRUE
                  /\ pc' = [pc EXCEPT ![self] = "WAcq"]
                  /\ UNCHANGED << index, cnt, wf, lock, paths, files, partial, 
                                  reads, dups, k, g, off, t, want, ent, n, 
                                  opened >>

WAcq(self) == /\ pc[self] = "WAcq"
              /\ IF k[self] <= Len(Scripts[self])
                    THEN /\ lock = 0
                         /\ lock' = self
                         /\ g' = [g EXCEPT ![self] = Scripts[self][k[self]]]
                         /\ pc' = [pc EXCEPT ![self] = "WLen"]
                    ELSE /\ pc' = [pc EXCEPT ![self] = "Done"]
                         /\ UNCHANGED << lock, g >>
              /\ UNCHANGED << index, cnt, wf, paths, files, partial, reads, 
                              dups, k, off, t, want, ent, n, opened >>

WLen(self) == /\ pc[self] = "WLen"
              /\ IF Len(index) <= g[self]
                    THEN /\ pc' = [pc EXCEPT ![self] = "WLen2"]
                    ELSE /\ pc' = [pc EXCEPT ![self] = "WDup"]
              /\ UNCHANGED << index, cnt, wf, lock, paths, files, partial, 
                              reads, dups, k, g, off, t, want, ent, n, opened >>

WLen2(self) == /\ pc[self] = "WLen2"
               /\ TRUE
               /\ pc' = [pc EXCEPT ![self] = "WExt"]
               /\ UNCHANGED << index, cnt, wf, lock, paths, files, partial, 
                               reads, dups, k, g, off, t, want, ent, n, opened >>

WExt(self) == /\ pc[self] = "WExt"
              /\ index' = index \o [j \in 1..(g[self] - Len(index) + 1) |-> None]
              /\ pc' = [pc EXCEPT ![self] = "WDup"]
              /\ UNCHANGED << cnt, wf, lock, paths, files, partial, reads, 
                              dups, k, g, off, t, want, ent, n, opened >>

WDup(self) == /\ pc[self] = "WDup"
              /\ IF index[g[self] + 1] # None
                    THEN /\ pc' = [pc EXCEPT ![self] = "WRelE"]
                    ELSE /\ pc' = [pc EXCEPT ![self] = "WTell"]
              /\ UNCHANGED << index, cnt, wf, lock, paths, files, partial, 
                              reads, dups, k, g, off, t, want, ent, n, opened >>

WRelE(self) == /\ pc[self] = "WRelE"
               /\ dups' = (dups \cup {[w |-> self, g |-> g[self]]})
               /\ lock' = 0
               /\ k' = [k EXCEPT ![self] = k[self] + 1]
               /\ pc' = [pc EXCEPT ![self] = "WAcq"]
               /\ UNCHANGED << index, cnt, wf, paths, files, partial, reads, g, 
                               off, t, want, ent, n, opened >>

WTell(self) == /\ pc[self] = "WTell"
               /\ off' = [off EXCEPT ![self] = Len(files[self])]
               /\ IF PublishFirst
                     THEN /\ pc' = [pc EXCEPT ![self] = "WPub"]
                     ELSE /\ pc' = [pc EXCEPT ![self] = "WWr1"]
               /\ UNCHANGED << index, cnt, wf, lock, paths, files, partial, 
                               reads, dups, k, g, t, want, ent, n, opened >>

WWr1(self) == /\ pc[self] = "WWr1"
              /\ partial' = [partial EXCEPT ![self] = TRUE]
              /\ pc' = [pc EXCEPT ![self] = "WWr2"]
              /\ UNCHANGED << index, cnt, wf, lock, paths, files, reads, dups, 
                              k, g, off, t, want, ent, n, opened >>

WWr2(self) == /\ pc[self] = "WWr2"
              /\ files' = [files EXCEPT ![self] = Append(files[self], <<self, g[self]>>)]
              /\ partial' = [partial EXCEPT ![self] = FALSE]
              /\ IF PublishFirst
                    THEN /\ k' = [k EXCEPT ![self] = k[self] + 1]
                         /\ pc' = [pc EXCEPT ![self] = "WAcq"]
                    ELSE /\ pc' = [pc EXCEPT ![self] = "WPub"]
                         /\ k' = k
              /\ UNCHANGED << index, cnt, wf, lock, paths, reads, dups, g, off, 
                              t, want, ent, n, opened >>

WPub(self) == /\ pc[self] = "WPub"
              /\ index' = [index EXCEPT ![g[self] + 1] = [w |-> self, off |-> off[self]]]
              /\ pc' = [pc EXCEPT ![self] = "WCntG"]
              /\ UNCHANGED << cnt, wf, lock, paths, files, partial, reads, 
                              dups, k, g, off, t, want, ent, n, opened >>

WCntG(self) == /\ pc[self] = "WCntG"
               /\ t' = [t EXCEPT ![self] = cnt]
               /\ pc' = [pc EXCEPT ![self] = "WCntS"]
               /\ UNCHANGED << index, cnt, wf, lock, paths, files, partial, 
                               reads, dups, k, g, off, want, ent, n, opened >>

WCntS(self) == /\ pc[self] = "WCntS"
               /\ cnt' = t[self] + 1
               /\ pc' = [pc EXCEPT ![self] = "WWfG"]
               /\ UNCHANGED << index, wf, lock, paths, files, partial, reads, 
                               dups, k, g, off, t, want, ent, n, opened >>

WWfG(self) == /\ pc[self] = "WWfG"
              /\ IF g[self] = wf
                    THEN /\ pc' = [pc EXCEPT ![self] = "WWf1G"]
                    ELSE /\ pc' = [pc EXCEPT ![self] = "WRel"]
              /\ UNCHANGED << index, cnt, wf, lock, paths, files, partial, 
                              reads, dups, k, g, off, t, want, ent, n, opened >>

WWf1G(self) == /\ pc[self] = "WWf1G"
               /\ t' = [t EXCEPT ![self] = wf]
               /\ pc' = [pc EXCEPT ![self] = "WWf1S"]
               /\ UNCHANGED << index, cnt, wf, lock, paths, files, partial, 
                               reads, dups, k, g, off, want, ent, n, opened >>

WWf1S(self) == /\ pc[self] = "WWf1S"
               /\ wf' = t[self] + 1
               /\ pc' = [pc EXCEPT ![self] = "WLwf"]
               /\ UNCHANGED << index, cnt, lock, paths, files, partial, reads, 
                               dups, k, g, off, t, want, ent, n, opened >>

WLwf(self) == /\ pc[self] = "WLwf"
              /\ t' = [t EXCEPT ![self] = wf]
              /\ pc' = [pc EXCEPT ![self] = "WLcnt"]
              /\ UNCHANGED << index, cnt, wf, lock, paths, files, partial, 
                              reads, dups, k, g, off, want, ent, n, opened >>

WLcnt(self) == /\ pc[self] = "WLcnt"
               /\ IF t[self] < cnt
                     THEN /\ pc' = [pc EXCEPT ![self] = "WLwf2"]
                     ELSE /\ pc' = [pc EXCEPT ![self] = "WRel"]
               /\ UNCHANGED << index, cnt, wf, lock, paths, files, partial, 
                               reads, dups, k, g, off, t, want, ent, n, opened >>

WLwf2(self) == /\ pc[self] = "WLwf2"
               /\ t' = [t EXCEPT ![self] = wf]
               /\ pc' = [pc EXCEPT ![self] = "WLidx"]
               /\ UNCHANGED << index, cnt, wf, lock, paths, files, partial, 
                               reads, dups, k, g, off, want, ent, n, opened >>

WLidx(self) == /\ pc[self] = "WLidx"
               /\ IF index[t[self] + 1] # None
                     THEN /\ pc' = [pc EXCEPT ![self] = "WLincG"]
                     ELSE /\ pc' = [pc EXCEPT ![self] = "WRel"]
               /\ UNCHANGED << index, cnt, wf, lock, paths, files, partial, 
                               reads, dups, k, g, off, t, want, ent, n, opened >>

WLincG(self) == /\ pc[self] = "WLincG"
                /\ t' = [t EXCEPT ![self] = wf]
                /\ pc' = [pc EXCEPT ![self] = "WLincS"]
                /\ UNCHANGED << index, cnt, wf, lock, paths, files, partial, 
                                reads, dups, k, g, off, want, ent, n, opened >>

WLincS(self) == /\ pc[self] = "WLincS"
                /\ wf' = t[self] + 1
                /\ pc' = [pc EXCEPT ![self] = "WLwf"]
                /\ UNCHANGED << index, cnt, lock, paths, files, partial, reads, 
                                dups, k, g, off, t, want, ent, n, opened >>

WRel(self) == /\ pc[self] = "WRel"
              /\ lock' = 0
              /\ IF PublishFirst
                    THEN /\ pc' = [pc EXCEPT ![self] = "WWr1"]
                         /\ k' = k
                    ELSE /\ k' = [k EXCEPT ![self] = k[self] + 1]
                         /\ pc' = [pc EXCEPT ![self] = "WAcq"]
              /\ UNCHANGED << index, cnt, wf, paths, files, partial, reads, 
                              dups, g, off, t, want, ent, n, opened >>

W(self) == WStart(self) \/ WOAcq(self) \/ WOLen(self) \/ WOApp(self)
              \/ WORel(self) \/ WOCreate(self) \/ WAcq(self) \/ WLen(self)
              \/ WLen2(self) \/ WExt(self) \/ WDup(self) \/ WRelE(self)
              \/ WTell(self) \/ WWr1(self) \/ WWr2(self) \/ WPub(self)
              \/ WCntG(self) \/ WCntS(self) \/ WWfG(self) \/ WWf1G(self)
              \/ WWf1S(self) \/ WLwf(self) \/ WLcnt(self) \/ WLwf2(self)
              \/ WLidx(self) \/ WLincG(self) \/ WLincS(self) \/ WRel(self)

RStart(self) == /\ pc[self] = "RStart"
                /\ TRUE
                /\ pc' = [pc EXCEPT ![self] = "RAcq"]
                /\ UNCHANGED << index, cnt, wf, lock, paths, files, partial, 
                                reads, dups, k, g, off, t, want, ent, n, 
                                opened >>

RAcq(self) == /\ pc[self] = "RAcq"
              /\ IF n[self] < NReads
                    THEN /\ lock = 0
                         /\ lock' = self
                         /\ \E x \in Probe:
                              want' = [want EXCEPT ![self] = x]
                         /\ pc' = [pc EXCEPT ![self] = "RLen"]
                    ELSE /\ pc' = [pc EXCEPT ![self] = "Done"]
                         /\ UNCHANGED << lock, want >>
              /\ UNCHANGED << index, cnt, wf, paths, files, partial, reads, 
                              dups, k, g, off, t, ent, n, opened >>

RLen(self) == /\ pc[self] = "RLen"
              /\ IF Len(index) <= want[self]
                    THEN /\ pc' = [pc EXCEPT ![self] = "RRelE"]
                    ELSE /\ pc' = [pc EXCEPT ![self] = "RGet"]
              /\ UNCHANGED << index, cnt, wf, lock, paths, files, partial, 
                              reads, dups, k, g, off, t, want, ent, n, opened >>

RGet(self) == /\ pc[self] = "RGet"
              /\ IF index[want[self] + 1] = None
                    THEN /\ pc' = [pc EXCEPT ![self] = "RRelE"]
                         /\ ent' = ent
                    ELSE /\ ent' = [ent EXCEPT ![self] = index[want[self] + 1]]
                         /\ pc' = [pc EXCEPT ![self] = "RRel"]
              /\ UNCHANGED << index, cnt, wf, lock, paths, files, partial, 
                              reads, dups, k, g, off, t, want, n, opened >>

RRel(self) == /\ pc[self] = "RRel"
              /\ lock' = 0
              /\ IF ent[self].w \in opened[self]
                    THEN /\ pc' = [pc EXCEPT ![self] = "RRead"]
                    ELSE /\ pc' = [pc EXCEPT ![self] = "RPath"]
              /\ UNCHANGED << index, cnt, wf, paths, files, partial, reads, 
                              dups, k, g, off, t, want, ent, n, opened >>

RPath(self) == /\ pc[self] = "RPath"
               /\ TRUE
               /\ pc' = [pc EXCEPT ![self] = "ROpen"]
               /\ UNCHANGED << index, cnt, wf, lock, paths, files, partial, 
                               reads, dups, k, g, off, t, want, ent, n, opened >>

ROpen(self) == /\ pc[self] = "ROpen"
               /\ opened' = [opened EXCEPT ![self] = opened[self] \cup {ent[self].w}]
               /\ pc' = [pc EXCEPT ![self] = "RRead"]
               /\ UNCHANGED << index, cnt, wf, lock, paths, files, partial, 
                               reads, dups, k, g, off, t, want, ent, n >>

RRead(self) == /\ pc[self] = "RRead"
               /\ reads' = (reads \cup {[g |-> want[self], err |-> FALSE, res |-> TextAt(ent[self].w, ent[self].off)]})
               /\ n' = [n EXCEPT ![self] = n[self] + 1]
               /\ pc' = [pc EXCEPT ![self] = "RAcq"]
               /\ UNCHANGED << index, cnt, wf, lock, paths, files, partial, 
                               dups, k, g, off, t, want, ent, opened >>

RRelE(self) == /\ pc[self] = "RRelE"
               /\ lock' = 0
               /\ reads' = (reads \cup {[g |-> want[self], err |-> TRUE, res |-> <<>>]})
               /\ n' = [n EXCEPT ![self] = n[self] + 1]
               /\ pc' = [pc EXCEPT ![self] = "RAcq"]
               /\ UNCHANGED << index, cnt, wf, paths, files, partial, dups, k, 
                               g, off, t, want, ent, opened >>

R(self) == RStart(self) \/ RAcq(self) \/ RLen(self) \/ RGet(self)
              \/ RRel(self) \/ RPath(self) \/ ROpen(self) \/ RRead(self)
              \/ RRelE(self)

(* Allow infinite stuttering to prevent deadlock on termination. *)
Terminating == /\ \A self \in ProcSet: pc[self] = "Done"
               /\ UNCHANGED vars

Next == (\E self \in Writers: W(self))
           \/ (\E self \in Readers: R(self))
           \/ Terminating

Spec == /\ Init /\ [][Next]_vars
        /\ \A self \in Writers : WF_vars(W(self))
        /\ \A self \in Readers : WF_vars(R(self))

Termination == <>(\A self \in ProcSet: pc[self] = "Done")

\* END TRANSLATION

Quiescent == \A p \in Writers \cup Readers : pc[p] = "Done"
\* iteration at a quiescent point: every stored id in id order (the pinned tree stopped at cnt ids)
IterAll == Quiescent => Stored \subseteq 0..(Len(index) - 1)
AllDone == <>Quiescent
=============================================================================
