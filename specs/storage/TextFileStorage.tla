--------------------------- MODULE TextFileStorage ---------------------------
(* Implementation-level model of windpyutils/parallel/storage.py (C14): writer processes with a script of
   ids, reader processes, the shared index / counters under the re-entrant lock, one append-only file per
   writer.  One label per visible step of the code (lock operations, every access to the shared index or
   the counters, the two OS writes a flushed line is split into), so that a reader can fall between any two
   of them.  PublishFirst = TRUE is the design of the pinned tree (index entry published under the lock,
   line written after the lock is released) and serves as the negative control; FALSE is the repaired
   design (line written, then published, all under the lock).  The text of id g written by writer w is the
   pair <<w, g>>.                                                                                         *)
EXTENDS Naturals, Sequences, FiniteSets, TLC

CONSTANTS Scripts,       \* writer -> sequence of ids to store
          Readers,       \* set of reader process ids
          Probe,         \* set of ids the readers ask for
          NReads,        \* reads per reader
          PreSize,       \* length of the pre-sized index (number_of_data), 0 = none
          PublishFirst
Writers == DOMAIN Scripts
None == [w |-> 0, off |-> 0]

(* --algorithm TextFileStorage {
variables index = [j \in 1..PreSize |-> None],   \* position g+1: None or [w, off]
          cnt = 0, wf = 0, lock = 0,
          files = [w \in Writers |-> <<>>],      \* complete lines of writer w's file
          partial = [w \in Writers |-> FALSE],   \* the first half of a line has reached the file
          reads = {},                            \* completed reads [g, err, res]
          dups = {};                             \* ValueError outcomes [w, g]
define {
  Stored == {g \in 0..(Len(index) - 1) : index[g + 1] # None}
  \* what readline() at (w, off) returns: the complete line, a partial line, or nothing
  TextAt(w, off) == IF off < Len(files[w]) THEN files[w][off + 1]
                    ELSE IF partial[w] THEN <<"partial">> ELSE <<"empty">>
  ReadOK == \A r \in reads : r.err \/ (Len(r.res) = 2 /\ r.res[2] = r.g)
  CountOK == lock = 0 => cnt = Cardinality(Stored)
  WfOK == lock = 0 => wf = (CHOOSE g \in 0..Len(index) : g \notin Stored /\ \A h \in 0..(g - 1) : h \in Stored)
  \* storing twice under one id: exactly one store wins, every other one is a ValueError
  DupOK == \A d \in dups : d.g \in Stored
}
fair process (W \in Writers)
variables k = 1, g = 0, off = 0;
{
 W0: while (k <= Len(Scripts[self])) {
       g := Scripts[self][k];
 WAcq: await lock = 0; lock := self;
 WLen: if (Len(index) <= g) {
 WExt:   index := index \o [j \in 1..(g - Len(index) + 1) |-> None]; };
 WDup: if (index[g + 1] # None) { dups := dups \cup {[w |-> self, g |-> g]}; lock := 0; k := k + 1; goto W0; };
 WTell: off := Len(files[self]);
       if (~PublishFirst) {
 WWr1:   partial[self] := TRUE;
 WWr2:   files[self] := Append(files[self], <<self, g>>); partial[self] := FALSE; };
 WPub: index[g + 1] := [w |-> self, off |-> off];
 WCnt: cnt := cnt + 1;
 WWf:  if (g = wf) {
 WWf1:   wf := wf + 1;
 WWf2:   while (wf < cnt /\ index[wf + 1] # None) { wf := wf + 1; }; };
 WRel: lock := 0;
       if (PublishFirst) {
 WLate1: partial[self] := TRUE;
 WLate2: files[self] := Append(files[self], <<self, g>>); partial[self] := FALSE; };
 WNext: k := k + 1;
     }
}
fair process (R \in Readers)
variables want = 0, ent = None, n = 0;
{
 R0: while (n < NReads) {
       with (x \in Probe) { want := x; };
 RAcq: await lock = 0; lock := self;
 RIdx: if (Len(index) <= want \/ index[want + 1] = None) {
         reads := reads \cup {[g |-> want, err |-> TRUE, res |-> <<>>]}; lock := 0; n := n + 1; goto R0; }
       else { ent := index[want + 1]; };
 RRel: lock := 0;
 RRead: reads := reads \cup {[g |-> want, err |-> FALSE, res |-> TextAt(ent.w, ent.off)]}; n := n + 1;
     }
}
} *)
\* BEGIN TRANSLATION
VARIABLES pc, index, cnt, wf, lock, files, partial, reads, dups

(* define statement *)
Stored == {g \in 0..(Len(index) - 1) : index[g + 1] # None}

TextAt(w, off) == IF off < Len(files[w]) THEN files[w][off + 1]
                  ELSE IF partial[w] THEN <<"partial">> ELSE <<"empty">>
ReadOK == \A r \in reads : r.err \/ (Len(r.res) = 2 /\ r.res[2] = r.g)
CountOK == lock = 0 => cnt = Cardinality(Stored)
WfOK == lock = 0 => wf = (CHOOSE g \in 0..Len(index) : g \notin Stored /\ \A h \in 0..(g - 1) : h \in Stored)

DupOK == \A d \in dups : d.g \in Stored

VARIABLES k, g, off, want, ent, n

vars == << pc, index, cnt, wf, lock, files, partial, reads, dups, k, g, off, 
           want, ent, n >>

ProcSet == (Writers) \cup (Readers)

Init == (* Global variables *)
        /\ index = [j \in 1..PreSize |-> None]
        /\ cnt = 0
        /\ wf = 0
        /\ lock = 0
        /\ files = [w \in Writers |-> <<>>]
        /\ partial = [w \in Writers |-> FALSE]
        /\ reads = {}
        /\ dups = {}
        (* Process W *)
        /\ k = [self \in Writers |-> 1]
        /\ g = [self \in Writers |-> 0]
        /\ off = [self \in Writers |-> 0]
        (* Process R *)
        /\ want = [self \in Readers |-> 0]
        /\ ent = [self \in Readers |-> None]
        /\ n = [self \in Readers |-> 0]
        /\ pc = [self \in ProcSet |-> CASE self \in Writers -> "W0"
                                        [] self \in Readers -> "R0"]

W0(self) == /\ pc[self] = "W0"
            /\ IF k[self] <= Len(Scripts[self])
                  THEN /\ g' = [g EXCEPT ![self] = Scripts[self][k[self]]]
                       /\ pc' = [pc EXCEPT ![self] = "WAcq"]
                  ELSE /\ pc' = [pc EXCEPT ![self] = "Done"]
                       /\ g' = g
            /\ UNCHANGED << index, cnt, wf, lock, files, partial, reads, dups, 
                            k, off, want, ent, n >>

WAcq(self) == /\ pc[self] = "WAcq"
              /\ lock = 0
              /\ lock' = self
              /\ pc' = [pc EXCEPT ![self] = "WLen"]
              /\ UNCHANGED << index, cnt, wf, files, partial, reads, dups, k, 
                              g, off, want, ent, n >>

WLen(self) == /\ pc[self] = "WLen"
              /\ IF Len(index) <= g[self]
                    THEN /\ pc' = [pc EXCEPT ![self] = "WExt"]
                    ELSE /\ pc' = [pc EXCEPT ![self] = "WDup"]
              /\ UNCHANGED << index, cnt, wf, lock, files, partial, reads, 
                              dups, k, g, off, want, ent, n >>

WExt(self) == /\ pc[self] = "WExt"
              /\ index' = index \o [j \in 1..(g[self] - Len(index) + 1) |-> None]
              /\ pc' = [pc EXCEPT ![self] = "WDup"]
              /\ UNCHANGED << cnt, wf, lock, files, partial, reads, dups, k, g, 
                              off, want, ent, n >>

WDup(self) == /\ pc[self] = "WDup"
              /\ IF index[g[self] + 1] # None
                    THEN /\ dups' = (dups \cup {[w |-> self, g |-> g[self]]})
                         /\ lock' = 0
                         /\ k' = [k EXCEPT ![self] = k[self] + 1]
                         /\ pc' = [pc EXCEPT ![self] = "W0"]
                    ELSE /\ pc' = [pc EXCEPT ![self] = "WTell"]
                         /\ UNCHANGED << lock, dups, k >>
              /\ UNCHANGED << index, cnt, wf, files, partial, reads, g, off, 
                              want, ent, n >>

WTell(self) == /\ pc[self] = "WTell"
               /\ off' = [off EXCEPT ![self] = Len(files[self])]
               /\ IF ~PublishFirst
                     THEN /\ pc' = [pc EXCEPT ![self] = "WWr1"]
                     ELSE /\ pc' = [pc EXCEPT ![self] = "WPub"]
               /\ UNCHANGED << index, cnt, wf, lock, files, partial, reads, 
                               dups, k, g, want, ent, n >>

WWr1(self) == /\ pc[self] = "WWr1"
              /\ partial' = [partial EXCEPT ![self] = TRUE]
              /\ pc' = [pc EXCEPT ![self] = "WWr2"]
              /\ UNCHANGED << index, cnt, wf, lock, files, reads, dups, k, g, 
                              off, want, ent, n >>

WWr2(self) == /\ pc[self] = "WWr2"
              /\ files' = [files EXCEPT ![self] = Append(files[self], <<self, g[self]>>)]
              /\ partial' = [partial EXCEPT ![self] = FALSE]
              /\ pc' = [pc EXCEPT ![self] = "WPub"]
              /\ UNCHANGED << index, cnt, wf, lock, reads, dups, k, g, off, 
                              want, ent, n >>

WPub(self) == /\ pc[self] = "WPub"
              /\ index' = [index EXCEPT ![g[self] + 1] = [w |-> self, off |-> off[self]]]
              /\ pc' = [pc EXCEPT ![self] = "WCnt"]
              /\ UNCHANGED << cnt, wf, lock, files, partial, reads, dups, k, g, 
                              off, want, ent, n >>

WCnt(self) == /\ pc[self] = "WCnt"
              /\ cnt' = cnt + 1
              /\ pc' = [pc EXCEPT ![self] = "WWf"]
              /\ UNCHANGED << index, wf, lock, files, partial, reads, dups, k, 
                              g, off, want, ent, n >>

WWf(self) == /\ pc[self] = "WWf"
             /\ IF g[self] = wf
                   THEN /\ pc' = [pc EXCEPT ![self] = "WWf1"]
                   ELSE /\ pc' = [pc EXCEPT ![self] = "WRel"]
             /\ UNCHANGED << index, cnt, wf, lock, files, partial, reads, dups, 
                             k, g, off, want, ent, n >>

WWf1(self) == /\ pc[self] = "WWf1"
              /\ wf' = wf + 1
              /\ pc' = [pc EXCEPT ![self] = "WWf2"]
              /\ UNCHANGED << index, cnt, lock, files, partial, reads, dups, k, 
                              g, off, want, ent, n >>

WWf2(self) == /\ pc[self] = "WWf2"
              /\ IF wf < cnt /\ index[wf + 1] # None
                    THEN /\ wf' = wf + 1
                         /\ pc' = [pc EXCEPT ![self] = "WWf2"]
                    ELSE /\ pc' = [pc EXCEPT ![self] = "WRel"]
                         /\ wf' = wf
              /\ UNCHANGED << index, cnt, lock, files, partial, reads, dups, k, 
                              g, off, want, ent, n >>

WRel(self) == /\ pc[self] = "WRel"
              /\ lock' = 0
              /\ IF PublishFirst
                    THEN /\ pc' = [pc EXCEPT ![self] = "WLate1"]
                    ELSE /\ pc' = [pc EXCEPT ![self] = "WNext"]
              /\ UNCHANGED << index, cnt, wf, files, partial, reads, dups, k, 
                              g, off, want, ent, n >>

WLate1(self) == /\ pc[self] = "WLate1"
                /\ partial' = [partial EXCEPT ![self] = TRUE]
                /\ pc' = [pc EXCEPT ![self] = "WLate2"]
                /\ UNCHANGED << index, cnt, wf, lock, files, reads, dups, k, g, 
                                off, want, ent, n >>

WLate2(self) == /\ pc[self] = "WLate2"
                /\ files' = [files EXCEPT ![self] = Append(files[self], <<self, g[self]>>)]
                /\ partial' = [partial EXCEPT ![self] = FALSE]
                /\ pc' = [pc EXCEPT ![self] = "WNext"]
                /\ UNCHANGED << index, cnt, wf, lock, reads, dups, k, g, off, 
                                want, ent, n >>

WNext(self) == /\ pc[self] = "WNext"
               /\ k' = [k EXCEPT ![self] = k[self] + 1]
               /\ pc' = [pc EXCEPT ![self] = "W0"]
               /\ UNCHANGED << index, cnt, wf, lock, files, partial, reads, 
                               dups, g, off, want, ent, n >>

W(self) == W0(self) \/ WAcq(self) \/ WLen(self) \/ WExt(self) \/ WDup(self)
              \/ WTell(self) \/ WWr1(self) \/ WWr2(self) \/ WPub(self)
              \/ WCnt(self) \/ WWf(self) \/ WWf1(self) \/ WWf2(self)
              \/ WRel(self) \/ WLate1(self) \/ WLate2(self) \/ WNext(self)

R0(self) == /\ pc[self] = "R0"
            /\ IF n[self] < NReads
                  THEN /\ \E x \in Probe:
                            want' = [want EXCEPT ![self] = x]
                       /\ pc' = [pc EXCEPT ![self] = "RAcq"]
                  ELSE /\ pc' = [pc EXCEPT ![self] = "Done"]
                       /\ want' = want
            /\ UNCHANGED << index, cnt, wf, lock, files, partial, reads, dups, 
                            k, g, off, ent, n >>

RAcq(self) == /\ pc[self] = "RAcq"
              /\ lock = 0
              /\ lock' = self
              /\ pc' = [pc EXCEPT ![self] = "RIdx"]
              /\ UNCHANGED << index, cnt, wf, files, partial, reads, dups, k, 
                              g, off, want, ent, n >>

RIdx(self) == /\ pc[self] = "RIdx"
              /\ IF Len(index) <= want[self] \/ index[want[self] + 1] = None
                    THEN /\ reads' = (reads \cup {[g |-> want[self], err |-> TRUE, res |-> <<>>]})
                         /\ lock' = 0
                         /\ n' = [n EXCEPT ![self] = n[self] + 1]
                         /\ pc' = [pc EXCEPT ![self] = "R0"]
                         /\ ent' = ent
                    ELSE /\ ent' = [ent EXCEPT ![self] = index[want[self] + 1]]
                         /\ pc' = [pc EXCEPT ![self] = "RRel"]
                         /\ UNCHANGED << lock, reads, n >>
              /\ UNCHANGED << index, cnt, wf, files, partial, dups, k, g, off, 
                              want >>

RRel(self) == /\ pc[self] = "RRel"
              /\ lock' = 0
              /\ pc' = [pc EXCEPT ![self] = "RRead"]
              /\ UNCHANGED << index, cnt, wf, files, partial, reads, dups, k, 
                              g, off, want, ent, n >>

RRead(self) == /\ pc[self] = "RRead"
               /\ reads' = (reads \cup {[g |-> want[self], err |-> FALSE, res |-> TextAt(ent[self].w, ent[self].off)]})
               /\ n' = [n EXCEPT ![self] = n[self] + 1]
               /\ pc' = [pc EXCEPT ![self] = "R0"]
               /\ UNCHANGED << index, cnt, wf, lock, files, partial, dups, k, 
                               g, off, want, ent >>

R(self) == R0(self) \/ RAcq(self) \/ RIdx(self) \/ RRel(self)
              \/ RRead(self)

(* Allow infinite stuttering to prevent deadlock on termination. *)
Terminating == /\ \A self \in ProcSet: pc[self] = "Done"
               /\ UNCHANGED vars

Next == (\E self \in Writers: W(self))
           \/ (\E self \in Readers: R(self))
           \/ Terminating

Spec == /\ Init /\ [][Next]_vars
        /\ \A self \in Writers : WF_vars(W(self))
        /\ \A self \in Readers : WF_vars(R(self))

Termination == <>(\A self \in ProcSet: pc[self] = "Done")

\* END TRANSLATION

Quiescent == \A p \in Writers \cup Readers : pc[p] = "Done"
\* iteration at a quiescent point: every stored id in id order (the pinned tree stopped at cnt ids)
IterAll == Quiescent => Stored \subseteq 0..(Len(index) - 1)
AllDone == <>Quiescent
=============================================================================
