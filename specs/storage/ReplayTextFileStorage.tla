----------------------- MODULE ReplayTextFileStorage -----------------------
(* TextFileStorage with an observation variable naming the process and label of every step, used to
   - print simulated behaviours as schedules that are replayed into the real storage.py (spec -> code), and
   - validate recorded executions of the real code step by step (code -> spec): every visible operation of
     a writer / reader process must be a step of that process in the model with the same kind, and the
     reads and ValueErrors the processes saw must be the ones the model ends with.                        *)
EXTENDS MC_TextFileStorage, Integers, Json, IOUtils
VARIABLES act, tid, l

KindOf(lab) ==
    CASE lab \in {"WStart", "RStart"} -> "task-start"
      [] lab \in {"WOAcq", "WAcq", "RAcq"} -> "rlock.acq"
      [] lab \in {"WORel", "WRel", "WRelE", "RRel", "RRelE"} -> "rlock.rel"
      [] lab \in {"WOLen", "WLen", "WLen2", "RLen"} -> "ml.len"
      [] lab = "WOApp" -> "ml.append"
      [] lab = "WOCreate" -> "file.create"
      [] lab = "WExt" -> "ml.extend"
      [] lab \in {"WDup", "WLidx", "RGet", "RPath"} -> "ml.get"
      [] lab = "WTell" -> "file.tell"
      [] lab \in {"WWr1", "WWr2"} -> "file.write"
      [] lab = "WPub" -> "ml.set"
      [] lab \in {"WCntG", "WWfG", "WWf1G", "WLwf", "WLcnt", "WLwf2", "WLincG"} -> "val.get"
      [] lab \in {"WCntS", "WWf1S", "WLincS"} -> "val.set"
      [] lab = "ROpen" -> "file.open_r"
      [] lab = "RRead" -> "file.readline"
      [] OTHER -> "local"
\* a process whose loop is over leaves without a visible operation
KindOfStep(p, lab, nxt) == IF nxt = "Done" /\ lab \in {"WAcq", "RAcq"} THEN "exit" ELSE KindOf(lab)

NextA == \/ \E w \in Writers : W(w) /\ act' = <<w, pc[w], pc'[w]>>
         \/ \E r \in Readers : R(r) /\ act' = <<r, pc[r], pc'[r]>>
SpecA == Init /\ act = <<-1, "init", "init">> /\ tid = 0 /\ l = 0 /\ [][NextA /\ UNCHANGED <<tid, l>>]_<<vars, act, tid, l>>
\* simulation: one line per step; a behaviour starts at level 1
EmitStep == PrintT(<<"STEP", TLCGet("level"), act'[1], act'[2], KindOfStep(act'[1], act'[2], act'[3])>>)
\* ... and the outcome of the behaviour once every process is done (the reads and ValueErrors to expect from the code)
ResCode(r) == IF r.err THEN <<r.g, -1, -1>> ELSE IF Len(r.res) = 2 THEN <<r.g, r.res[1], r.res[2]>> ELSE <<r.g, -2, -2>>
EmitEnd == (\A p \in Writers \cup Readers : pc'[p] = "Done") =>
              PrintT(<<"END", TLCGet("level"), ToJson([reads |-> {ResCode(r) : r \in reads'}, dups |-> {<<d.w, d.g>> : d \in dups'}])>>)
Emit == EmitStep /\ EmitEnd

\* --- trace validation: Traces[t] = [steps |-> sequence of [a |-> process, k |-> kind], reads |-> set of <<g, w, g'>> (w = -1: IndexError),
\*                                    dups |-> set of <<w, g>>]
Traces == JsonDeserialize("traces.json")
T == Traces[tid].steps
TInit == Init /\ act = <<-1, "init", "init">> /\ tid \in 1..Len(Traces) /\ l = 1
AsSet(s) == {s[i] : i \in DOMAIN s}
Outcome == /\ {ResCode(r) : r \in reads'} = AsSet(Traces[tid].reads)
           /\ {<<d.w, d.g>> : d \in dups'} = AsSet(Traces[tid].dups)
TStep == /\ l <= Len(T) /\ l' = l + 1 /\ UNCHANGED tid
         /\ NextA /\ act'[1] = T[l].a /\ KindOfStep(act'[1], act'[2], act'[3]) = T[l].k
         /\ (l = Len(T) => Outcome)                  \* with the last step the outcomes must agree
TSpec == TInit /\ [][TStep]_<<vars, act, tid, l>>
ASSUME \A tt \in 1..Len(Traces) : TLCSet(tt, 0)
Progress == TLCSet(tid, IF TLCGet(tid) < l THEN l ELSE TLCGet(tid))
Accepted == \A tt \in 1..Len(Traces) : PrintT(<<"RESULT", tt, TLCGet(tt) - 1, Len(Traces[tt].steps)>>)
=============================================================================
