------------------------- MODULE MC_FactoryFunctorPool -------------------------
EXTENDS FactoryFunctorPool
C2 == <<[n |-> 2, ord |-> TRUE]>>
C21 == <<[n |-> 2, ord |-> TRUE], [n |-> 1, ord |-> TRUE]>>
C222 == <<[n |-> 2, ord |-> TRUE], [n |-> 2, ord |-> TRUE], [n |-> 2, ord |-> TRUE]>>
C2u == <<[n |-> 2, ord |-> FALSE]>>
C3 == <<[n |-> 3, ord |-> TRUE]>>
=============================================================================
