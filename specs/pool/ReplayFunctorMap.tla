-------------------------- MODULE ReplayFunctorMap --------------------------
(* FunctorMap.tla with an observation variable naming the process and label of every step, used to
   - print simulated behaviours as schedules that are replayed into the real pools.py / maps.py (spec -> code), and
   - validate recorded executions of the real code step by step (code -> spec): every visible operation must be a
     step of that process in the model with the same kind, and what the caller received must be the model's `out`. *)
EXTENDS MC_FunctorMap, Json, IOUtils
VARIABLES act, tid, l
KindOf(lab) ==
    CASE lab = "MStart" -> "start"
      [] lab \in {"MPut", "MPutNew", "MStop", "WPut"} -> "q.put"
      [] lab = "MGetNB" -> "q.get_nb"
      [] lab \in {"MGet", "WGet"} -> "q.get"
      [] lab = "MJoin" -> "join"
      [] lab = "WStart" -> "task-start"
      [] OTHER -> "local"
NextA == \/ Main /\ act' = <<0, pc[0]>>
         \/ \E w \in Workers : W(w) /\ act' = <<w, pc[w]>>
SpecA == Init /\ act = <<0, "init">> /\ tid = 0 /\ l = 0 /\ [][NextA /\ UNCHANGED <<tid, l>>]_<<vars, act, tid, l>>

\* --- trace validation: Traces[t] = [steps |-> sequence of [a |-> process, k |-> kind], out |-> sequence of <<call, chunk>>]
Traces == JsonDeserialize("traces.json")
T == Traces[tid].steps
TInit == Init /\ act = <<0, "init">> /\ tid \in 1..Len(Traces) /\ l = 1
TStep == /\ l <= Len(T) /\ l' = l + 1 /\ UNCHANGED tid
         /\ NextA /\ act'[1] = T[l].a /\ KindOf(act'[2]) = T[l].k
         /\ (l = Len(T) => out' = Traces[tid].out)          \* with the last step the caller has received the same
TSpec == TInit /\ [][TStep]_<<vars, act, tid, l>>
ASSUME \A tt \in 1..Len(Traces) : TLCSet(tt, 0)
Progress == TLCSet(tid, IF TLCGet(tid) < l THEN l ELSE TLCGet(tid))
Accepted == \A tt \in 1..Len(Traces) : PrintT(<<"RESULT", tt, TLCGet(tt) - 1, Len(Traces[tt].steps)>>)
=============================================================================
