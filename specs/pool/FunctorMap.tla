------------------------------ MODULE FunctorMap ------------------------------
(* Implementation-level model of windpyutils/parallel/pools.py (FunctorMap) and maps.py + workers.py (mul_p_map)
   - C05.  Written directly in TLA+ with an explicit program counter: EVERY action is exactly one visible
   operation of the real code (process start, queue put / get / non-blocking get, join), so that executions of
   the real code can be compared with behaviours of this model step by step (ReplayFunctorMap.tla).

   Kind = "functormap": the workers are started once (__enter__), a sequence of calls follows on the same
          object, then one stop token per worker and the joins (__exit__).  A call puts chunk after chunk
          and after every put drains the result queue without blocking; a reorder buffer releases the chunks
          in order; at the end it blocks until every chunk has been released.
   Kind = "mulpmap": every call starts its own workers on the CLASS-LEVEL queues (which therefore survive
          the call), puts element after element with the same non-blocking drain, puts the stop tokens, blocks
          until every result has arrived, joins, and returns the results sorted by position.

   Queues are multiprocessing.Queue objects: with PipeCap = k > 0 the pipe holds k items, further items stay
   with the producer's feeder (`held`) until there is room - and a process cannot finish while its feeder
   holds items (results larger than the pipe buffer).  PipeCap = 0: unbounded pipe.

   Design = "ok" is the code; negative controls: "joinfirst" (mul_p_map joins before it collects the rest of
   the results) deadlocks with a finite pipe, "sharedbuf" (one reorder buffer for all calls of a FunctorMap,
   never reset) leaves the second call waiting for ever.                                                      *)
EXTENDS Naturals, Sequences, FiniteSets, TLC

CONSTANTS Kind,        \* "functormap" | "mulpmap"
          NW,          \* workers
          Calls,       \* sequence of numbers of chunks per call (0 = empty input)
          WQCap,       \* bound of the work queue (FunctorMap: NW; mul_p_map: cpu_count())
          PipeCap,
          Design

VARIABLES pc,          \* 0 = main, 1.. = workers
          wq, rq,      \* [items |-> Seq, held |-> Seq of [p, x]]
          c,           \* current call (1..)
          i,           \* chunks put so far in this call (= data_cnt)
          fin,         \* finished_cnt (functormap) / number of results received (mulpmap)
          wfb, bufs,   \* reorder buffer: next chunk to release, chunks waiting
          res,         \* mulpmap: positions received in this call, in arrival order
          out,         \* everything handed to the caller so far: sequence of <<call, chunk>>
          s,           \* loop counter of start / stop / join
          started, exited,
          wi           \* worker -> the item it is working on
vars == <<pc, wq, rq, c, i, fin, wfb, bufs, res, out, s, started, exited, wi>>

NCalls == Len(Calls)
Workers == 1..(IF Kind = "functormap" THEN NW ELSE NW * (IF NCalls = 0 THEN 1 ELSE NCalls))
Group(call) == IF Kind = "functormap" THEN 1..NW ELSE ((call - 1) * NW + 1)..(call * NW)
NthOfGroup(call, k) == IF Kind = "functormap" THEN k ELSE (call - 1) * NW + k
NoneItem == <<0, 0>>
EmptyQ == [items |-> <<>>, held |-> <<>>]

\* ---- multiprocessing.Queue
Full(q, max) == max > 0 /\ Len(q.items) + Len(q.held) >= max
Pump(q) == IF PipeCap > 0 /\ q.held # <<>> /\ Len(q.items) < PipeCap
           THEN [items |-> Append(q.items, Head(q.held).x), held |-> Tail(q.held)] ELSE q
Add(q, p, x) == IF PipeCap = 0 THEN [q EXCEPT !.items = Append(@, x)]
                ELSE Pump([q EXCEPT !.held = Append(@, [p |-> p, x |-> x])])
Take(q) == Pump([q EXCEPT !.items = Tail(@)])
Holding(p) == \/ \E k \in DOMAIN wq.held : wq.held[k].p = p
              \/ \E k \in DOMAIN rq.held : rq.held[k].p = p

Init == /\ pc = [p \in {0} \cup Workers |-> IF p = 0 THEN (IF Kind = "functormap" \/ NCalls > 0 THEN "MStart" ELSE "Done") ELSE "WStart"]
        /\ wq = EmptyQ /\ rq = EmptyQ /\ c = 1 /\ i = 0 /\ fin = 0 /\ wfb = 0 /\ bufs = {} /\ res = <<>> /\ out = <<>>
        /\ s = 1 /\ started = {} /\ exited = {} /\ wi = [p \in Workers |-> NoneItem]

Goto(l) == pc' = [pc EXCEPT ![0] = l]
\* the in-order release of the reorder buffer (functormap)
RECURSIVE Release(_, _)
Release(w, B) == IF w \in B THEN Release(w + 1, B \ {w}) ELSE <<w, B>>
Range(a, b) == [k \in 1..(b - a) |-> a + k - 1]          \* <<a, ..., b-1>>

\* ---- main
\* a functormap call on an empty input has no visible operation at all: the next call (or the exit) follows at once.
SkipEmpty(call) ==       \* first call >= call with chunks, or NCalls + 1
    LET later == {k \in call..NCalls : Calls[k] > 0} IN IF later = {} THEN NCalls + 1 ELSE CHOOSE k \in later : \A m \in later : k <= m
\* p.start(): one visible operation per worker
MStart == /\ pc[0] = "MStart"
          /\ started' = started \cup {NthOfGroup(c, s)}
          /\ IF s < NW THEN s' = s + 1 /\ Goto("MStart") /\ UNCHANGED <<c, i, fin, wfb, bufs, res>>
             ELSE /\ s' = 1 /\ i' = 0 /\ fin' = 0 /\ wfb' = 0 /\ bufs' = {} /\ res' = <<>>
                  /\ IF Kind = "mulpmap" THEN c' = c /\ (IF Calls[c] > 0 THEN Goto("MPut") ELSE Goto("MStop"))
                     ELSE LET nx == SkipEmpty(1)
                          IN IF nx <= NCalls THEN c' = nx /\ Goto("MPut") ELSE c' = c /\ Goto("MStop")
          /\ UNCHANGED <<wq, rq, out, exited, wi>>
\* work_queue.put((i, chunk)) - blocks while the queue is full
MPut == /\ pc[0] = "MPut" /\ ~Full(wq, WQCap)
        /\ wq' = Add(wq, 0, <<c, i>>) /\ i' = i + 1 /\ Goto("MGetNB")
        /\ UNCHANGED <<rq, c, fin, wfb, bufs, res, out, s, started, exited, wi>>
\* the arrival of result chunk x = <<call, k>> at the consumer
Receive(x) ==
    IF Kind = "functormap"
    THEN LET r == Release(wfb, bufs \cup {x[2]})
         IN /\ wfb' = r[1] /\ bufs' = r[2]
            /\ out' = out \o [k \in 1..(r[1] - wfb) |-> <<x[1], wfb + k - 1>>]
            /\ fin' = fin + (r[1] - wfb)
            /\ UNCHANGED res
    ELSE /\ res' = Append(res, x) /\ fin' = fin + 1 /\ UNCHANGED <<wfb, bufs, out>>
\* results_queue.get(False): a result, or queue.Empty which ends the drain
MGetNB == /\ pc[0] = "MGetNB"
          /\ IF rq.items # <<>>
             THEN /\ Receive(Head(rq.items)) /\ rq' = Take(rq) /\ Goto("MGetNB") /\ UNCHANGED <<c, i, s>>
             ELSE /\ UNCHANGED <<rq, fin, wfb, bufs, res, out, i>>
                  /\ IF i < Calls[c] THEN Goto("MPut") /\ UNCHANGED <<c, s>>
                     ELSE IF Kind = "mulpmap" THEN Goto("MStop") /\ s' = 1 /\ UNCHANGED c
                     ELSE IF fin < i THEN Goto("MGet") /\ UNCHANGED <<c, s>>
                     ELSE LET nx == SkipEmpty(c + 1)
                          IN IF nx <= NCalls THEN c' = nx /\ Goto("MPutNew") /\ UNCHANGED s
                             ELSE c' = c /\ s' = 1 /\ Goto("MStop")
          /\ UNCHANGED <<wq, started, exited, wi>>
\* results_queue.get(): blocks until a result is there
EndOfDrain ==        \* after the blocking drain of a call
    IF Kind = "mulpmap"
    THEN /\ Goto("MJoin") /\ s' = 1 /\ UNCHANGED c
    ELSE LET nx == SkipEmpty(c + 1)
         IN IF nx <= NCalls THEN c' = nx /\ Goto("MPutNew") /\ UNCHANGED s ELSE c' = c /\ s' = 1 /\ Goto("MStop")
MGet == /\ pc[0] = "MGet" /\ rq.items # <<>>
        /\ Receive(Head(rq.items)) /\ rq' = Take(rq)
        /\ IF fin' < i THEN Goto("MGet") /\ UNCHANGED <<c, s>> ELSE EndOfDrain
        /\ UNCHANGED <<wq, i, started, exited, wi>>
\* the first put of a later functormap call: fresh counters and a fresh reorder buffer
MPutNew == /\ pc[0] = "MPutNew" /\ ~Full(wq, WQCap)
           /\ wq' = Add(wq, 0, <<c, 0>>) /\ i' = 1 /\ fin' = 0 /\ Goto("MGetNB")
           /\ IF Design = "sharedbuf" THEN UNCHANGED <<wfb, bufs>> ELSE wfb' = 0 /\ bufs' = {}
           /\ UNCHANGED <<rq, c, res, out, s, started, exited, wi>>
\* work_queue.put(None), once per worker
MStop == /\ pc[0] = "MStop" /\ ~Full(wq, WQCap)
         /\ wq' = Add(wq, 0, NoneItem)
         /\ IF s < NW THEN s' = s + 1 /\ Goto("MStop")
            ELSE /\ s' = 1
                 /\ IF Kind = "functormap" \/ Design = "joinfirst" \/ fin >= i THEN Goto("MJoin") ELSE Goto("MGet")
         /\ UNCHANGED <<rq, c, i, fin, wfb, bufs, res, out, started, exited, wi>>
\* p.join(): the process has left run() and its feeder holds nothing
SortedRes == LET idx == {res[k][2] : k \in DOMAIN res}
             IN [k \in 1..Len(res) |-> <<c, CHOOSE x \in idx : Cardinality({y \in idx : y < x}) = k - 1>>]
MJoin == /\ pc[0] = "MJoin"
         /\ LET w == NthOfGroup(c, s) IN w \in exited /\ ~Holding(w)
         /\ IF s < NW THEN s' = s + 1 /\ Goto("MJoin") /\ UNCHANGED <<c, out, i, fin, res, rq>>
            ELSE IF Kind = "functormap" THEN Goto("Done") /\ UNCHANGED <<s, c, out, i, fin, res, rq>>
            ELSE IF Design = "joinfirst" /\ fin < i THEN Goto("MGet") /\ s' = 1 /\ UNCHANGED <<c, out, i, fin, res, rq>>
            ELSE /\ out' = out \o (IF Cardinality({res[k][2] : k \in DOMAIN res}) = Len(res) THEN SortedRes ELSE [k \in DOMAIN res |-> <<c, res[k][2]>>])
                 /\ s' = 1 /\ UNCHANGED <<i, fin, res, rq>>
                 /\ IF c < NCalls THEN c' = c + 1 /\ Goto("MStart") ELSE c' = c /\ Goto("Done")
         /\ UNCHANGED <<wq, wfb, bufs, started, exited, wi>>
\* ---- workers
WStart(w) == /\ pc[w] = "WStart" /\ w \in started /\ pc' = [pc EXCEPT ![w] = "WGet"]
             /\ UNCHANGED <<wq, rq, c, i, fin, wfb, bufs, res, out, s, started, exited, wi>>
WGet(w) == /\ pc[w] = "WGet" /\ wq.items # <<>>
           /\ wq' = Take(wq)
           /\ IF Head(wq.items) = NoneItem
              THEN pc' = [pc EXCEPT ![w] = "Exited"] /\ exited' = exited \cup {w} /\ UNCHANGED wi
              ELSE pc' = [pc EXCEPT ![w] = "WPut"] /\ wi' = [wi EXCEPT ![w] = Head(wq.items)] /\ UNCHANGED exited
           /\ UNCHANGED <<rq, c, i, fin, wfb, bufs, res, out, s, started>>
WPut(w) == /\ pc[w] = "WPut"
           /\ rq' = Add(rq, w, wi[w]) /\ pc' = [pc EXCEPT ![w] = "WGet"]
           /\ UNCHANGED <<wq, c, i, fin, wfb, bufs, res, out, s, started, exited, wi>>

Main == MStart \/ MPut \/ MPutNew \/ MGetNB \/ MGet \/ MStop \/ MJoin
W(w) == WStart(w) \/ WGet(w) \/ WPut(w)
Terminated == pc[0] = "Done" /\ UNCHANGED vars
Next == Main \/ (\E w \in Workers : W(w)) \/ Terminated
Spec == Init /\ [][Next]_vars /\ WF_vars(Main) /\ \A w \in Workers : WF_vars(W(w))

\* ---- properties
ExpectedUpTo(call) == \* all chunks of calls 1..call, in order
    LET RECURSIVE E(_)
        E(k) == IF k = 0 THEN <<>> ELSE E(k - 1) \o [j \in 1..Calls[k] |-> <<k, j - 1>>]
    IN E(call)
IsPrefix(a, b) == Len(a) <= Len(b) /\ \A k \in DOMAIN a : a[k] = b[k]
\* what the caller has received is always a prefix of map(f, data) call after call: nothing lost, duplicated, reordered, leaked
OutOK == IsPrefix(out, ExpectedUpTo(NCalls))
\* at the end everything was delivered, the queues are empty and every started worker has left
DoneOK == pc[0] = "Done" => /\ out = ExpectedUpTo(NCalls)
                             /\ wq.items = <<>> /\ wq.held = <<>> /\ rq.items = <<>> /\ rq.held = <<>>
                             /\ started \subseteq exited
\* a call that has moved on delivered all of its results first (independence of repeated calls)
CallsComplete == \A k \in 1..NCalls : (k < c /\ pc[0] # "Done") => IsPrefix(ExpectedUpTo(k), out)
Termination == <>(pc[0] = "Done")
=============================================================================
