----------------------------- MODULE FactoryPool -----------------------------
(* Design-level model of FactoryFunctorPool (C03, C04): the consumer, the feeding thread, the replace thread,
   worker processes with a chunk quota that retire and are replaced, across several calls and the exit of the
   pool context.  Coarser than FunctorPool.tla (a label is a synchronisation point, not every visible
   operation); it is checked exhaustively by TLC and is not replayed step by step.

   Design = "fixed"      the repaired code: the replace thread always consumes its stop token
   Design = "leak"       negative control for the lifecycle clause: the exit does not join the workers
   Design = "stale"      the pinned commit: the replace thread leaves through stop_event and may leave the
                         token behind (negative control: the next call's thread dies at once, the call hangs)
   Known finding: with WorkCap < NW (explicit integer work_queue_maxsize below the number of workers) workers
   that retire exactly at the end of the last call are not replaced and the exit blocks on put(None); the model
   exhibits it (NoDeadlock fails for such a configuration), see KNOWN_FINDINGS.json.                        *)
EXTENDS Integers, Sequences, FiniteSets, TLC

CONSTANTS Calls,      \* sequence of [n |-> chunks, ord |-> BOOLEAN]
          NW,         \* number of worker slots
          MaxWid,     \* bound on worker ids ever created
          WorkCap,    \* 0 = unbounded
          ResCap,     \* 0 = unbounded
          Quota,      \* chunks per worker, 0 = unlimited (no replacement)
          Design

NoneTok == [k |-> "none", c |-> 0, i |-> 0]
WakeTok == [k |-> "wake", c |-> 0, i |-> 0]
Wids == 1..MaxWid
Slots == 1..NW
Full(q, cap) == cap # 0 /\ Len(q) >= cap
Fixed == Design = "fixed"

(* --algorithm FactoryPool {
variables
  sending = FALSE, dataCnt = 0,
  workQ = <<>>, resQ = <<>>, replQ = <<>>,
  resLock = 0,
  stopF = FALSE, runEv = TRUE, stopR = FALSE,
  feederOn = FALSE, feederDone = FALSE,
  replOn = FALSE, replDone = FALSE,
  procs = [s \in Slots |-> s],               \* slot -> worker id
  nextWid = NW + 1,
  wstate = [w \in Wids |-> IF w <= NW THEN "new" ELSE "none"],     \* none, new, started, exited
  begun = [w \in Wids |-> 0], ended = [w \in Wids |-> 0], done = [w \in Wids |-> 0],
  cno = 1, out = <<>>, outs = <<>>, finishedAll = FALSE, bad = FALSE;

define {
  ResMax == IF ResCap = 0 THEN 1000000 ELSE ResCap
  Expected(c) == [j \in 1..Calls[c].n |-> <<c, j - 1>>]
  SameBag(s, t) == Len(s) = Len(t) /\ \A x \in {s[j] : j \in DOMAIN s} \cup {t[j] : j \in DOMAIN t} :
                      Cardinality({j \in DOMAIN s : s[j] = x}) = Cardinality({j \in DOMAIN t : t[j] = x})
  CallOK == \A c \in DOMAIN outs : IF Calls[c].ord THEN outs[c] = Expected(c) ELSE SameBag(outs[c], Expected(c))
  NoBad == ~bad
  \* C04: begin at most once, end only after begin and at most once, quota kept, nobody left running
  Lifecycle == /\ \A w \in Wids : begun[w] <= 1 /\ ended[w] <= begun[w] /\ (Quota # 0 => done[w] <= Quota)
               /\ finishedAll => \A w \in Wids : wstate[w] \in {"none", "exited"} /\ ended[w] = begun[w]
  \* C03: while work is pending somebody can still do it: a live worker, or a replacement that is still owed and
  \* a replace thread that can deliver it
  Pending == \E j \in DOMAIN workQ : workQ[j].k = "work"
}

process (Main = 100)
variables finished = 0, buf = {}, wf = 0, batch = <<>>, woken = FALSE, qn = 0, i = 1, sw = FALSE;
{
 PoolEnter:
  wstate := [w \in Wids |-> IF wstate[w] = "new" THEN "started" ELSE wstate[w]];
 CallStart:
  while (cno <= Len(Calls)) {
    finished := 0; buf := {}; wf := 0; out := <<>>;
    if (Quota # 0) { replOn := TRUE; replDone := FALSE; stopR := FALSE; };
 StartFeeder:
    sending := TRUE; dataCnt := 0;
    feederOn := TRUE; feederDone := FALSE; stopF := FALSE; runEv := TRUE;
 LoopCond1:
    sw := sending;
 LoopCond2:
    if (sw \/ finished < dataCnt) {
 G1:   qn := Len(resQ); batch := <<>>; woken := FALSE;
       if (qn > 0) {
 G2:     await resLock = 0; resLock := 100;
 G3:     qn := Len(resQ);
         if (qn > 0) {
 G4:       if (resQ # <<>>) {
             if (Head(resQ).k = "wake") { woken := TRUE; } else { batch := Append(batch, Head(resQ)); };
             resQ := Tail(resQ); goto G3; };
         };
 G5:     resLock := 0;
       };
 G6:   if (batch = <<>> /\ ~woken) {
         await resQ # <<>>;
         if (Head(resQ).k # "wake") { batch := <<Head(resQ)>>; };
         resQ := Tail(resQ);
       };
 Proc: while (batch # <<>>) {
         if (Calls[cno].ord) {
           if (Head(batch).i < wf) { bad := TRUE; } else { buf := buf \cup {Head(batch)}; };
 Drain:    while (\E r \in buf : r.i = wf) {
             with (r \in {x \in buf : x.i = wf}) { out := Append(out, <<r.c, r.i>>); buf := buf \ {r}; };
             wf := wf + 1; finished := finished + 1;
           };
         } else { out := Append(out, <<Head(batch).c, Head(batch).i>>); finished := finished + 1; };
 ProcNext: batch := Tail(batch);
       };
 Flow: if (Calls[cno].ord) {
         if (Cardinality(buf) >= ResMax) { runEv := FALSE; }
         else if (~runEv) { runEv := TRUE; };
       };
       goto LoopCond1;
    };
 StopFeeder:
    stopF := TRUE;
 JoinFeeder:
    await feederDone; feederOn := FALSE;
    if (Quota # 0) {
 StopRepl1: replQ := Append(replQ, 0);
 StopRepl2: stopR := TRUE;
 JoinRepl:  await replDone; replOn := FALSE;
    };
 CallEnd:
    outs := Append(outs, out); cno := cno + 1;
  };
  i := 1;
 ExitPut:
  while (i <= NW) {
    await ~Full(workQ, WorkCap);
    workQ := Append(workQ, NoneTok); i := i + 1;
  };
  i := 1;
 ExitJoin:
  while (i <= NW) {
    await Design = "leak" \/ wstate[procs[i]] = "exited"; i := i + 1;      \* "leak": exit without joining (negative control)
  };
 Finished:
  finishedAll := TRUE;
}

process (Feeder = 200)
variables k = 0, mycno = 0;
{
 FWait:
  while (TRUE) {
    await feederOn /\ ~feederDone /\ mycno < cno; mycno := cno; k := 0;
 F2: while (k < Calls[mycno].n) {
       await ~Full(workQ, WorkCap);
       workQ := Append(workQ, [k |-> "work", c |-> mycno, i |-> k]);
 F3:   dataCnt := dataCnt + 1; k := k + 1;
 F4:   if (stopF) { goto F6; };
 F5:   await runEv;
     };
 F6: sending := FALSE;
 F7: if (~Full(resQ, ResCap)) { resQ := Append(resQ, WakeTok); };
     feederDone := TRUE;
  }
}

process (Repl = 300)
variables rid = 0, slot = 0, rcno = 0;
{
 RWait:
  while (TRUE) {
    await replOn /\ ~replDone /\ rcno < cno; rcno := cno;
 R0: if (~Fixed /\ stopR) { goto RDone; };
 R1: await replQ # <<>>;
     rid := Head(replQ); replQ := Tail(replQ);
     if (rid = 0) { goto RDone; };
 R2: slot := CHOOSE s \in Slots : procs[s] = rid;
     await wstate[rid] = "exited";
 R3: procs[slot] := nextWid; wstate[nextWid] := "started"; nextWid := nextWid + 1;
     goto R0;
 RDone: replDone := TRUE;
  }
}

process (W \in Wids)
variables item = NoneTok, q = 0;
{
 W0: await wstate[self] = "started";
     begun[self] := begun[self] + 1; q := Quota;
 W1: while (Quota = 0 \/ q > 0) {
       await workQ # <<>>;
       item := Head(workQ); workQ := Tail(workQ);
       if (item.k = "none") { goto WEnd; };
 P1:   await resLock = 0; resLock := self;
 P2:   if (Full(resQ, ResCap)) { resLock := 0;
 P3:     await ~Full(resQ, ResCap); resQ := Append(resQ, [k |-> "res", c |-> item.c, i |-> item.i]);
       } else { resQ := Append(resQ, [k |-> "res", c |-> item.c, i |-> item.i]); resLock := 0; };
 P4:   done[self] := done[self] + 1; if (Quota # 0) { q := q - 1; };
     };
 WRetire:
     if (Quota # 0) { replQ := Append(replQ, self); };
 WEnd:
     ended[self] := ended[self] + 1; wstate[self] := "exited";
}
} *)
\* BEGIN TRANSLATION
VARIABLES pc, sending, dataCnt, workQ, resQ, replQ, resLock, stopF, runEv, 
          stopR, feederOn, feederDone, replOn, replDone, procs, nextWid, 
          wstate, begun, ended, done, cno, out, outs, finishedAll, bad

(* define statement *)
ResMax == IF ResCap = 0 THEN 1000000 ELSE ResCap
Expected(c) == [j \in 1..Calls[c].n |-> <<c, j - 1>>]
SameBag(s, t) == Len(s) = Len(t) /\ \A x \in {s[j] : j \in DOMAIN s} \cup {t[j] : j \in DOMAIN t} :
                    Cardinality({j \in DOMAIN s : s[j] = x}) = Cardinality({j \in DOMAIN t : t[j] = x})
CallOK == \A c \in DOMAIN outs : IF Calls[c].ord THEN outs[c] = Expected(c) ELSE SameBag(outs[c], Expected(c))
NoBad == ~bad

Lifecycle == /\ \A w \in Wids : begun[w] <= 1 /\ ended[w] <= begun[w] /\ (Quota # 0 => done[w] <= Quota)
             /\ finishedAll => \A w \in Wids : wstate[w] \in {"none", "exited"} /\ ended[w] = begun[w]


Pending == \E j \in DOMAIN workQ : workQ[j].k = "work"

VARIABLES finished, buf, wf, batch, woken, qn, i, sw, k, mycno, rid, slot, 
          rcno, item, q

vars == << pc, sending, dataCnt, workQ, resQ, replQ, resLock, stopF, runEv, 
           stopR, feederOn, feederDone, replOn, replDone, procs, nextWid, 
           wstate, begun, ended, done, cno, out, outs, finishedAll, bad, 
           finished, buf, wf, batch, woken, qn, i, sw, k, mycno, rid, slot, 
           rcno, item, q >>

ProcSet == {100} \cup {200} \cup {300} \cup (Wids)

Init == (* Global variables *)
        /\ sending = FALSE
        /\ dataCnt = 0
        /\ workQ = <<>>
        /\ resQ = <<>>
        /\ replQ = <<>>
        /\ resLock = 0
        /\ stopF = FALSE
        /\ runEv = TRUE
        /\ stopR = FALSE
        /\ feederOn = FALSE
        /\ feederDone = FALSE
        /\ replOn = FALSE
        /\ replDone = FALSE
        /\ procs = [s \in Slots |-> s]
        /\ nextWid = NW + 1
        /\ wstate = [w \in Wids |-> IF w <= NW THEN "new" ELSE "none"]
        /\ begun = [w \in Wids |-> 0]
        /\ ended = [w \in Wids |-> 0]
        /\ done = [w \in Wids |-> 0]
        /\ cno = 1
        /\ out = <<>>
        /\ outs = <<>>
        /\ finishedAll = FALSE
        /\ bad = FALSE
        (* Process Main *)
        /\ finished = 0
        /\ buf = {}
        /\ wf = 0
        /\ batch = <<>>
        /\ woken = FALSE
        /\ qn = 0
        /\ i = 1
        /\ sw = FALSE
        (* Process Feeder *)
        /\ k = 0
        /\ mycno = 0
        (* Process Repl *)
        /\ rid = 0
        /\ slot = 0
        /\ rcno = 0
        (* Process W *)
        /\ item = [self \in Wids |-> NoneTok]
        /\ q = [self \in Wids |-> 0]
        /\ pc = [self \in ProcSet |-> CASE self = 100 -> "PoolEnter"
                                        [] self = 200 -> "FWait"
                                        [] self = 300 -> "RWait"
                                        [] self \in Wids -> "W0"]

PoolEnter == /\ pc[100] = "PoolEnter"
             /\ wstate' = [w \in Wids |-> IF wstate[w] = "new" THEN "started" ELSE wstate[w]]
             /\ pc' = [pc EXCEPT ![100] = "CallStart"]
             /\ UNCHANGED << sending, dataCnt, workQ, resQ, replQ, resLock, 
                             stopF, runEv, stopR, feederOn, feederDone, replOn, 
                             replDone, procs, nextWid, begun, ended, done, cno, 
                             out, outs, finishedAll, bad, finished, buf, wf, 
                             batch, woken, qn, i, sw, k, mycno, rid, slot, 
                             rcno, item, q >>

CallStart == /\ pc[100] = "CallStart"
             /\ IF cno <= Len(Calls)
                   THEN /\ finished' = 0
                        /\ buf' = {}
                        /\ wf' = 0
                        /\ out' = <<>>
                        /\ IF Quota # 0
                              THEN /\ replOn' = TRUE
                                   /\ replDone' = FALSE
                                   /\ stopR' = FALSE
                              ELSE /\ TRUE
                                   /\ UNCHANGED << stopR, replOn, replDone >>
                        /\ pc' = [pc EXCEPT ![100] = "StartFeeder"]
                        /\ i' = i
                   ELSE /\ i' = 1
                        /\ pc' = [pc EXCEPT ![100] = "ExitPut"]
                        /\ UNCHANGED << stopR, replOn, replDone, out, finished, 
                                        buf, wf >>
             /\ UNCHANGED << sending, dataCnt, workQ, resQ, replQ, resLock, 
                             stopF, runEv, feederOn, feederDone, procs, 
                             nextWid, wstate, begun, ended, done, cno, outs, 
                             finishedAll, bad, batch, woken, qn, sw, k, mycno, 
                             rid, slot, rcno, item, q >>

StartFeeder == /\ pc[100] = "StartFeeder"
               /\ sending' = TRUE
               /\ dataCnt' = 0
               /\ feederOn' = TRUE
               /\ feederDone' = FALSE
               /\ stopF' = FALSE
               /\ runEv' = TRUE
               /\ pc' = [pc EXCEPT ![100] = "LoopCond1"]
               /\ UNCHANGED << workQ, resQ, replQ, resLock, stopR, replOn, 
                               replDone, procs, nextWid, wstate, begun, ended, 
                               done, cno, out, outs, finishedAll, bad, 
                               finished, buf, wf, batch, woken, qn, i, sw, k, 
                               mycno, rid, slot, rcno, item, q >>

LoopCond1 == /\ pc[100] = "LoopCond1"
             /\ sw' = sending
             /\ pc' = [pc EXCEPT ![100] = "LoopCond2"]
             /\ UNCHANGED << sending, dataCnt, workQ, resQ, replQ, resLock, 
                             stopF, runEv, stopR, feederOn, feederDone, replOn, 
                             replDone, procs, nextWid, wstate, begun, ended, 
                             done, cno, out, outs, finishedAll, bad, finished, 
                             buf, wf, batch, woken, qn, i, k, mycno, rid, slot, 
                             rcno, item, q >>

LoopCond2 == /\ pc[100] = "LoopCond2"
             /\ IF sw \/ finished < dataCnt
                   THEN /\ pc' = [pc EXCEPT ![100] = "G1"]
                   ELSE /\ pc' = [pc EXCEPT ![100] = "StopFeeder"]
             /\ UNCHANGED << sending, dataCnt, workQ, resQ, replQ, resLock, 
                             stopF, runEv, stopR, feederOn, feederDone, replOn, 
                             replDone, procs, nextWid, wstate, begun, ended, 
                             done, cno, out, outs, finishedAll, bad, finished, 
                             buf, wf, batch, woken, qn, i, sw, k, mycno, rid, 
                             slot, rcno, item, q >>

G1 == /\ pc[100] = "G1"
      /\ qn' = Len(resQ)
      /\ batch' = <<>>
      /\ woken' = FALSE
      /\ IF qn' > 0
            THEN /\ pc' = [pc EXCEPT ![100] = "G2"]
            ELSE /\ pc' = [pc EXCEPT ![100] = "G6"]
      /\ UNCHANGED << sending, dataCnt, workQ, resQ, replQ, resLock, stopF, 
                      runEv, stopR, feederOn, feederDone, replOn, replDone, 
                      procs, nextWid, wstate, begun, ended, done, cno, out, 
                      outs, finishedAll, bad, finished, buf, wf, i, sw, k, 
                      mycno, rid, slot, rcno, item, q >>

G2 == /\ pc[100] = "G2"
      /\ resLock = 0
      /\ resLock' = 100
      /\ pc' = [pc EXCEPT ![100] = "G3"]
      /\ UNCHANGED << sending, dataCnt, workQ, resQ, replQ, stopF, runEv, 
                      stopR, feederOn, feederDone, replOn, replDone, procs, 
                      nextWid, wstate, begun, ended, done, cno, out, outs, 
                      finishedAll, bad, finished, buf, wf, batch, woken, qn, i, 
                      sw, k, mycno, rid, slot, rcno, item, q >>

G3 == /\ pc[100] = "G3"
      /\ qn' = Len(resQ)
      /\ IF qn' > 0
            THEN /\ pc' = [pc EXCEPT ![100] = "G4"]
            ELSE /\ pc' = [pc EXCEPT ![100] = "G5"]
      /\ UNCHANGED << sending, dataCnt, workQ, resQ, replQ, resLock, stopF, 
                      runEv, stopR, feederOn, feederDone, replOn, replDone, 
                      procs, nextWid, wstate, begun, ended, done, cno, out, 
                      outs, finishedAll, bad, finished, buf, wf, batch, woken, 
                      i, sw, k, mycno, rid, slot, rcno, item, q >>

G4 == /\ pc[100] = "G4"
      /\ IF resQ # <<>>
            THEN /\ IF Head(resQ).k = "wake"
                       THEN /\ woken' = TRUE
                            /\ batch' = batch
                       ELSE /\ batch' = Append(batch, Head(resQ))
                            /\ woken' = woken
                 /\ resQ' = Tail(resQ)
                 /\ pc' = [pc EXCEPT ![100] = "G3"]
            ELSE /\ pc' = [pc EXCEPT ![100] = "G5"]
                 /\ UNCHANGED << resQ, batch, woken >>
      /\ UNCHANGED << sending, dataCnt, workQ, replQ, resLock, stopF, runEv, 
                      stopR, feederOn, feederDone, replOn, replDone, procs, 
                      nextWid, wstate, begun, ended, done, cno, out, outs, 
                      finishedAll, bad, finished, buf, wf, qn, i, sw, k, mycno, 
                      rid, slot, rcno, item, q >>

G5 == /\ pc[100] = "G5"
      /\ resLock' = 0
      /\ pc' = [pc EXCEPT ![100] = "G6"]
      /\ UNCHANGED << sending, dataCnt, workQ, resQ, replQ, stopF, runEv, 
                      stopR, feederOn, feederDone, replOn, replDone, procs, 
                      nextWid, wstate, begun, ended, done, cno, out, outs, 
                      finishedAll, bad, finished, buf, wf, batch, woken, qn, i, 
                      sw, k, mycno, rid, slot, rcno, item, q >>

G6 == /\ pc[100] = "G6"
      /\ IF batch = <<>> /\ ~woken
            THEN /\ resQ # <<>>
                 /\ IF Head(resQ).k # "wake"
                       THEN /\ batch' = <<Head(resQ)>>
                       ELSE /\ TRUE
                            /\ batch' = batch
                 /\ resQ' = Tail(resQ)
            ELSE /\ TRUE
                 /\ UNCHANGED << resQ, batch >>
      /\ pc' = [pc EXCEPT ![100] = "Proc"]
      /\ UNCHANGED << sending, dataCnt, workQ, replQ, resLock, stopF, runEv, 
                      stopR, feederOn, feederDone, replOn, replDone, procs, 
                      nextWid, wstate, begun, ended, done, cno, out, outs, 
                      finishedAll, bad, finished, buf, wf, woken, qn, i, sw, k, 
                      mycno, rid, slot, rcno, item, q >>

Proc == /\ pc[100] = "Proc"
        /\ IF batch # <<>>
              THEN /\ IF Calls[cno].ord
                         THEN /\ IF Head(batch).i < wf
                                    THEN /\ bad' = TRUE
                                         /\ buf' = buf
                                    ELSE /\ buf' = (buf \cup {Head(batch)})
                                         /\ bad' = bad
                              /\ pc' = [pc EXCEPT ![100] = "Drain"]
                              /\ UNCHANGED << out, finished >>
                         ELSE /\ out' = Append(out, <<Head(batch).c, Head(batch).i>>)
                              /\ finished' = finished + 1
                              /\ pc' = [pc EXCEPT ![100] = "ProcNext"]
                              /\ UNCHANGED << bad, buf >>
              ELSE /\ pc' = [pc EXCEPT ![100] = "Flow"]
                   /\ UNCHANGED << out, bad, finished, buf >>
        /\ UNCHANGED << sending, dataCnt, workQ, resQ, replQ, resLock, stopF, 
                        runEv, stopR, feederOn, feederDone, replOn, replDone, 
                        procs, nextWid, wstate, begun, ended, done, cno, outs, 
                        finishedAll, wf, batch, woken, qn, i, sw, k, mycno, 
                        rid, slot, rcno, item, q >>

ProcNext == /\ pc[100] = "ProcNext"
            /\ batch' = Tail(batch)
            /\ pc' = [pc EXCEPT ![100] = "Proc"]
            /\ UNCHANGED << sending, dataCnt, workQ, resQ, replQ, resLock, 
                            stopF, runEv, stopR, feederOn, feederDone, replOn, 
                            replDone, procs, nextWid, wstate, begun, ended, 
                            done, cno, out, outs, finishedAll, bad, finished, 
                            buf, wf, woken, qn, i, sw, k, mycno, rid, slot, 
                            rcno, item, q >>

Drain == /\ pc[100] = "Drain"
         /\ IF \E r \in buf : r.i = wf
               THEN /\ \E r \in {x \in buf : x.i = wf}:
                         /\ out' = Append(out, <<r.c, r.i>>)
                         /\ buf' = buf \ {r}
                    /\ wf' = wf + 1
                    /\ finished' = finished + 1
                    /\ pc' = [pc EXCEPT ![100] = "Drain"]
               ELSE /\ pc' = [pc EXCEPT ![100] = "ProcNext"]
                    /\ UNCHANGED << out, finished, buf, wf >>
         /\ UNCHANGED << sending, dataCnt, workQ, resQ, replQ, resLock, stopF, 
                         runEv, stopR, feederOn, feederDone, replOn, replDone, 
                         procs, nextWid, wstate, begun, ended, done, cno, outs, 
                         finishedAll, bad, batch, woken, qn, i, sw, k, mycno, 
                         rid, slot, rcno, item, q >>

Flow == /\ pc[100] = "Flow"
        /\ IF Calls[cno].ord
              THEN /\ IF Cardinality(buf) >= ResMax
                         THEN /\ runEv' = FALSE
                         ELSE /\ IF ~runEv
                                    THEN /\ runEv' = TRUE
                                    ELSE /\ TRUE
                                         /\ runEv' = runEv
              ELSE /\ TRUE
                   /\ runEv' = runEv
        /\ pc' = [pc EXCEPT ![100] = "LoopCond1"]
        /\ UNCHANGED << sending, dataCnt, workQ, resQ, replQ, resLock, stopF, 
                        stopR, feederOn, feederDone, replOn, replDone, procs, 
                        nextWid, wstate, begun, ended, done, cno, out, outs, 
                        finishedAll, bad, finished, buf, wf, batch, woken, qn, 
                        i, sw, k, mycno, rid, slot, rcno, item, q >>

StopFeeder == /\ pc[100] = "StopFeeder"
              /\ stopF' = TRUE
              /\ pc' = [pc EXCEPT ![100] = "JoinFeeder"]
              /\ UNCHANGED << sending, dataCnt, workQ, resQ, replQ, resLock, 
                              runEv, stopR, feederOn, feederDone, replOn, 
                              replDone, procs, nextWid, wstate, begun, ended, 
                              done, cno, out, outs, finishedAll, bad, finished, 
                              buf, wf, batch, woken, qn, i, sw, k, mycno, rid, 
                              slot, rcno, item, q >>

JoinFeeder == /\ pc[100] = "JoinFeeder"
              /\ feederDone
              /\ feederOn' = FALSE
              /\ IF Quota # 0
                    THEN /\ pc' = [pc EXCEPT ![100] = "StopRepl1"]
                    ELSE /\ pc' = [pc EXCEPT ![100] = "CallEnd"]
              /\ UNCHANGED << sending, dataCnt, workQ, resQ, replQ, resLock, 
                              stopF, runEv, stopR, feederDone, replOn, 
                              replDone, procs, nextWid, wstate, begun, ended, 
                              done, cno, out, outs, finishedAll, bad, finished, 
                              buf, wf, batch, woken, qn, i, sw, k, mycno, rid, 
                              slot, rcno, item, q >>

StopRepl1 == /\ pc[100] = "StopRepl1"
             /\ replQ' = Append(replQ, 0)
             /\ pc' = [pc EXCEPT ![100] = "StopRepl2"]
             /\ UNCHANGED << sending, dataCnt, workQ, resQ, resLock, stopF, 
                             runEv, stopR, feederOn, feederDone, replOn, 
                             replDone, procs, nextWid, wstate, begun, ended, 
                             done, cno, out, outs, finishedAll, bad, finished, 
                             buf, wf, batch, woken, qn, i, sw, k, mycno, rid, 
                             slot, rcno, item, q >>

StopRepl2 == /\ pc[100] = "StopRepl2"
             /\ stopR' = TRUE
             /\ pc' = [pc EXCEPT ![100] = "JoinRepl"]
             /\ UNCHANGED << sending, dataCnt, workQ, resQ, replQ, resLock, 
                             stopF, runEv, feederOn, feederDone, replOn, 
                             replDone, procs, nextWid, wstate, begun, ended, 
                             done, cno, out, outs, finishedAll, bad, finished, 
                             buf, wf, batch, woken, qn, i, sw, k, mycno, rid, 
                             slot, rcno, item, q >>

JoinRepl == /\ pc[100] = "JoinRepl"
            /\ replDone
            /\ replOn' = FALSE
            /\ pc' = [pc EXCEPT ![100] = "CallEnd"]
            /\ UNCHANGED << sending, dataCnt, workQ, resQ, replQ, resLock, 
                            stopF, runEv, stopR, feederOn, feederDone, 
                            replDone, procs, nextWid, wstate, begun, ended, 
                            done, cno, out, outs, finishedAll, bad, finished, 
                            buf, wf, batch, woken, qn, i, sw, k, mycno, rid, 
                            slot, rcno, item, q >>

CallEnd == /\ pc[100] = "CallEnd"
           /\ outs' = Append(outs, out)
           /\ cno' = cno + 1
           /\ pc' = [pc EXCEPT ![100] = "CallStart"]
           /\ UNCHANGED << sending, dataCnt, workQ, resQ, replQ, resLock, 
                           stopF, runEv, stopR, feederOn, feederDone, replOn, 
                           replDone, procs, nextWid, wstate, begun, ended, 
                           done, out, finishedAll, bad, finished, buf, wf, 
                           batch, woken, qn, i, sw, k, mycno, rid, slot, rcno, 
                           item, q >>

ExitPut == /\ pc[100] = "ExitPut"
           /\ IF i <= NW
                 THEN /\ ~Full(workQ, WorkCap)
                      /\ workQ' = Append(workQ, NoneTok)
                      /\ i' = i + 1
                      /\ pc' = [pc EXCEPT ![100] = "ExitPut"]
                 ELSE /\ i' = 1
                      /\ pc' = [pc EXCEPT ![100] = "ExitJoin"]
                      /\ workQ' = workQ
           /\ UNCHANGED << sending, dataCnt, resQ, replQ, resLock, stopF, 
                           runEv, stopR, feederOn, feederDone, replOn, 
                           replDone, procs, nextWid, wstate, begun, ended, 
                           done, cno, out, outs, finishedAll, bad, finished, 
                           buf, wf, batch, woken, qn, sw, k, mycno, rid, slot, 
                           rcno, item, q >>

ExitJoin == /\ pc[100] = "ExitJoin"
            /\ IF i <= NW
                  THEN /\ Design = "leak" \/ wstate[procs[i]] = "exited"
                       /\ i' = i + 1
                       /\ pc' = [pc EXCEPT ![100] = "ExitJoin"]
                  ELSE /\ pc' = [pc EXCEPT ![100] = "Finished"]
                       /\ i' = i
            /\ UNCHANGED << sending, dataCnt, workQ, resQ, replQ, resLock, 
                            stopF, runEv, stopR, feederOn, feederDone, replOn, 
                            replDone, procs, nextWid, wstate, begun, ended, 
                            done, cno, out, outs, finishedAll, bad, finished, 
                            buf, wf, batch, woken, qn, sw, k, mycno, rid, slot, 
                            rcno, item, q >>

Finished == /\ pc[100] = "Finished"
            /\ finishedAll' = TRUE
            /\ pc' = [pc EXCEPT ![100] = "Done"]
            /\ UNCHANGED << sending, dataCnt, workQ, resQ, replQ, resLock, 
                            stopF, runEv, stopR, feederOn, feederDone, replOn, 
                            replDone, procs, nextWid, wstate, begun, ended, 
                            done, cno, out, outs, bad, finished, buf, wf, 
                            batch, woken, qn, i, sw, k, mycno, rid, slot, rcno, 
                            item, q >>

Main == PoolEnter \/ CallStart \/ StartFeeder \/ LoopCond1 \/ LoopCond2
           \/ G1 \/ G2 \/ G3 \/ G4 \/ G5 \/ G6 \/ Proc \/ ProcNext \/ Drain
           \/ Flow \/ StopFeeder \/ JoinFeeder \/ StopRepl1 \/ StopRepl2
           \/ JoinRepl \/ CallEnd \/ ExitPut \/ ExitJoin \/ Finished

FWait == /\ pc[200] = "FWait"
         /\ feederOn /\ ~feederDone /\ mycno < cno
         /\ mycno' = cno
         /\ k' = 0
         /\ pc' = [pc EXCEPT ![200] = "F2"]
         /\ UNCHANGED << sending, dataCnt, workQ, resQ, replQ, resLock, stopF, 
                         runEv, stopR, feederOn, feederDone, replOn, replDone, 
                         procs, nextWid, wstate, begun, ended, done, cno, out, 
                         outs, finishedAll, bad, finished, buf, wf, batch, 
                         woken, qn, i, sw, rid, slot, rcno, item, q >>

F2 == /\ pc[200] = "F2"
      /\ IF k < Calls[mycno].n
            THEN /\ ~Full(workQ, WorkCap)
                 /\ workQ' = Append(workQ, [k |-> "work", c |-> mycno, i |-> k])
                 /\ pc' = [pc EXCEPT ![200] = "F3"]
            ELSE /\ pc' = [pc EXCEPT ![200] = "F6"]
                 /\ workQ' = workQ
      /\ UNCHANGED << sending, dataCnt, resQ, replQ, resLock, stopF, runEv, 
                      stopR, feederOn, feederDone, replOn, replDone, procs, 
                      nextWid, wstate, begun, ended, done, cno, out, outs, 
                      finishedAll, bad, finished, buf, wf, batch, woken, qn, i, 
                      sw, k, mycno, rid, slot, rcno, item, q >>

F3 == /\ pc[200] = "F3"
      /\ dataCnt' = dataCnt + 1
      /\ k' = k + 1
      /\ pc' = [pc EXCEPT ![200] = "F4"]
      /\ UNCHANGED << sending, workQ, resQ, replQ, resLock, stopF, runEv, 
                      stopR, feederOn, feederDone, replOn, replDone, procs, 
                      nextWid, wstate, begun, ended, done, cno, out, outs, 
                      finishedAll, bad, finished, buf, wf, batch, woken, qn, i, 
                      sw, mycno, rid, slot, rcno, item, q >>

F4 == /\ pc[200] = "F4"
      /\ IF stopF
            THEN /\ pc' = [pc EXCEPT ![200] = "F6"]
            ELSE /\ pc' = [pc EXCEPT ![200] = "F5"]
      /\ UNCHANGED << sending, dataCnt, workQ, resQ, replQ, resLock, stopF, 
                      runEv, stopR, feederOn, feederDone, replOn, replDone, 
                      procs, nextWid, wstate, begun, ended, done, cno, out, 
                      outs, finishedAll, bad, finished, buf, wf, batch, woken, 
                      qn, i, sw, k, mycno, rid, slot, rcno, item, q >>

F5 == /\ pc[200] = "F5"
      /\ runEv
      /\ pc' = [pc EXCEPT ![200] = "F2"]
      /\ UNCHANGED << sending, dataCnt, workQ, resQ, replQ, resLock, stopF, 
                      runEv, stopR, feederOn, feederDone, replOn, replDone, 
                      procs, nextWid, wstate, begun, ended, done, cno, out, 
                      outs, finishedAll, bad, finished, buf, wf, batch, woken, 
                      qn, i, sw, k, mycno, rid, slot, rcno, item, q >>

F6 == /\ pc[200] = "F6"
      /\ sending' = FALSE
      /\ pc' = [pc EXCEPT ![200] = "F7"]
      /\ UNCHANGED << dataCnt, workQ, resQ, replQ, resLock, stopF, runEv, 
                      stopR, feederOn, feederDone, replOn, replDone, procs, 
                      nextWid, wstate, begun, ended, done, cno, out, outs, 
                      finishedAll, bad, finished, buf, wf, batch, woken, qn, i, 
                      sw, k, mycno, rid, slot, rcno, item, q >>

F7 == /\ pc[200] = "F7"
      /\ IF ~Full(resQ, ResCap)
            THEN /\ resQ' = Append(resQ, WakeTok)
            ELSE /\ TRUE
                 /\ resQ' = resQ
      /\ feederDone' = TRUE
      /\ pc' = [pc EXCEPT ![200] = "FWait"]
      /\ UNCHANGED << sending, dataCnt, workQ, replQ, resLock, stopF, runEv, 
                      stopR, feederOn, replOn, replDone, procs, nextWid, 
                      wstate, begun, ended, done, cno, out, outs, finishedAll, 
                      bad, finished, buf, wf, batch, woken, qn, i, sw, k, 
                      mycno, rid, slot, rcno, item, q >>

Feeder == FWait \/ F2 \/ F3 \/ F4 \/ F5 \/ F6 \/ F7

RWait == /\ pc[300] = "RWait"
         /\ replOn /\ ~replDone /\ rcno < cno
         /\ rcno' = cno
         /\ pc' = [pc EXCEPT ![300] = "R0"]
         /\ UNCHANGED << sending, dataCnt, workQ, resQ, replQ, resLock, stopF, 
                         runEv, stopR, feederOn, feederDone, replOn, replDone, 
                         procs, nextWid, wstate, begun, ended, done, cno, out, 
                         outs, finishedAll, bad, finished, buf, wf, batch, 
                         woken, qn, i, sw, k, mycno, rid, slot, item, q >>

R0 == /\ pc[300] = "R0"
      /\ IF ~Fixed /\ stopR
            THEN /\ pc' = [pc EXCEPT ![300] = "RDone"]
            ELSE /\ pc' = [pc EXCEPT ![300] = "R1"]
      /\ UNCHANGED << sending, dataCnt, workQ, resQ, replQ, resLock, stopF, 
                      runEv, stopR, feederOn, feederDone, replOn, replDone, 
                      procs, nextWid, wstate, begun, ended, done, cno, out, 
                      outs, finishedAll, bad, finished, buf, wf, batch, woken, 
                      qn, i, sw, k, mycno, rid, slot, rcno, item, q >>

R1 == /\ pc[300] = "R1"
      /\ replQ # <<>>
      /\ rid' = Head(replQ)
      /\ replQ' = Tail(replQ)
      /\ IF rid' = 0
            THEN /\ pc' = [pc EXCEPT ![300] = "RDone"]
            ELSE /\ pc' = [pc EXCEPT ![300] = "R2"]
      /\ UNCHANGED << sending, dataCnt, workQ, resQ, resLock, stopF, runEv, 
                      stopR, feederOn, feederDone, replOn, replDone, procs, 
                      nextWid, wstate, begun, ended, done, cno, out, outs, 
                      finishedAll, bad, finished, buf, wf, batch, woken, qn, i, 
                      sw, k, mycno, slot, rcno, item, q >>

R2 == /\ pc[300] = "R2"
      /\ slot' = (CHOOSE s \in Slots : procs[s] = rid)
      /\ wstate[rid] = "exited"
      /\ pc' = [pc EXCEPT ![300] = "R3"]
      /\ UNCHANGED << sending, dataCnt, workQ, resQ, replQ, resLock, stopF, 
                      runEv, stopR, feederOn, feederDone, replOn, replDone, 
                      procs, nextWid, wstate, begun, ended, done, cno, out, 
                      outs, finishedAll, bad, finished, buf, wf, batch, woken, 
                      qn, i, sw, k, mycno, rid, rcno, item, q >>

R3 == /\ pc[300] = "R3"
      /\ procs' = [procs EXCEPT ![slot] = nextWid]
      /\ wstate' = [wstate EXCEPT ![nextWid] = "started"]
      /\ nextWid' = nextWid + 1
      /\ pc' = [pc EXCEPT ![300] = "R0"]
      /\ UNCHANGED << sending, dataCnt, workQ, resQ, replQ, resLock, stopF, 
                      runEv, stopR, feederOn, feederDone, replOn, replDone, 
                      begun, ended, done, cno, out, outs, finishedAll, bad, 
                      finished, buf, wf, batch, woken, qn, i, sw, k, mycno, 
                      rid, slot, rcno, item, q >>

RDone == /\ pc[300] = "RDone"
         /\ replDone' = TRUE
         /\ pc' = [pc EXCEPT ![300] = "RWait"]
         /\ UNCHANGED << sending, dataCnt, workQ, resQ, replQ, resLock, stopF, 
                         runEv, stopR, feederOn, feederDone, replOn, procs, 
                         nextWid, wstate, begun, ended, done, cno, out, outs, 
                         finishedAll, bad, finished, buf, wf, batch, woken, qn, 
                         i, sw, k, mycno, rid, slot, rcno, item, q >>

Repl == RWait \/ R0 \/ R1 \/ R2 \/ R3 \/ RDone

W0(self) == /\ pc[self] = "W0"
            /\ wstate[self] = "started"
            /\ begun' = [begun EXCEPT ![self] = begun[self] + 1]
            /\ q' = [q EXCEPT ![self] = Quota]
            /\ pc' = [pc EXCEPT ![self] = "W1"]
            /\ UNCHANGED << sending, dataCnt, workQ, resQ, replQ, resLock, 
                            stopF, runEv, stopR, feederOn, feederDone, replOn, 
                            replDone, procs, nextWid, wstate, ended, done, cno, 
                            out, outs, finishedAll, bad, finished, buf, wf, 
                            batch, woken, qn, i, sw, k, mycno, rid, slot, rcno, 
                            item >>

W1(self) == /\ pc[self] = "W1"
            /\ IF Quota = 0 \/ q[self] > 0
                  THEN /\ workQ # <<>>
                       /\ item' = [item EXCEPT ![self] = Head(workQ)]
                       /\ workQ' = Tail(workQ)
                       /\ IF item'[self].k = "none"
                             THEN /\ pc' = [pc EXCEPT ![self] = "WEnd"]
                             ELSE /\ pc' = [pc EXCEPT ![self] = "P1"]
                  ELSE /\ pc' = [pc EXCEPT ![self] = "WRetire"]
                       /\ UNCHANGED << workQ, item >>
            /\ UNCHANGED << sending, dataCnt, resQ, replQ, resLock, stopF, 
                            runEv, stopR, feederOn, feederDone, replOn, 
                            replDone, procs, nextWid, wstate, begun, ended, 
                            done, cno, out, outs, finishedAll, bad, finished, 
                            buf, wf, batch, woken, qn, i, sw, k, mycno, rid, 
                            slot, rcno, q >>

P1(self) == /\ pc[self] = "P1"
            /\ resLock = 0
            /\ resLock' = self
            /\ pc' = [pc EXCEPT ![self] = "P2"]
            /\ UNCHANGED << sending, dataCnt, workQ, resQ, replQ, stopF, runEv, 
                            stopR, feederOn, feederDone, replOn, replDone, 
                            procs, nextWid, wstate, begun, ended, done, cno, 
                            out, outs, finishedAll, bad, finished, buf, wf, 
                            batch, woken, qn, i, sw, k, mycno, rid, slot, rcno, 
                            item, q >>

P2(self) == /\ pc[self] = "P2"
            /\ IF Full(resQ, ResCap)
                  THEN /\ resLock' = 0
                       /\ pc' = [pc EXCEPT ![self] = "P3"]
                       /\ resQ' = resQ
                  ELSE /\ resQ' = Append(resQ, [k |-> "res", c |-> item[self].c, i |-> item[self].i])
                       /\ resLock' = 0
                       /\ pc' = [pc EXCEPT ![self] = "P4"]
            /\ UNCHANGED << sending, dataCnt, workQ, replQ, stopF, runEv, 
                            stopR, feederOn, feederDone, replOn, replDone, 
                            procs, nextWid, wstate, begun, ended, done, cno, 
                            out, outs, finishedAll, bad, finished, buf, wf, 
                            batch, woken, qn, i, sw, k, mycno, rid, slot, rcno, 
                            item, q >>

P3(self) == /\ pc[self] = "P3"
            /\ ~Full(resQ, ResCap)
            /\ resQ' = Append(resQ, [k |-> "res", c |-> item[self].c, i |-> item[self].i])
            /\ pc' = [pc EXCEPT ![self] = "P4"]
            /\ UNCHANGED << sending, dataCnt, workQ, replQ, resLock, stopF, 
                            runEv, stopR, feederOn, feederDone, replOn, 
                            replDone, procs, nextWid, wstate, begun, ended, 
                            done, cno, out, outs, finishedAll, bad, finished, 
                            buf, wf, batch, woken, qn, i, sw, k, mycno, rid, 
                            slot, rcno, item, q >>

P4(self) == /\ pc[self] = "P4"
            /\ done' = [done EXCEPT ![self] = done[self] + 1]
            /\ IF Quota # 0
                  THEN /\ q' = [q EXCEPT ![self] = q[self] - 1]
                  ELSE /\ TRUE
                       /\ q' = q
            /\ pc' = [pc EXCEPT ![self] = "W1"]
            /\ UNCHANGED << sending, dataCnt, workQ, resQ, replQ, resLock, 
                            stopF, runEv, stopR, feederOn, feederDone, replOn, 
                            replDone, procs, nextWid, wstate, begun, ended, 
                            cno, out, outs, finishedAll, bad, finished, buf, 
                            wf, batch, woken, qn, i, sw, k, mycno, rid, slot, 
                            rcno, item >>

WRetire(self) == /\ pc[self] = "WRetire"
                 /\ IF Quota # 0
                       THEN /\ replQ' = Append(replQ, self)
                       ELSE /\ TRUE
                            /\ replQ' = replQ
                 /\ pc' = [pc EXCEPT ![self] = "WEnd"]
                 /\ UNCHANGED << sending, dataCnt, workQ, resQ, resLock, stopF, 
                                 runEv, stopR, feederOn, feederDone, replOn, 
                                 replDone, procs, nextWid, wstate, begun, 
                                 ended, done, cno, out, outs, finishedAll, bad, 
                                 finished, buf, wf, batch, woken, qn, i, sw, k, 
                                 mycno, rid, slot, rcno, item, q >>

WEnd(self) == /\ pc[self] = "WEnd"
              /\ ended' = [ended EXCEPT ![self] = ended[self] + 1]
              /\ wstate' = [wstate EXCEPT ![self] = "exited"]
              /\ pc' = [pc EXCEPT ![self] = "Done"]
              /\ UNCHANGED << sending, dataCnt, workQ, resQ, replQ, resLock, 
                              stopF, runEv, stopR, feederOn, feederDone, 
                              replOn, replDone, procs, nextWid, begun, done, 
                              cno, out, outs, finishedAll, bad, finished, buf, 
                              wf, batch, woken, qn, i, sw, k, mycno, rid, slot, 
                              rcno, item, q >>

W(self) == W0(self) \/ W1(self) \/ P1(self) \/ P2(self) \/ P3(self)
              \/ P4(self) \/ WRetire(self) \/ WEnd(self)

Next == Main \/ Feeder \/ Repl
           \/ (\E self \in Wids: W(self))

Spec == Init /\ [][Next]_vars

\* END TRANSLATION

NoDeadlock == finishedAll \/ ENABLED Next
AllCallsEnd == <>finishedAll
FairSpec == Spec /\ WF_vars(Main) /\ WF_vars(Feeder) /\ WF_vars(Repl) /\ \A w \in Wids : WF_vars(W(w))
\* worker ids never run out in the bounded model (otherwise the bound, not the design, would be checked)
WidBound == nextWid <= MaxWid + 1
=============================================================================
