---------------------------- MODULE MC_FunctorMap ----------------------------
(* Model-checking wrapper: call sequences are tuples, which a cfg file cannot express. *)
EXTENDS FunctorMap
K2 == <<2>>
K3 == <<3>>
K21 == <<2, 1>>
K032 == <<0, 3, 2>>
K202 == <<2, 0, 2>>
K0 == <<0>>
K22 == <<2, 2>>
=============================================================================
