-------------------------- MODULE ReplayFactoryFunctorPool --------------------------
(* FunctorPool with an observation variable naming the process and label of every step, used to
   - print simulated behaviours as schedules that are replayed into the real code (spec -> code), and
   - validate recorded executions of the real code step by step (code -> spec).                       *)
EXTENDS MC_FactoryFunctorPool, Json, IOUtils
VARIABLES act, tid, l
NextA == \/ Main /\ act' = <<MainId, pc[MainId]>>
         \/ Feeder /\ act' = <<FeederId, pc[FeederId]>>
         \/ Repl /\ act' = <<ReplId, pc[ReplId]>>
         \/ \E w \in Workers : W(w) /\ act' = <<w, pc[w]>>
SpecA == Init /\ act = <<-1, "init">> /\ tid = 0 /\ l = 0 /\ [][NextA /\ UNCHANGED <<tid, l>>]_<<vars, act, tid, l>>
\* simulation: one line per step; a behaviour starts at level 1
EmitStep == PrintT(<<"STEP", TLCGet("level"), act'[1], act'[2], KindOf(act'[2])>>)

\* --- trace validation: Traces[t] is a sequence of [a |-> actor, k |-> kind of the visible operation]
Traces == JsonDeserialize("traces.json")
T == Traces[tid]
TInit == Init /\ act = <<-1, "init">> /\ tid \in 1..Len(Traces) /\ l = 1
TStep == /\ l <= Len(T) /\ l' = l + 1 /\ UNCHANGED tid
         /\ NextA /\ act'[1] = T[l].a /\ KindOf(act'[2]) = T[l].k
TSpec == TInit /\ [][TStep]_<<vars, act, tid, l>>
ASSUME \A tt \in 1..Len(Traces) : TLCSet(tt, 0)
Progress == TLCSet(tid, IF TLCGet(tid) < l THEN l ELSE TLCGet(tid))
Accepted == \A tt \in 1..Len(Traces) : PrintT(<<"RESULT", tt, TLCGet(tt) - 1, Len(Traces[tt])>>)
=============================================================================
