--------------------------- MODULE MC_FunctorPool ---------------------------
EXTENDS FunctorPool
C2 == <<[n |-> 2, ord |-> TRUE]>>
C3 == <<[n |-> 3, ord |-> TRUE]>>
C0 == <<[n |-> 0, ord |-> TRUE]>>
C21 == <<[n |-> 2, ord |-> TRUE], [n |-> 1, ord |-> TRUE]>>
C102u == <<[n |-> 1, ord |-> TRUE], [n |-> 0, ord |-> TRUE], [n |-> 2, ord |-> FALSE]>>
C2u == <<[n |-> 2, ord |-> FALSE]>>
C22 == <<[n |-> 2, ord |-> TRUE], [n |-> 2, ord |-> TRUE]>>
=============================================================================
