------------------------------- MODULE PoolObs -------------------------------
(* Observer specification for the process pools (C01 - C05): the properties stated over API-visible
   events only - calls, yielded values, call end, worker begin / item / end, leaving the context - so
   that it survives any refactoring of the implementation.  A recorded execution of the real code
   (controlled or with real processes) satisfies the properties iff it is a behaviour of this spec.

   `judge` says which clauses are enforced in a scenario family:
     r = results (C01/C03/C05): a call yields exactly f(x) for every element of ITS input, once, in
         order (unordered calls: any order that keeps the order inside each chunk)
     t = termination (C02/C03/C05): a call on a finite input ends, the context can be left
     l = lifecycle (C04): begin once first, end once last, quota kept, none left running,
         until_all_ready only after every begin completed
   An event of a clause that is not enforced is always accepted.
   Values are identified by (call, index of the element in that call's input); the harness uses an
   injective functor and decodes what is yielded (an unknown value decodes to call 0).
   Results: <<>>.                                                                                    *)
EXTENDS Integers, Sequences, FiniteSets, TLC, Json

VARIABLES judge,    \* [r, t, l] -> 0/1
          phase,    \* "init" | "idle" | "call" | "left" | "hung"
          cur,      \* current call: [c, n, chunk, ord]
          got,      \* indices yielded so far in the current call, in order
          ncalls,
          ws,       \* worker id -> [st: "begun" | "ready" | "ended", chunks: set of <<call, chunk no>>, quota]
          fault,    \* 1 once a functor / begin fault was injected (termination is then not required)
          last
vars == <<judge, phase, cur, got, ncalls, ws, fault>>
NoCall == [c |-> 0, n |-> 0, chunk |-> 1, ord |-> 1]
Init == /\ judge = [r |-> 0, t |-> 0, l |-> 0] /\ phase = "init" /\ cur = NoCall /\ got = <<>> /\ ncalls = 0
        /\ ws = <<>> /\ fault = 0 /\ last = [op |-> [op |-> "none"], ret |-> <<>>]
Ret(o) == last' = [op |-> o, ret |-> <<>>]
Known == DOMAIN ws
Elems(s) == {s[i] : i \in DOMAIN s}
J(x) == judge[x] = 1

Cfg(o) == /\ phase = "init" /\ phase' = "idle" /\ judge' = [r |-> o.r, t |-> o.t, l |-> o.l]
          /\ UNCHANGED <<cur, got, ncalls, ws, fault>> /\ Ret(o)

CallBegin(o) == /\ phase = "idle" /\ phase' = "call" /\ ncalls' = ncalls + 1
                /\ cur' = [c |-> o.c, n |-> o.n, chunk |-> o.chunk, ord |-> o.ord] /\ got' = <<>>
                /\ UNCHANGED <<judge, ws, fault>> /\ Ret(o)

\* the consumer received the value of element o.i of call o.c
YieldOK(o) == /\ o.c = cur.c                                   \* nothing from another call, nothing invented
              /\ o.i >= 0 /\ o.i < cur.n
              /\ o.i \notin Elems(got)                         \* once
              /\ IF cur.ord = 1 THEN o.i = Len(got)            \* input order
                 ELSE \A j \in 0..(o.i - 1) : (j \div cur.chunk = o.i \div cur.chunk) => j \in Elems(got)
Yield(o) == /\ phase = "call" /\ (J("r") => YieldOK(o))
            /\ got' = Append(got, o.i) /\ UNCHANGED <<judge, phase, cur, ncalls, ws, fault>> /\ Ret(o)

\* the generator ended: everything was delivered
CallEnd(o) == /\ phase = "call" /\ phase' = "idle"
              /\ (J("r") => Elems(got) = 0..(cur.n - 1) /\ Len(got) = cur.n)
              /\ UNCHANGED <<judge, cur, got, ncalls, ws, fault>> /\ Ret(o)

\* the consumer stopped early and closed the generator after o.got results (growth beyond the listed properties, which speak
\* of fully consumed calls): what it received so far was judged by Yield; nothing of this call may reach a later call
Abandon(o) == /\ phase = "call" /\ phase' = "idle"
              /\ (J("r") => o.got = Len(got) /\ o.c = cur.c)
              /\ UNCHANGED <<judge, cur, got, ncalls, ws, fault>> /\ Ret(o)

\* the execution stopped with the consumer (or the exit of the context) blocked for ever
Hang(o) == /\ phase \in {"idle", "call"} /\ phase' = "hung"
           /\ (J("t") => fault = 1)
           /\ UNCHANGED <<judge, cur, got, ncalls, ws, fault>> /\ Ret(o)

Fault(o) == /\ fault' = 1 /\ UNCHANGED <<judge, phase, cur, got, ncalls, ws>> /\ Ret(o)

NewW(q) == [st |-> "begun", chunks |-> {}, quota |-> q]
SetW(w, r) == [x \in Known \cup {w} |-> IF x = w THEN r ELSE ws[x]]
\* begin() entered in worker o.w (quota 0 = unlimited)
WBegin(o) == /\ (J("l") => o.w \notin Known)                                        \* begin at most once
             /\ ws' = SetW(o.w, NewW(o.q)) /\ UNCHANGED <<judge, phase, cur, got, ncalls, fault>> /\ Ret(o)
\* begin() returned
WReady(o) == /\ (J("l") => o.w \in Known /\ ws[o.w].st = "begun")
             /\ ws' = (IF o.w \in Known THEN SetW(o.w, [ws[o.w] EXCEPT !.st = "ready"]) ELSE SetW(o.w, [NewW(0) EXCEPT !.st = "ready"]))
             /\ UNCHANGED <<judge, phase, cur, got, ncalls, fault>> /\ Ret(o)
\* the functor is applied to element o.i of call o.c
WItem(o) == /\ (J("l") => /\ o.w \in Known /\ ws[o.w].st = "ready"                   \* only after begin completed, before end
                          /\ LET cs == ws[o.w].chunks \cup {<<o.c, o.i \div o.chunk>>}
                             IN ws[o.w].quota = 0 \/ Cardinality(cs) <= ws[o.w].quota)  \* at most quota chunks
            /\ ws' = (IF o.w \in Known THEN SetW(o.w, [ws[o.w] EXCEPT !.chunks = @ \cup {<<o.c, o.i \div o.chunk>>}]) ELSE ws)
            /\ UNCHANGED <<judge, phase, cur, got, ncalls, fault>> /\ Ret(o)
\* end() entered
WEnd(o) == /\ (J("l") => o.w \in Known /\ ws[o.w].st \in {"begun", "ready"})        \* once, after begin started
           /\ ws' = (IF o.w \in Known THEN SetW(o.w, [ws[o.w] EXCEPT !.st = "ended"]) ELSE SetW(o.w, [NewW(0) EXCEPT !.st = "ended"]))
           /\ UNCHANGED <<judge, phase, cur, got, ncalls, fault>> /\ Ret(o)
\* until_all_ready() returned; o.ws = the workers in the pool's slots at that moment
AllReady(o) == /\ (J("l") => \A i \in DOMAIN o.ws : o.ws[i] \in Known /\ ws[o.ws[i]].st \in {"ready", "ended"})
               /\ UNCHANGED vars /\ Ret(o)
\* the context was left; o.alive = number of worker processes still running
Exit(o) == /\ phase = "idle" /\ phase' = "left"
           /\ (J("l") => o.alive = 0 /\ \A w \in Known : ws[w].st = "ended")
           /\ UNCHANGED <<judge, cur, got, ncalls, ws, fault>> /\ Ret(o)

Apply(o) ==
    \/ o.op = "cfg" /\ Cfg(o)
    \/ o.op = "call_begin" /\ CallBegin(o)
    \/ o.op = "yield" /\ Yield(o)
    \/ o.op = "call_end" /\ CallEnd(o)
    \/ o.op = "abandon" /\ Abandon(o)
    \/ o.op = "hang" /\ Hang(o)
    \/ o.op = "fault" /\ Fault(o)
    \/ o.op = "wbegin" /\ WBegin(o)
    \/ o.op = "wready" /\ WReady(o)
    \/ o.op = "witem" /\ WItem(o)
    \/ o.op = "wend" /\ WEnd(o)
    \/ o.op = "all_ready" /\ AllReady(o)
    \/ o.op = "exit" /\ Exit(o)

\* a small closed model of the observer itself: used to check that the clauses can be violated
\* (negative control) and are not vacuous
CONSTANTS MaxN, MaxWorkers
Next ==
    \/ \E r, t, l \in {0, 1} : Apply([op |-> "cfg", r |-> r, t |-> t, l |-> l])
    \/ \E n \in 0..MaxN, ch \in 1..2, od \in {0, 1} : ncalls < 2 /\ Apply([op |-> "call_begin", c |-> ncalls + 1, n |-> n, chunk |-> ch, ord |-> od])
    \/ \E c \in 0..2, i \in 0..MaxN : Len(got) <= MaxN /\ Apply([op |-> "yield", c |-> c, i |-> i])
    \/ Apply([op |-> "call_end"]) \/ Apply([op |-> "hang"]) \/ Apply([op |-> "abandon", c |-> cur.c, got |-> Len(got)]) \/ Apply([op |-> "fault"])
    \/ \E w \in 1..MaxWorkers : \/ Apply([op |-> "wbegin", w |-> w, q |-> 1]) \/ Apply([op |-> "wready", w |-> w])
                                \/ Apply([op |-> "wend", w |-> w])
                                \/ \E i \in 0..MaxN : Apply([op |-> "witem", w |-> w, c |-> 1, i |-> i, chunk |-> 1])
    \/ \E a \in {0, 1} : Apply([op |-> "exit", alive |-> a])
Spec == Init /\ [][Next]_<<vars, last>>

\* what the clauses mean, stated once more as invariants over the observer's state
ResultsOK == J("r") /\ phase = "call" => /\ \A i, j \in DOMAIN got : i # j => got[i] # got[j]
                                         /\ (cur.ord = 1 => \A i \in DOMAIN got : got[i] = i - 1)
NeverHungUnlessFault == J("t") /\ phase = "hung" => fault = 1
QuotaKept == J("l") => \A w \in Known : ws[w].quota = 0 \/ Cardinality(ws[w].chunks) <= ws[w].quota
LeftClean == J("l") /\ phase = "left" => \A w \in Known : ws[w].st = "ended"
\* negative control: this "invariant" must fail (a hang is reachable when termination is not judged)
NeverHung == phase # "hung"

Obs == [phase |-> phase, calls |-> ncalls, got |-> Len(got)]
Hid == 0
View == vars
=============================================================================
