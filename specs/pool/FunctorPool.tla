----------------------------- MODULE FunctorPool -----------------------------
(* Implementation-level model of FunctorPool (windpyutils/parallel/own_proc_pools.py) for C01, C02 and the
   multi-call part of C03: the consumer (imap / imap_unordered in the caller's thread), the feeding thread
   (SendWorkThread, one per call) and the worker processes, with the three shared flags/counters, the work
   and result queues, the result-queue lock and the stop / run events.

   EVERY LABEL IS EXACTLY ONE VISIBLE OPERATION of the real code as the controlled execution (simworld)
   sees it - a queue / lock / event operation, a thread or process start / join / exitcode, one read or
   write of a shared pool attribute, one step over the worker slot table.  Local computation up to the next
   visible operation belongs to the same label.  This is what lets a behaviour of this model be replayed as
   a schedule of the real code and a recorded execution be validated against the model (KindOf below).

   Chunks are tagged <<call, index>> so that loss, duplication, reordering and leakage between calls are
   all distinguishable.  Design = "fixed" is the repaired code (flags initialised before the thread starts,
   wake-up token after the flag is cleared); Design = "pinned" is the pinned commit (flags set by the
   thread itself, no wake-up token) and serves as the negative control.                                    *)
EXTENDS Integers, Sequences, FiniteSets, TLC

CONSTANTS Calls,       \* sequence of [n |-> number of chunks, ord |-> BOOLEAN]
          NW,          \* number of workers
          WorkCap,     \* capacity of the work queue, 0 = unbounded
          ResCap,      \* capacity of the results queue (also the flow-control threshold), 0 = unbounded
          Design       \* "fixed" | "pinned"

Workers == 1..NW
MainId == 0
FeederId == 100
NoneTok == [k |-> "none", c |-> 0, i |-> 0]
WakeTok == [k |-> "wake", c |-> 0, i |-> 0]
Full(q, cap) == cap # 0 /\ Len(q) >= cap
Fixed == Design = "fixed"

\* the consumer's local processing of result chunks: reorder buffer for ordered calls, pass-through otherwise
RECURSIVE DrainR(_)
DrainR(st) == IF \E r \in st.buf : r.i = st.wf
              THEN LET r == CHOOSE x \in st.buf : x.i = st.wf
                   IN DrainR([st EXCEPT !.buf = @ \ {r}, !.wf = @ + 1, !.out = Append(@, <<r.c, r.i>>), !.fin = @ + 1])
              ELSE st
RECURSIVE Consume(_, _, _)
Consume(b, st, ord) ==
    IF b = <<>> THEN st
    ELSE IF ord THEN (IF Head(b).i < st.wf THEN Consume(Tail(b), [st EXCEPT !.bad = TRUE], ord)
                      ELSE Consume(Tail(b), DrainR([st EXCEPT !.buf = @ \cup {Head(b)}]), ord))
    ELSE Consume(Tail(b), [st EXCEPT !.out = Append(@, <<Head(b).c, Head(b).i>>), !.fin = @ + 1], ord)

(* --algorithm FunctorPool {
variables
  sending = FALSE, dataCnt = 0,              \* pool._sending_work, pool._data_cnt
  workQ = <<>>, resQ = <<>>,
  resLock = -1,                              \* -1 free, otherwise the holder
  stopEv = FALSE, runEv = FALSE,             \* the current feeding thread's stop_event / run_event
  feederOn = FALSE, feederDone = FALSE, fcall = 0,
  wstate = [w \in Workers |-> "new"],        \* new -> started -> exited
  cno = 1, out = <<>>, outs = <<>>,          \* out: tags yielded in the current call; outs: per finished call
  bad = FALSE, finishedAll = FALSE;

define {
  ResMax == IF ResCap = 0 THEN 1000000 ELSE ResCap
  Expected(c) == [j \in 1..Calls[c].n |-> <<c, j - 1>>]
  SameBag(s, t) == Len(s) = Len(t) /\ \A x \in {s[j] : j \in DOMAIN s} \cup {t[j] : j \in DOMAIN t} :
                      Cardinality({j \in DOMAIN s : s[j] = x}) = Cardinality({j \in DOMAIN t : t[j] = x})
  \* C01: every finished call yielded exactly its own chunks, in order when ordered
  CallOK == \A c \in DOMAIN outs : IF Calls[c].ord THEN outs[c] = Expected(c) ELSE SameBag(outs[c], Expected(c))
  NoBad == ~bad                                \* the reorder buffer never refuses a chunk
  \* nothing of a finished call is left behind for the next one
  NoLeftovers == finishedAll => \A j \in DOMAIN resQ : resQ[j].k = "wake"
}
macro ProcessBatch(b) {
  \* local computation (no visible operation): feed the batch to the reorder buffer and yield what is in order
  with (st = Consume(b, [buf |-> buf, wf |-> wf, out |-> out, fin |-> finished, bad |-> bad], Calls[cno].ord)) {
    buf := st.buf; wf := st.wf; out := st.out; finished := st.fin; bad := st.bad;
  };
  batch := <<>>;
}

\* ------------------------------------------------------------------------------- consumer (caller's thread)
process (Main = MainId)
variables finished = 0, buf = {}, wf = 0, batch = <<>>, woken = FALSE, qn = 0, i = 1, sw = FALSE, dc = 0, rs = FALSE;
{
 EIter:                                                        \* slots.iter (for p in self.procs)
  if (i <= NW) {
 EStart: wstate[i] := "started"; i := i + 1; goto EIter;       \* start P
  } else if (cno > Len(Calls)) { i := 1; goto XPut; };
 CRunSet:                                                      \* ev.set (CMThread.__init__: run_event.set())
    finished := 0; buf := {}; wf := 0; out := <<>>;
    runEv := TRUE; stopEv := FALSE;
    if (~Fixed) { goto CStart; };
 CWrS:  sending := TRUE;                                       \* wr _sending_work
 CWrD:  dataCnt := 0;                                          \* wr _data_cnt
 CStart: feederOn := TRUE; feederDone := FALSE; fcall := cno;  \* start T
 LRdS:  sw := sending;                                         \* rd _sending_work
    if (~sw) {
 LRdD:   dc := dataCnt;                                        \* rd _data_cnt
      if (finished >= dc) { goto CStop; };
    };
 GSize: qn := Len(resQ); batch := <<>>; woken := FALSE;         \* q.qsize
    if (qn > 0) {
 GAcq:   await resLock = -1; resLock := MainId;                \* lock.acq
 GSize2: qn := Len(resQ);                                       \* q.qsize
      if (qn > 0) {
 GGetNB:                                                       \* q.get_nb
        if (resQ # <<>>) {
          if (Head(resQ).k = "wake") { woken := TRUE; } else { batch := Append(batch, Head(resQ)); };
          resQ := Tail(resQ);
          goto GSize2;
        };
      };
 GRel:   resLock := -1;                                        \* lock.rel
      if (batch # <<>> \/ woken) {
        ProcessBatch(batch);
        \* ordered calls: flow control on the run event (the decision is local)
        if (~Calls[cno].ord) { goto LRdS; } else if (Cardinality(buf) >= ResMax) { goto FClear; } else { goto FIsSet; };
      };
    };
 GGet:  await resQ # <<>>;                                     \* q.get
    ProcessBatch(IF Head(resQ).k # "wake" THEN <<Head(resQ)>> ELSE <<>>);
    resQ := Tail(resQ);
    if (~Calls[cno].ord) { goto LRdS; } else if (Cardinality(buf) >= ResMax) { goto FClear; } else { goto FIsSet; };
 FClear: runEv := FALSE; goto LRdS;                            \* ev.clear
 FIsSet: rs := runEv;                                          \* ev.is_set
    if (rs) { goto LRdS; };
 FSet:   runEv := TRUE; goto LRdS;                             \* ev.set
 CStop: stopEv := TRUE;                                        \* ev.set (stop_event)
 CJoin: await feederDone; feederOn := FALSE;                   \* join T
    outs := Append(outs, out); cno := cno + 1;
    if (cno <= Len(Calls)) { goto CRunSet; } else { i := 1; };
 XPut:                                                         \* q.put (one None per slot)
    await ~Full(workQ, WorkCap);
    workQ := Append(workQ, NoneTok);
    if (i < NW) { i := i + 1; goto XPut; } else { i := 1; };
 XIter:                                                        \* slots.iter
  if (i <= NW) {
 XCode:  if (wstate[i] = "exited") { i := i + 1; goto XIter; }; \* exitcode
 XJoin:  await wstate[i] = "exited";                           \* join P
 XCode2: i := i + 1; goto XIter;                               \* exitcode (the "not joined" warning test)
  } else { finishedAll := TRUE; };
}

\* ------------------------------------------------------------------------------- SendWorkThread (one activation per call)
process (Feeder = FeederId)
variables k = 0, mycall = 0, t = 0, s = FALSE;
{
 FWait:                                                        \* the thread starts running (up to its first operation)
    await feederOn /\ ~feederDone /\ mycall < fcall; mycall := fcall; k := 0;
    if (Fixed) { if (Calls[mycall].n = 0) { goto FWrS; } else { goto FPut; }; };
 PWrS:  sending := TRUE;                                       \* wr _sending_work   (pinned design only)
 PWrD:  dataCnt := 0;                                          \* wr _data_cnt
    if (Calls[mycall].n = 0) { goto FWrS; };
 FPut:  await ~Full(workQ, WorkCap);                           \* q.put
    workQ := Append(workQ, [k |-> "work", c |-> mycall, i |-> k]);
 FRdD:  t := dataCnt;                                          \* rd _data_cnt
 FWrD:  dataCnt := t + 1; k := k + 1;                          \* wr _data_cnt
 FStop: s := stopEv;                                           \* ev.is_set (stop_event)
    if (s) { goto FWrS; };
 FRun:  await runEv;                                           \* ev.wait (run_event)
    if (k < Calls[mycall].n) { goto FPut; };
 FWrS:  sending := FALSE;                                      \* wr _sending_work
    if (~Fixed) { feederDone := TRUE; goto FWait; };
 FWake: if (~Full(resQ, ResCap)) { resQ := Append(resQ, WakeTok); };   \* q.put_nb
    feederDone := TRUE; goto FWait;
}

\* ------------------------------------------------------------------------------- worker processes
process (W \in Workers)
variables item = NoneTok;
{
 WStart: await wstate[self] = "started";                       \* the process starts running
 WClear: skip;                                                 \* ev.clear (begin_finished)
 WSet:   skip;                                                 \* ev.set   (begin() returned)
 WGet:   await workQ # <<>>;                                   \* q.get
         item := Head(workQ); workQ := Tail(workQ);
         if (item.k = "none") { wstate[self] := "exited"; goto Done; };
 WAcq:   await resLock = -1; resLock := self;                  \* lock.acq
 WPutNB: if (~Full(resQ, ResCap)) {                            \* q.put_nb
           resQ := Append(resQ, [k |-> "res", c |-> item.c, i |-> item.i]);
         } else { goto WRelF; };
 WRel:   resLock := -1; goto WGet;                             \* lock.rel
 WRelF:  resLock := -1;                                        \* lock.rel (leaving the with-block by queue.Full)
 WPut:   await ~Full(resQ, ResCap);                            \* q.put
         resQ := Append(resQ, [k |-> "res", c |-> item.c, i |-> item.i]);
         goto WGet;
}
} *)
\* BEGIN TRANSLATION
VARIABLES pc, sending, dataCnt, workQ, resQ, resLock, stopEv, runEv, feederOn, 
          feederDone, fcall, wstate, cno, out, outs, bad, finishedAll

(* define statement *)
ResMax == IF ResCap = 0 THEN 1000000 ELSE ResCap
Expected(c) == [j \in 1..Calls[c].n |-> <<c, j - 1>>]
SameBag(s, t) == Len(s) = Len(t) /\ \A x \in {s[j] : j \in DOMAIN s} \cup {t[j] : j \in DOMAIN t} :
                    Cardinality({j \in DOMAIN s : s[j] = x}) = Cardinality({j \in DOMAIN t : t[j] = x})

CallOK == \A c \in DOMAIN outs : IF Calls[c].ord THEN outs[c] = Expected(c) ELSE SameBag(outs[c], Expected(c))
NoBad == ~bad

NoLeftovers == finishedAll => \A j \in DOMAIN resQ : resQ[j].k = "wake"

VARIABLES finished, buf, wf, batch, woken, qn, i, sw, dc, rs, k, mycall, t, s, 
          item

vars == << pc, sending, dataCnt, workQ, resQ, resLock, stopEv, runEv, 
           feederOn, feederDone, fcall, wstate, cno, out, outs, bad, 
           finishedAll, finished, buf, wf, batch, woken, qn, i, sw, dc, rs, k, 
           mycall, t, s, item >>

ProcSet == {MainId} \cup {FeederId} \cup (Workers)

Init == (* Global variables *)
        /\ sending = FALSE
        /\ dataCnt = 0
        /\ workQ = <<>>
        /\ resQ = <<>>
        /\ resLock = -1
        /\ stopEv = FALSE
        /\ runEv = FALSE
        /\ feederOn = FALSE
        /\ feederDone = FALSE
        /\ fcall = 0
        /\ wstate = [w \in Workers |-> "new"]
        /\ cno = 1
        /\ out = <<>>
        /\ outs = <<>>
        /\ bad = FALSE
        /\ finishedAll = FALSE
        (* Process Main *)
        /\ finished = 0
        /\ buf = {}
        /\ wf = 0
        /\ batch = <<>>
        /\ woken = FALSE
        /\ qn = 0
        /\ i = 1
        /\ sw = FALSE
        /\ dc = 0
        /\ rs = FALSE
        (* Process Feeder *)
        /\ k = 0
        /\ mycall = 0
        /\ t = 0
        /\ s = FALSE
        (* Process W *)
        /\ item = [self \in Workers |-> NoneTok]
        /\ pc = [self \in ProcSet |-> CASE self = MainId -> "EIter"
                                        [] self = FeederId -> "FWait"
                                        [] self \in Workers -> "WStart"]

EIter == /\ pc[MainId] = "EIter"
         /\ IF i <= NW
               THEN /\ pc' = [pc EXCEPT ![MainId] = "EStart"]
                    /\ i' = i
               ELSE /\ IF cno > Len(Calls)
                          THEN /\ i' = 1
                               /\ pc' = [pc EXCEPT ![MainId] = "XPut"]
                          ELSE /\ pc' = [pc EXCEPT ![MainId] = "CRunSet"]
                               /\ i' = i
         /\ UNCHANGED << sending, dataCnt, workQ, resQ, resLock, stopEv, runEv, 
                         feederOn, feederDone, fcall, wstate, cno, out, outs, 
                         bad, finishedAll, finished, buf, wf, batch, woken, qn, 
                         sw, dc, rs, k, mycall, t, s, item >>

EStart == /\ pc[MainId] = "EStart"
          /\ wstate' = [wstate EXCEPT ![i] = "started"]
          /\ i' = i + 1
          /\ pc' = [pc EXCEPT ![MainId] = "EIter"]
          /\ UNCHANGED << sending, dataCnt, workQ, resQ, resLock, stopEv, 
                          runEv, feederOn, feederDone, fcall, cno, out, outs, 
                          bad, finishedAll, finished, buf, wf, batch, woken, 
                          qn, sw, dc, rs, k, mycall, t, s, item >>

CRunSet == /\ pc[MainId] = "CRunSet"
           /\ finished' = 0
           /\ buf' = {}
           /\ wf' = 0
           /\ out' = <<>>
           /\ runEv' = TRUE
           /\ stopEv' = FALSE
           /\ IF ~Fixed
                 THEN /\ pc' = [pc EXCEPT ![MainId] = "CStart"]
                 ELSE /\ pc' = [pc EXCEPT ![MainId] = "CWrS"]
           /\ UNCHANGED << sending, dataCnt, workQ, resQ, resLock, feederOn, 
                           feederDone, fcall, wstate, cno, outs, bad, 
                           finishedAll, batch, woken, qn, i, sw, dc, rs, k, 
                           mycall, t, s, item >>

CWrS == /\ pc[MainId] = "CWrS"
        /\ sending' = TRUE
        /\ pc' = [pc EXCEPT ![MainId] = "CWrD"]
        /\ UNCHANGED << dataCnt, workQ, resQ, resLock, stopEv, runEv, feederOn, 
                        feederDone, fcall, wstate, cno, out, outs, bad, 
                        finishedAll, finished, buf, wf, batch, woken, qn, i, 
                        sw, dc, rs, k, mycall, t, s, item >>

CWrD == /\ pc[MainId] = "CWrD"
        /\ dataCnt' = 0
        /\ pc' = [pc EXCEPT ![MainId] = "CStart"]
        /\ UNCHANGED << sending, workQ, resQ, resLock, stopEv, runEv, feederOn, 
                        feederDone, fcall, wstate, cno, out, outs, bad, 
                        finishedAll, finished, buf, wf, batch, woken, qn, i, 
                        sw, dc, rs, k, mycall, t, s, item >>

CStart == /\ pc[MainId] = "CStart"
          /\ feederOn' = TRUE
          /\ feederDone' = FALSE
          /\ fcall' = cno
          /\ pc' = [pc EXCEPT ![MainId] = "LRdS"]
          /\ UNCHANGED << sending, dataCnt, workQ, resQ, resLock, stopEv, 
                          runEv, wstate, cno, out, outs, bad, finishedAll, 
                          finished, buf, wf, batch, woken, qn, i, sw, dc, rs, 
                          k, mycall, t, s, item >>

LRdS == /\ pc[MainId] = "LRdS"
        /\ sw' = sending
        /\ IF ~sw'
              THEN /\ pc' = [pc EXCEPT ![MainId] = "LRdD"]
              ELSE /\ pc' = [pc EXCEPT ![MainId] = "GSize"]
        /\ UNCHANGED << sending, dataCnt, workQ, resQ, resLock, stopEv, runEv, 
                        feederOn, feederDone, fcall, wstate, cno, out, outs, 
                        bad, finishedAll, finished, buf, wf, batch, woken, qn, 
                        i, dc, rs, k, mycall, t, s, item >>

LRdD == /\ pc[MainId] = "LRdD"
        /\ dc' = dataCnt
        /\ IF finished >= dc'
              THEN /\ pc' = [pc EXCEPT ![MainId] = "CStop"]
              ELSE /\ pc' = [pc EXCEPT ![MainId] = "GSize"]
        /\ UNCHANGED << sending, dataCnt, workQ, resQ, resLock, stopEv, runEv, 
                        feederOn, feederDone, fcall, wstate, cno, out, outs, 
                        bad, finishedAll, finished, buf, wf, batch, woken, qn, 
                        i, sw, rs, k, mycall, t, s, item >>

GSize == /\ pc[MainId] = "GSize"
         /\ qn' = Len(resQ)
         /\ batch' = <<>>
         /\ woken' = FALSE
         /\ IF qn' > 0
               THEN /\ pc' = [pc EXCEPT ![MainId] = "GAcq"]
               ELSE /\ pc' = [pc EXCEPT ![MainId] = "GGet"]
         /\ UNCHANGED << sending, dataCnt, workQ, resQ, resLock, stopEv, runEv, 
                         feederOn, feederDone, fcall, wstate, cno, out, outs, 
                         bad, finishedAll, finished, buf, wf, i, sw, dc, rs, k, 
                         mycall, t, s, item >>

GAcq == /\ pc[MainId] = "GAcq"
        /\ resLock = -1
        /\ resLock' = MainId
        /\ pc' = [pc EXCEPT ![MainId] = "GSize2"]
        /\ UNCHANGED << sending, dataCnt, workQ, resQ, stopEv, runEv, feederOn, 
                        feederDone, fcall, wstate, cno, out, outs, bad, 
                        finishedAll, finished, buf, wf, batch, woken, qn, i, 
                        sw, dc, rs, k, mycall, t, s, item >>

GSize2 == /\ pc[MainId] = "GSize2"
          /\ qn' = Len(resQ)
          /\ IF qn' > 0
                THEN /\ pc' = [pc EXCEPT ![MainId] = "GGetNB"]
                ELSE /\ pc' = [pc EXCEPT ![MainId] = "GRel"]
          /\ UNCHANGED << sending, dataCnt, workQ, resQ, resLock, stopEv, 
                          runEv, feederOn, feederDone, fcall, wstate, cno, out, 
                          outs, bad, finishedAll, finished, buf, wf, batch, 
                          woken, i, sw, dc, rs, k, mycall, t, s, item >>

GGetNB == /\ pc[MainId] = "GGetNB"
          /\ IF resQ # <<>>
                THEN /\ IF Head(resQ).k = "wake"
                           THEN /\ woken' = TRUE
                                /\ batch' = batch
                           ELSE /\ batch' = Append(batch, Head(resQ))
                                /\ woken' = woken
                     /\ resQ' = Tail(resQ)
                     /\ pc' = [pc EXCEPT ![MainId] = "GSize2"]
                ELSE /\ pc' = [pc EXCEPT ![MainId] = "GRel"]
                     /\ UNCHANGED << resQ, batch, woken >>
          /\ UNCHANGED << sending, dataCnt, workQ, resLock, stopEv, runEv, 
                          feederOn, feederDone, fcall, wstate, cno, out, outs, 
                          bad, finishedAll, finished, buf, wf, qn, i, sw, dc, 
                          rs, k, mycall, t, s, item >>

GRel == /\ pc[MainId] = "GRel"
        /\ resLock' = -1
        /\ IF batch # <<>> \/ woken
              THEN /\ LET st == Consume(batch, [buf |-> buf, wf |-> wf, out |-> out, fin |-> finished, bad |-> bad], Calls[cno].ord) IN
                        /\ buf' = st.buf
                        /\ wf' = st.wf
                        /\ out' = st.out
                        /\ finished' = st.fin
                        /\ bad' = st.bad
                   /\ batch' = <<>>
                   /\ IF ~Calls[cno].ord
                         THEN /\ pc' = [pc EXCEPT ![MainId] = "LRdS"]
                         ELSE /\ IF Cardinality(buf') >= ResMax
                                    THEN /\ pc' = [pc EXCEPT ![MainId] = "FClear"]
                                    ELSE /\ pc' = [pc EXCEPT ![MainId] = "FIsSet"]
              ELSE /\ pc' = [pc EXCEPT ![MainId] = "GGet"]
                   /\ UNCHANGED << out, bad, finished, buf, wf, batch >>
        /\ UNCHANGED << sending, dataCnt, workQ, resQ, stopEv, runEv, feederOn, 
                        feederDone, fcall, wstate, cno, outs, finishedAll, 
                        woken, qn, i, sw, dc, rs, k, mycall, t, s, item >>

GGet == /\ pc[MainId] = "GGet"
        /\ resQ # <<>>
        /\ LET st == Consume((IF Head(resQ).k # "wake" THEN <<Head(resQ)>> ELSE <<>>), [buf |-> buf, wf |-> wf, out |-> out, fin |-> finished, bad |-> bad], Calls[cno].ord) IN
             /\ buf' = st.buf
             /\ wf' = st.wf
             /\ out' = st.out
             /\ finished' = st.fin
             /\ bad' = st.bad
        /\ batch' = <<>>
        /\ resQ' = Tail(resQ)
        /\ IF ~Calls[cno].ord
              THEN /\ pc' = [pc EXCEPT ![MainId] = "LRdS"]
              ELSE /\ IF Cardinality(buf') >= ResMax
                         THEN /\ pc' = [pc EXCEPT ![MainId] = "FClear"]
                         ELSE /\ pc' = [pc EXCEPT ![MainId] = "FIsSet"]
        /\ UNCHANGED << sending, dataCnt, workQ, resLock, stopEv, runEv, 
                        feederOn, feederDone, fcall, wstate, cno, outs, 
                        finishedAll, woken, qn, i, sw, dc, rs, k, mycall, t, s, 
                        item >>

FClear == /\ pc[MainId] = "FClear"
          /\ runEv' = FALSE
          /\ pc' = [pc EXCEPT ![MainId] = "LRdS"]
          /\ UNCHANGED << sending, dataCnt, workQ, resQ, resLock, stopEv, 
                          feederOn, feederDone, fcall, wstate, cno, out, outs, 
                          bad, finishedAll, finished, buf, wf, batch, woken, 
                          qn, i, sw, dc, rs, k, mycall, t, s, item >>

FIsSet == /\ pc[MainId] = "FIsSet"
          /\ rs' = runEv
          /\ IF rs'
                THEN /\ pc' = [pc EXCEPT ![MainId] = "LRdS"]
                ELSE /\ pc' = [pc EXCEPT ![MainId] = "FSet"]
          /\ UNCHANGED << sending, dataCnt, workQ, resQ, resLock, stopEv, 
                          runEv, feederOn, feederDone, fcall, wstate, cno, out, 
                          outs, bad, finishedAll, finished, buf, wf, batch, 
                          woken, qn, i, sw, dc, k, mycall, t, s, item >>

FSet == /\ pc[MainId] = "FSet"
        /\ runEv' = TRUE
        /\ pc' = [pc EXCEPT ![MainId] = "LRdS"]
        /\ UNCHANGED << sending, dataCnt, workQ, resQ, resLock, stopEv, 
                        feederOn, feederDone, fcall, wstate, cno, out, outs, 
                        bad, finishedAll, finished, buf, wf, batch, woken, qn, 
                        i, sw, dc, rs, k, mycall, t, s, item >>

CStop == /\ pc[MainId] = "CStop"
         /\ stopEv' = TRUE
         /\ pc' = [pc EXCEPT ![MainId] = "CJoin"]
         /\ UNCHANGED << sending, dataCnt, workQ, resQ, resLock, runEv, 
                         feederOn, feederDone, fcall, wstate, cno, out, outs, 
                         bad, finishedAll, finished, buf, wf, batch, woken, qn, 
                         i, sw, dc, rs, k, mycall, t, s, item >>

CJoin == /\ pc[MainId] = "CJoin"
         /\ feederDone
         /\ feederOn' = FALSE
         /\ outs' = Append(outs, out)
         /\ cno' = cno + 1
         /\ IF cno' <= Len(Calls)
               THEN /\ pc' = [pc EXCEPT ![MainId] = "CRunSet"]
                    /\ i' = i
               ELSE /\ i' = 1
                    /\ pc' = [pc EXCEPT ![MainId] = "XPut"]
         /\ UNCHANGED << sending, dataCnt, workQ, resQ, resLock, stopEv, runEv, 
                         feederDone, fcall, wstate, out, bad, finishedAll, 
                         finished, buf, wf, batch, woken, qn, sw, dc, rs, k, 
                         mycall, t, s, item >>

XPut == /\ pc[MainId] = "XPut"
        /\ ~Full(workQ, WorkCap)
        /\ workQ' = Append(workQ, NoneTok)
        /\ IF i < NW
              THEN /\ i' = i + 1
                   /\ pc' = [pc EXCEPT ![MainId] = "XPut"]
              ELSE /\ i' = 1
                   /\ pc' = [pc EXCEPT ![MainId] = "XIter"]
        /\ UNCHANGED << sending, dataCnt, resQ, resLock, stopEv, runEv, 
                        feederOn, feederDone, fcall, wstate, cno, out, outs, 
                        bad, finishedAll, finished, buf, wf, batch, woken, qn, 
                        sw, dc, rs, k, mycall, t, s, item >>

XIter == /\ pc[MainId] = "XIter"
         /\ IF i <= NW
               THEN /\ pc' = [pc EXCEPT ![MainId] = "XCode"]
                    /\ UNCHANGED finishedAll
               ELSE /\ finishedAll' = TRUE
                    /\ pc' = [pc EXCEPT ![MainId] = "Done"]
         /\ UNCHANGED << sending, dataCnt, workQ, resQ, resLock, stopEv, runEv, 
                         feederOn, feederDone, fcall, wstate, cno, out, outs, 
                         bad, finished, buf, wf, batch, woken, qn, i, sw, dc, 
                         rs, k, mycall, t, s, item >>

XCode == /\ pc[MainId] = "XCode"
         /\ IF wstate[i] = "exited"
               THEN /\ i' = i + 1
                    /\ pc' = [pc EXCEPT ![MainId] = "XIter"]
               ELSE /\ pc' = [pc EXCEPT ![MainId] = "XJoin"]
                    /\ i' = i
         /\ UNCHANGED << sending, dataCnt, workQ, resQ, resLock, stopEv, runEv, 
                         feederOn, feederDone, fcall, wstate, cno, out, outs, 
                         bad, finishedAll, finished, buf, wf, batch, woken, qn, 
                         sw, dc, rs, k, mycall, t, s, item >>

XJoin == /\ pc[MainId] = "XJoin"
         /\ wstate[i] = "exited"
         /\ pc' = [pc EXCEPT ![MainId] = "XCode2"]
         /\ UNCHANGED << sending, dataCnt, workQ, resQ, resLock, stopEv, runEv, 
                         feederOn, feederDone, fcall, wstate, cno, out, outs, 
                         bad, finishedAll, finished, buf, wf, batch, woken, qn, 
                         i, sw, dc, rs, k, mycall, t, s, item >>

XCode2 == /\ pc[MainId] = "XCode2"
          /\ i' = i + 1
          /\ pc' = [pc EXCEPT ![MainId] = "XIter"]
          /\ UNCHANGED << sending, dataCnt, workQ, resQ, resLock, stopEv, 
                          runEv, feederOn, feederDone, fcall, wstate, cno, out, 
                          outs, bad, finishedAll, finished, buf, wf, batch, 
                          woken, qn, sw, dc, rs, k, mycall, t, s, item >>

Main == EIter \/ EStart \/ CRunSet \/ CWrS \/ CWrD \/ CStart \/ LRdS
           \/ LRdD \/ GSize \/ GAcq \/ GSize2 \/ GGetNB \/ GRel \/ GGet
           \/ FClear \/ FIsSet \/ FSet \/ CStop \/ CJoin \/ XPut \/ XIter
           \/ XCode \/ XJoin \/ XCode2

FWait == /\ pc[FeederId] = "FWait"
         /\ feederOn /\ ~feederDone /\ mycall < fcall
         /\ mycall' = fcall
         /\ k' = 0
         /\ IF Fixed
               THEN /\ IF Calls[mycall'].n = 0
                          THEN /\ pc' = [pc EXCEPT ![FeederId] = "FWrS"]
                          ELSE /\ pc' = [pc EXCEPT ![FeederId] = "FPut"]
               ELSE /\ pc' = [pc EXCEPT ![FeederId] = "PWrS"]
         /\ UNCHANGED << sending, dataCnt, workQ, resQ, resLock, stopEv, runEv, 
                         feederOn, feederDone, fcall, wstate, cno, out, outs, 
                         bad, finishedAll, finished, buf, wf, batch, woken, qn, 
                         i, sw, dc, rs, t, s, item >>

PWrS == /\ pc[FeederId] = "PWrS"
        /\ sending' = TRUE
        /\ pc' = [pc EXCEPT ![FeederId] = "PWrD"]
        /\ UNCHANGED << dataCnt, workQ, resQ, resLock, stopEv, runEv, feederOn, 
                        feederDone, fcall, wstate, cno, out, outs, bad, 
                        finishedAll, finished, buf, wf, batch, woken, qn, i, 
                        sw, dc, rs, k, mycall, t, s, item >>

PWrD == /\ pc[FeederId] = "PWrD"
        /\ dataCnt' = 0
        /\ IF Calls[mycall].n = 0
              THEN /\ pc' = [pc EXCEPT ![FeederId] = "FWrS"]
              ELSE /\ pc' = [pc EXCEPT ![FeederId] = "FPut"]
        /\ UNCHANGED << sending, workQ, resQ, resLock, stopEv, runEv, feederOn, 
                        feederDone, fcall, wstate, cno, out, outs, bad, 
                        finishedAll, finished, buf, wf, batch, woken, qn, i, 
                        sw, dc, rs, k, mycall, t, s, item >>

FPut == /\ pc[FeederId] = "FPut"
        /\ ~Full(workQ, WorkCap)
        /\ workQ' = Append(workQ, [k |-> "work", c |-> mycall, i |-> k])
        /\ pc' = [pc EXCEPT ![FeederId] = "FRdD"]
        /\ UNCHANGED << sending, dataCnt, resQ, resLock, stopEv, runEv, 
                        feederOn, feederDone, fcall, wstate, cno, out, outs, 
                        bad, finishedAll, finished, buf, wf, batch, woken, qn, 
                        i, sw, dc, rs, k, mycall, t, s, item >>

FRdD == /\ pc[FeederId] = "FRdD"
        /\ t' = dataCnt
        /\ pc' = [pc EXCEPT ![FeederId] = "FWrD"]
        /\ UNCHANGED << sending, dataCnt, workQ, resQ, resLock, stopEv, runEv, 
                        feederOn, feederDone, fcall, wstate, cno, out, outs, 
                        bad, finishedAll, finished, buf, wf, batch, woken, qn, 
                        i, sw, dc, rs, k, mycall, s, item >>

FWrD == /\ pc[FeederId] = "FWrD"
        /\ dataCnt' = t + 1
        /\ k' = k + 1
        /\ pc' = [pc EXCEPT ![FeederId] = "FStop"]
        /\ UNCHANGED << sending, workQ, resQ, resLock, stopEv, runEv, feederOn, 
                        feederDone, fcall, wstate, cno, out, outs, bad, 
                        finishedAll, finished, buf, wf, batch, woken, qn, i, 
                        sw, dc, rs, mycall, t, s, item >>

FStop == /\ pc[FeederId] = "FStop"
         /\ s' = stopEv
         /\ IF s'
               THEN /\ pc' = [pc EXCEPT ![FeederId] = "FWrS"]
               ELSE /\ pc' = [pc EXCEPT ![FeederId] = "FRun"]
         /\ UNCHANGED << sending, dataCnt, workQ, resQ, resLock, stopEv, runEv, 
                         feederOn, feederDone, fcall, wstate, cno, out, outs, 
                         bad, finishedAll, finished, buf, wf, batch, woken, qn, 
                         i, sw, dc, rs, k, mycall, t, item >>

FRun == /\ pc[FeederId] = "FRun"
        /\ runEv
        /\ IF k < Calls[mycall].n
              THEN /\ pc' = [pc EXCEPT ![FeederId] = "FPut"]
              ELSE /\ pc' = [pc EXCEPT ![FeederId] = "FWrS"]
        /\ UNCHANGED << sending, dataCnt, workQ, resQ, resLock, stopEv, runEv, 
                        feederOn, feederDone, fcall, wstate, cno, out, outs, 
                        bad, finishedAll, finished, buf, wf, batch, woken, qn, 
                        i, sw, dc, rs, k, mycall, t, s, item >>

FWrS == /\ pc[FeederId] = "FWrS"
        /\ sending' = FALSE
        /\ IF ~Fixed
              THEN /\ feederDone' = TRUE
                   /\ pc' = [pc EXCEPT ![FeederId] = "FWait"]
              ELSE /\ pc' = [pc EXCEPT ![FeederId] = "FWake"]
                   /\ UNCHANGED feederDone
        /\ UNCHANGED << dataCnt, workQ, resQ, resLock, stopEv, runEv, feederOn, 
                        fcall, wstate, cno, out, outs, bad, finishedAll, 
                        finished, buf, wf, batch, woken, qn, i, sw, dc, rs, k, 
                        mycall, t, s, item >>

FWake == /\ pc[FeederId] = "FWake"
         /\ IF ~Full(resQ, ResCap)
               THEN /\ resQ' = Append(resQ, WakeTok)
               ELSE /\ TRUE
                    /\ resQ' = resQ
         /\ feederDone' = TRUE
         /\ pc' = [pc EXCEPT ![FeederId] = "FWait"]
         /\ UNCHANGED << sending, dataCnt, workQ, resLock, stopEv, runEv, 
                         feederOn, fcall, wstate, cno, out, outs, bad, 
                         finishedAll, finished, buf, wf, batch, woken, qn, i, 
                         sw, dc, rs, k, mycall, t, s, item >>

Feeder == FWait \/ PWrS \/ PWrD \/ FPut \/ FRdD \/ FWrD \/ FStop \/ FRun
             \/ FWrS \/ FWake

WStart(self) == /\ pc[self] = "WStart"
                /\ wstate[self] = "started"
                /\ pc' = [pc EXCEPT ![self] = "WClear"]
                /\ UNCHANGED << sending, dataCnt, workQ, resQ, resLock, stopEv, 
                                runEv, feederOn, feederDone, fcall, wstate, 
                                cno, out, outs, bad, finishedAll, finished, 
                                buf, wf, batch, woken, qn, i, sw, dc, rs, k, 
                                mycall, t, s, item >>

WClear(self) == /\ pc[self] = "WClear"
                /\ TRUE
                /\ pc' = [pc EXCEPT ![self] = "WSet"]
                /\ UNCHANGED << sending, dataCnt, workQ, resQ, resLock, stopEv, 
                                runEv, feederOn, feederDone, fcall, wstate, 
                                cno, out, outs, bad, finishedAll, finished, 
                                buf, wf, batch, woken, qn, i, sw, dc, rs, k, 
                                mycall, t, s, item >>

WSet(self) == /\ pc[self] = "WSet"
              /\ TRUE
              /\ pc' = [pc EXCEPT ![self] = "WGet"]
              /\ UNCHANGED << sending, dataCnt, workQ, resQ, resLock, stopEv, 
                              runEv, feederOn, feederDone, fcall, wstate, cno, 
                              out, outs, bad, finishedAll, finished, buf, wf, 
                              batch, woken, qn, i, sw, dc, rs, k, mycall, t, s, 
                              item >>

WGet(self) == /\ pc[self] = "WGet"
              /\ workQ # <<>>
              /\ item' = [item EXCEPT ![self] = Head(workQ)]
              /\ workQ' = Tail(workQ)
              /\ IF item'[self].k = "none"
                    THEN /\ wstate' = [wstate EXCEPT ![self] = "exited"]
                         /\ pc' = [pc EXCEPT ![self] = "Done"]
                    ELSE /\ pc' = [pc EXCEPT ![self] = "WAcq"]
                         /\ UNCHANGED wstate
              /\ UNCHANGED << sending, dataCnt, resQ, resLock, stopEv, runEv, 
                              feederOn, feederDone, fcall, cno, out, outs, bad, 
                              finishedAll, finished, buf, wf, batch, woken, qn, 
                              i, sw, dc, rs, k, mycall, t, s >>

WAcq(self) == /\ pc[self] = "WAcq"
              /\ resLock = -1
              /\ resLock' = self
              /\ pc' = [pc EXCEPT ![self] = "WPutNB"]
              /\ UNCHANGED << sending, dataCnt, workQ, resQ, stopEv, runEv, 
                              feederOn, feederDone, fcall, wstate, cno, out, 
                              outs, bad, finishedAll, finished, buf, wf, batch, 
                              woken, qn, i, sw, dc, rs, k, mycall, t, s, item >>

WPutNB(self) == /\ pc[self] = "WPutNB"
                /\ IF ~Full(resQ, ResCap)
                      THEN /\ resQ' = Append(resQ, [k |-> "res", c |-> item[self].c, i |-> item[self].i])
                           /\ pc' = [pc EXCEPT ![self] = "WRel"]
                      ELSE /\ pc' = [pc EXCEPT ![self] = "WRelF"]
                           /\ resQ' = resQ
                /\ UNCHANGED << sending, dataCnt, workQ, resLock, stopEv, 
                                runEv, feederOn, feederDone, fcall, wstate, 
                                cno, out, outs, bad, finishedAll, finished, 
                                buf, wf, batch, woken, qn, i, sw, dc, rs, k, 
                                mycall, t, s, item >>

WRel(self) == /\ pc[self] = "WRel"
              /\ resLock' = -1
              /\ pc' = [pc EXCEPT ![self] = "WGet"]
              /\ UNCHANGED << sending, dataCnt, workQ, resQ, stopEv, runEv, 
                              feederOn, feederDone, fcall, wstate, cno, out, 
                              outs, bad, finishedAll, finished, buf, wf, batch, 
                              woken, qn, i, sw, dc, rs, k, mycall, t, s, item >>

WRelF(self) == /\ pc[self] = "WRelF"
               /\ resLock' = -1
               /\ pc' = [pc EXCEPT ![self] = "WPut"]
               /\ UNCHANGED << sending, dataCnt, workQ, resQ, stopEv, runEv, 
                               feederOn, feederDone, fcall, wstate, cno, out, 
                               outs, bad, finishedAll, finished, buf, wf, 
                               batch, woken, qn, i, sw, dc, rs, k, mycall, t, 
                               s, item >>

WPut(self) == /\ pc[self] = "WPut"
              /\ ~Full(resQ, ResCap)
              /\ resQ' = Append(resQ, [k |-> "res", c |-> item[self].c, i |-> item[self].i])
              /\ pc' = [pc EXCEPT ![self] = "WGet"]
              /\ UNCHANGED << sending, dataCnt, workQ, resLock, stopEv, runEv, 
                              feederOn, feederDone, fcall, wstate, cno, out, 
                              outs, bad, finishedAll, finished, buf, wf, batch, 
                              woken, qn, i, sw, dc, rs, k, mycall, t, s, item >>

W(self) == WStart(self) \/ WClear(self) \/ WSet(self) \/ WGet(self)
              \/ WAcq(self) \/ WPutNB(self) \/ WRel(self) \/ WRelF(self)
              \/ WPut(self)

(* Allow infinite stuttering to prevent deadlock on termination. *)
Terminating == /\ \A self \in ProcSet: pc[self] = "Done"
               /\ UNCHANGED vars

Next == Main \/ Feeder
           \/ (\E self \in Workers: W(self))
           \/ Terminating

Spec == Init /\ [][Next]_vars

Termination == <>(\A self \in ProcSet: pc[self] = "Done")

\* END TRANSLATION

\* C02: no state in which something is still to be done and nobody can move (the feeder waiting for the next
\* call and exited workers do not count)
NoDeadlock == finishedAll \/ ENABLED Next
\* C02 as liveness, under weak fairness of every process
AllCallsEnd == <>finishedAll
FairSpec == Spec /\ WF_vars(Main) /\ WF_vars(Feeder) /\ \A w \in Workers : WF_vars(W(w))

\* visible-operation kind of every label (binding to recorded executions of the real code); labels with kind
\* "local" have no visible operation of their own: they are fused with the preceding step when replayed
KindOf(l) == CASE l \in {"EIter", "XIter"} -> "slots.iter"
               [] l \in {"EStart", "CStart"} -> "start"
               [] l \in {"FWait", "WStart"} -> "task-start"
               [] l \in {"CRunSet", "FSet", "CStop", "WSet"} -> "ev.set"
               [] l \in {"CWrS", "CWrD", "PWrS", "PWrD", "FWrD", "FWrS"} -> "wr"
               [] l \in {"LRdS", "LRdD", "FRdD"} -> "rd"
               [] l \in {"GSize", "GSize2"} -> "q.qsize"
               [] l \in {"GAcq", "WAcq"} -> "lock.acq"
               [] l \in {"GRel", "WRel", "WRelF"} -> "lock.rel"
               [] l \in {"GGetNB"} -> "q.get_nb"
               [] l \in {"GGet", "WGet"} -> "q.get"
               [] l \in {"FPut", "XPut", "WPut"} -> "q.put"
               [] l \in {"WPutNB", "FWake"} -> "q.put_nb"
               [] l \in {"FClear", "WClear"} -> "ev.clear"
               [] l \in {"FIsSet", "FStop"} -> "ev.is_set"
               [] l \in {"FRun"} -> "ev.wait"
               [] l \in {"CJoin", "XJoin"} -> "join"
               [] l \in {"XCode", "XCode2"} -> "exitcode"
               [] OTHER -> "local"
=============================================================================
