--------------------------- MODULE MC_FactoryPool ---------------------------
EXTENDS FactoryPool
C2 == <<[n |-> 2, ord |-> TRUE]>>
C21 == <<[n |-> 2, ord |-> TRUE], [n |-> 1, ord |-> TRUE]>>
C222 == <<[n |-> 2, ord |-> TRUE], [n |-> 2, ord |-> TRUE], [n |-> 2, ord |-> TRUE]>>
C23u == <<[n |-> 2, ord |-> TRUE], [n |-> 3, ord |-> FALSE]>>
C202u == <<[n |-> 2, ord |-> TRUE], [n |-> 0, ord |-> TRUE], [n |-> 2, ord |-> FALSE]>>
=============================================================================
