------------------------- MODULE FactoryFunctorPool -------------------------
(* Implementation-level model of FactoryFunctorPool (windpyutils/parallel/own_proc_pools.py) for C03 and C04: FunctorPool.tla
   extended by the chunk quota of the workers, their retirement, the replace thread (ReplaceWorkerThread, one per call) and the
   worker ids handed out by the pool.  As in FunctorPool.tla EVERY LABEL IS EXACTLY ONE VISIBLE OPERATION of the real code, so
   behaviours can be replayed as schedules and recorded executions validated step by step.  The text below is that of
   FunctorPool.tla: the consumer (imap / imap_unordered in the caller's thread), the feeding thread
   (SendWorkThread, one per call) and the worker processes, with the three shared flags/counters, the work
   and result queues, the result-queue lock and the stop / run events.

   EVERY LABEL IS EXACTLY ONE VISIBLE OPERATION of the real code as the controlled execution (simworld)
   sees it - a queue / lock / event operation, a thread or process start / join / exitcode, one read or
   write of a shared pool attribute, one step over the worker slot table.  Local computation up to the next
   visible operation belongs to the same label.  This is what lets a behaviour of this model be replayed as
   a schedule of the real code and a recorded execution be validated against the model (KindOf below).

   Chunks are tagged <<call, index>> so that loss, duplication, reordering and leakage between calls are
   all distinguishable.  Design = "fixed" is the repaired code (flags initialised before the thread starts,
   wake-up token after the flag is cleared); Design = "pinned" is the pinned commit (flags set by the
   thread itself, no wake-up token) and serves as the negative control.                                    *)
EXTENDS Integers, Sequences, FiniteSets, TLC

CONSTANTS Calls,       \* sequence of [n |-> number of chunks, ord |-> BOOLEAN]
          Quota,       \* chunks a worker processes before it retires (>= 1)
          MaxWid,      \* bound on the worker ids ever handed out
          NW,          \* number of worker slots
          WorkCap,     \* capacity of the work queue, 0 = unbounded
          ResCap,      \* capacity of the results queue (also the flow-control threshold), 0 = unbounded
          Design       \* "fixed" | "pinned"

Workers == 1..MaxWid
Slots == 1..NW
ReplId == 200
MainId == 0
FeederId == 100
NoneTok == [k |-> "none", c |-> 0, i |-> 0]
WakeTok == [k |-> "wake", c |-> 0, i |-> 0]
Full(q, cap) == cap # 0 /\ Len(q) >= cap
Fixed == Design = "fixed"

\* the consumer's local processing of result chunks: reorder buffer for ordered calls, pass-through otherwise
RECURSIVE DrainR(_)
DrainR(st) == IF \E r \in st.buf : r.i = st.wf
              THEN LET r == CHOOSE x \in st.buf : x.i = st.wf
                   IN DrainR([st EXCEPT !.buf = @ \ {r}, !.wf = @ + 1, !.out = Append(@, <<r.c, r.i>>), !.fin = @ + 1])
              ELSE st
RECURSIVE Consume(_, _, _)
Consume(b, st, ord) ==
    IF b = <<>> THEN st
    ELSE IF ord THEN (IF Head(b).i < st.wf THEN Consume(Tail(b), [st EXCEPT !.bad = TRUE], ord)
                      ELSE Consume(Tail(b), DrainR([st EXCEPT !.buf = @ \cup {Head(b)}]), ord))
    ELSE Consume(Tail(b), [st EXCEPT !.out = Append(@, <<Head(b).c, Head(b).i>>), !.fin = @ + 1], ord)

(* --algorithm FactoryFunctorPool {
variables
  sending = FALSE, dataCnt = 0,              \* pool._sending_work, pool._data_cnt
  workQ = <<>>, resQ = <<>>,
  resLock = -1,                              \* -1 free, otherwise the holder
  stopEv = FALSE, runEv = FALSE,             \* the current feeding thread's stop_event / run_event
  feederOn = FALSE, feederDone = FALSE, fcall = 0,
  wstate = [w \in Workers |-> IF w <= NW THEN "new" ELSE "none"],   \* none -> new -> started -> exited
  procs = [sl \in Slots |-> sl],               \* pool.procs: slot -> worker id
  widCounter = NW,                           \* pool._wid_counter (number of ids handed out)
  replQ = <<>>,                              \* replace queue: worker ids, 0 = the stop token
  replOn = FALSE, replDone = FALSE, rcall = 0,
  done = [w \in Workers |-> 0],
  cno = 1, out = <<>>, outs = <<>>,          \* out: tags yielded in the current call; outs: per finished call
  bad = FALSE, finishedAll = FALSE;

define {
  ResMax == IF ResCap = 0 THEN 1000000 ELSE ResCap
  Expected(c) == [j \in 1..Calls[c].n |-> <<c, j - 1>>]
  SameBag(s, t) == Len(s) = Len(t) /\ \A x \in {s[j] : j \in DOMAIN s} \cup {t[j] : j \in DOMAIN t} :
                      Cardinality({j \in DOMAIN s : s[j] = x}) = Cardinality({j \in DOMAIN t : t[j] = x})
  \* C01: every finished call yielded exactly its own chunks, in order when ordered
  CallOK == \A c \in DOMAIN outs : IF Calls[c].ord THEN outs[c] = Expected(c) ELSE SameBag(outs[c], Expected(c))
  NoBad == ~bad                                \* the reorder buffer never refuses a chunk
  \* nothing of a finished call is left behind for the next one
  NoLeftovers == finishedAll => \A j \in DOMAIN resQ : resQ[j].k = "wake"
  \* C04: quota kept; after the exit nobody is left running
  QuotaKept == \A w \in Workers : done[w] <= Quota
  NoneLeftRunning == finishedAll => \A w \in Workers : wstate[w] \in {"none", "exited"}
  WidBound == widCounter <= MaxWid
}
macro ProcessBatch(b) {
  \* local computation (no visible operation): feed the batch to the reorder buffer and yield what is in order
  with (st = Consume(b, [buf |-> buf, wf |-> wf, out |-> out, fin |-> finished, bad |-> bad], Calls[cno].ord)) {
    buf := st.buf; wf := st.wf; out := st.out; finished := st.fin; bad := st.bad;
  };
  batch := <<>>;
}

\* ------------------------------------------------------------------------------- consumer (caller's thread)
process (Main = MainId)
variables finished = 0, buf = {}, wf = 0, batch = <<>>, woken = FALSE, qn = 0, i = 1, sw = FALSE, dc = 0, rs = FALSE;
{
 EIter:                                                        \* slots.iter (for p in self.procs)
  if (i <= NW) {
 EStart: wstate[procs[i]] := "started"; i := i + 1; goto EIter; \* start P
  } else if (cno > Len(Calls)) { i := 1; goto XPut; };
 RRunSet: skip;                                                \* ev.set (ReplaceWorkerThread: CMThread.__init__)
 RStart: replOn := TRUE; replDone := FALSE; rcall := cno;      \* start T (replace thread)
 CRunSet:                                                      \* ev.set (CMThread.__init__: run_event.set())
    finished := 0; buf := {}; wf := 0; out := <<>>;
    runEv := TRUE; stopEv := FALSE;
    if (~Fixed) { goto CStart; };
 CWrS:  sending := TRUE;                                       \* wr _sending_work
 CWrD:  dataCnt := 0;                                          \* wr _data_cnt
 CStart: feederOn := TRUE; feederDone := FALSE; fcall := cno;  \* start T
 LRdS:  sw := sending;                                         \* rd _sending_work
    if (~sw) {
 LRdD:   dc := dataCnt;                                        \* rd _data_cnt
      if (finished >= dc) { goto CStop; };
    };
 GSize: qn := Len(resQ); batch := <<>>; woken := FALSE;         \* q.qsize
    if (qn > 0) {
 GAcq:   await resLock = -1; resLock := MainId;                \* lock.acq
 GSize2: qn := Len(resQ);                                       \* q.qsize
      if (qn > 0) {
 GGetNB:                                                       \* q.get_nb
        if (resQ # <<>>) {
          if (Head(resQ).k = "wake") { woken := TRUE; } else { batch := Append(batch, Head(resQ)); };
          resQ := Tail(resQ);
          goto GSize2;
        };
      };
 GRel:   resLock := -1;                                        \* lock.rel
      if (batch # <<>> \/ woken) {
        ProcessBatch(batch);
        \* ordered calls: flow control on the run event (the decision is local)
        if (~Calls[cno].ord) { goto LRdS; } else if (Cardinality(buf) >= ResMax) { goto FClear; } else { goto FIsSet; };
      };
    };
 GGet:  await resQ # <<>>;                                     \* q.get
    ProcessBatch(IF Head(resQ).k # "wake" THEN <<Head(resQ)>> ELSE <<>>);
    resQ := Tail(resQ);
    if (~Calls[cno].ord) { goto LRdS; } else if (Cardinality(buf) >= ResMax) { goto FClear; } else { goto FIsSet; };
 FClear: runEv := FALSE; goto LRdS;                            \* ev.clear
 FIsSet: rs := runEv;                                          \* ev.is_set
    if (rs) { goto LRdS; };
 FSet:   runEv := TRUE; goto LRdS;                             \* ev.set
 CStop: stopEv := TRUE;                                        \* ev.set (stop_event)
 CJoin: await feederDone; feederOn := FALSE;                   \* join T
 RStopPut: replQ := Append(replQ, 0);                          \* q.put (stop token into the replace queue)
 RStopSet: skip;                                               \* ev.set (stop_event of the replace thread)
 RJoin: await replDone; replOn := FALSE;                       \* join T (replace thread)
    outs := Append(outs, out); cno := cno + 1;
    if (cno <= Len(Calls)) { goto RRunSet; } else { i := 1; };
 XPut:                                                         \* q.put (one None per slot)
    await ~Full(workQ, WorkCap);
    workQ := Append(workQ, NoneTok);
    if (i < NW) { i := i + 1; goto XPut; } else { i := 1; };
 XIter:                                                        \* slots.iter
  if (i <= NW) {
 XCode:  if (wstate[procs[i]] = "exited") { i := i + 1; goto XIter; }; \* exitcode
 XJoin:  await wstate[procs[i]] = "exited";                    \* join P
 XCode2: i := i + 1; goto XIter;                               \* exitcode (the "not joined" warning test)
  } else { finishedAll := TRUE; };
}

\* ------------------------------------------------------------------------------- SendWorkThread (one activation per call)
process (Feeder = FeederId)
variables k = 0, mycall = 0, t = 0, s = FALSE;
{
 FWait:                                                        \* the thread starts running (up to its first operation)
    await feederOn /\ ~feederDone /\ mycall < fcall; mycall := fcall; k := 0;
    if (Fixed) { if (Calls[mycall].n = 0) { goto FWrS; } else { goto FPut; }; };
 PWrS:  sending := TRUE;                                       \* wr _sending_work   (pinned design only)
 PWrD:  dataCnt := 0;                                          \* wr _data_cnt
    if (Calls[mycall].n = 0) { goto FWrS; };
 FPut:  await ~Full(workQ, WorkCap);                           \* q.put
    workQ := Append(workQ, [k |-> "work", c |-> mycall, i |-> k]);
 FRdD:  t := dataCnt;                                          \* rd _data_cnt
 FWrD:  dataCnt := t + 1; k := k + 1;                          \* wr _data_cnt
 FStop: s := stopEv;                                           \* ev.is_set (stop_event)
    if (s) { goto FWrS; };
 FRun:  await runEv;                                           \* ev.wait (run_event)
    if (k < Calls[mycall].n) { goto FPut; };
 FWrS:  sending := FALSE;                                      \* wr _sending_work
    if (~Fixed) { feederDone := TRUE; goto FWait; };
 FWake: if (~Full(resQ, ResCap)) { resQ := Append(resQ, WakeTok); };   \* q.put_nb
    feederDone := TRUE; goto FWait;
}

\* ------------------------------------------------------------------------------- ReplaceWorkerThread (one activation per call)
process (Repl = ReplId)
variables rid = 0, j = 1, slot = 0, myrc = 0, nw = 0;
{
 RWait:                                                        \* the thread starts running
    await replOn /\ ~replDone /\ myrc < rcall; myrc := rcall;
 RGet:  await replQ # <<>>;                                    \* q.get (replace queue)
    rid := Head(replQ); replQ := Tail(replQ); j := 1;
    if (rid = 0) { replDone := TRUE; goto RWait; };
 RIter:                                                        \* slots.iter (for i, p in enumerate(self.pool.procs))
    if (procs[j] # rid) { j := j + 1; goto RIter; } else { slot := j; };
 RJoinW: await wstate[rid] = "exited";                         \* join P (the retired worker)
 RCode:  skip;                                                 \* exitcode
 RWid1:  nw := widCounter;                                     \* rd _wid_counter (p.wid = ...)
 RWid2:  nw := widCounter;                                     \* rd _wid_counter (... += 1)
 RWid3:  widCounter := nw + 1;                                 \* wr _wid_counter
 RSet:   procs[slot] := nw + 1; wstate[nw + 1] := "new";       \* slots.set
 RGetS:  skip;                                                 \* slots.get
 RStartW: wstate[procs[slot]] := "started"; goto RGet;         \* start P (the replacement)
}

\* ------------------------------------------------------------------------------- worker processes
process (W \in Workers)
variables item = NoneTok, q = Quota;
{
 WStart: await wstate[self] = "started";                       \* the process starts running
 WClear: skip;                                                 \* ev.clear (begin_finished)
 WSet:   skip;                                                 \* ev.set   (begin() returned)
 WGet:   await workQ # <<>>;                                   \* q.get
         item := Head(workQ); workQ := Tail(workQ);
         if (item.k = "none") { wstate[self] := "exited"; goto Done; };
 WAcq:   await resLock = -1; resLock := self;                  \* lock.acq
 WPutNB: if (~Full(resQ, ResCap)) {                            \* q.put_nb
           resQ := Append(resQ, [k |-> "res", c |-> item.c, i |-> item.i]);
         } else { goto WRelF; };
 WRel:   resLock := -1; done[self] := done[self] + 1; q := q - 1;   \* lock.rel (then the chunk is counted against the quota)
         if (q > 0) { goto WGet; } else { goto WRetire; };
 WRelF:  resLock := -1;                                        \* lock.rel (leaving the with-block by queue.Full)
 WPut:   await ~Full(resQ, ResCap);                            \* q.put
         resQ := Append(resQ, [k |-> "res", c |-> item.c, i |-> item.i]);
         done[self] := done[self] + 1; q := q - 1;
         if (q > 0) { goto WGet; };
 WRetire: replQ := Append(replQ, self); wstate[self] := "exited";    \* q.put (own id into the replace queue), then end() and exit
}
} *)
\* BEGIN TRANSLATION
VARIABLES pc, sending, dataCnt, workQ, resQ, resLock, stopEv, runEv, feederOn, 
          feederDone, fcall, wstate, procs, widCounter, replQ, replOn, 
          replDone, rcall, done, cno, out, outs, bad, finishedAll

(* define statement *)
ResMax == IF ResCap = 0 THEN 1000000 ELSE ResCap
Expected(c) == [j \in 1..Calls[c].n |-> <<c, j - 1>>]
SameBag(s, t) == Len(s) = Len(t) /\ \A x \in {s[j] : j \in DOMAIN s} \cup {t[j] : j \in DOMAIN t} :
                    Cardinality({j \in DOMAIN s : s[j] = x}) = Cardinality({j \in DOMAIN t : t[j] = x})

CallOK == \A c \in DOMAIN outs : IF Calls[c].ord THEN outs[c] = Expected(c) ELSE SameBag(outs[c], Expected(c))
NoBad == ~bad

NoLeftovers == finishedAll => \A j \in DOMAIN resQ : resQ[j].k = "wake"

QuotaKept == \A w \in Workers : done[w] <= Quota
NoneLeftRunning == finishedAll => \A w \in Workers : wstate[w] \in {"none", "exited"}
WidBound == widCounter <= MaxWid

VARIABLES finished, buf, wf, batch, woken, qn, i, sw, dc, rs, k, mycall, t, s, 
          rid, j, slot, myrc, nw, item, q

vars == << pc, sending, dataCnt, workQ, resQ, resLock, stopEv, runEv, 
           feederOn, feederDone, fcall, wstate, procs, widCounter, replQ, 
           replOn, replDone, rcall, done, cno, out, outs, bad, finishedAll, 
           finished, buf, wf, batch, woken, qn, i, sw, dc, rs, k, mycall, t, 
           s, rid, j, slot, myrc, nw, item, q >>

ProcSet == {MainId} \cup {FeederId} \cup {ReplId} \cup (Workers)

Init == (* Global variables *)
        /\ sending = FALSE
        /\ dataCnt = 0
        /\ workQ = <<>>
        /\ resQ = <<>>
        /\ resLock = -1
        /\ stopEv = FALSE
        /\ runEv = FALSE
        /\ feederOn = FALSE
        /\ feederDone = FALSE
        /\ fcall = 0
        /\ wstate = [w \in Workers |-> IF w <= NW THEN "new" ELSE "none"]
        /\ procs = [sl \in Slots |-> sl]
        /\ widCounter = NW
        /\ replQ = <<>>
        /\ replOn = FALSE
        /\ replDone = FALSE
        /\ rcall = 0
        /\ done = [w \in Workers |-> 0]
        /\ cno = 1
        /\ out = <<>>
        /\ outs = <<>>
        /\ bad = FALSE
        /\ finishedAll = FALSE
        (* Process Main *)
        /\ finished = 0
        /\ buf = {}
        /\ wf = 0
        /\ batch = <<>>
        /\ woken = FALSE
        /\ qn = 0
        /\ i = 1
        /\ sw = FALSE
        /\ dc = 0
        /\ rs = FALSE
        (* Process Feeder *)
        /\ k = 0
        /\ mycall = 0
        /\ t = 0
        /\ s = FALSE
        (* Process Repl *)
        /\ rid = 0
        /\ j = 1
        /\ slot = 0
        /\ myrc = 0
        /\ nw = 0
        (* Process W *)
        /\ item = [self \in Workers |-> NoneTok]
        /\ q = [self \in Workers |-> Quota]
        /\ pc = [self \in ProcSet |-> CASE self = MainId -> "EIter"
                                        [] self = FeederId -> "FWait"
                                        [] self = ReplId -> "RWait"
                                        [] self \in Workers -> "WStart"]

EIter == /\ pc[MainId] = "EIter"
         /\ IF i <= NW
               THEN /\ pc' = [pc EXCEPT ![MainId] = "EStart"]
                    /\ i' = i
               ELSE /\ IF cno > Len(Calls)
                          THEN /\ i' = 1
                               /\ pc' = [pc EXCEPT ![MainId] = "XPut"]
                          ELSE /\ pc' = [pc EXCEPT ![MainId] = "RRunSet"]
                               /\ i' = i
         /\ UNCHANGED << sending, dataCnt, workQ, resQ, resLock, stopEv, runEv, 
                         feederOn, feederDone, fcall, wstate, procs, 
                         widCounter, replQ, replOn, replDone, rcall, done, cno, 
                         out, outs, bad, finishedAll, finished, buf, wf, batch, 
                         woken, qn, sw, dc, rs, k, mycall, t, s, rid, j, slot, 
                         myrc, nw, item, q >>

EStart == /\ pc[MainId] = "EStart"
          /\ wstate' = [wstate EXCEPT ![procs[i]] = "started"]
          /\ i' = i + 1
          /\ pc' = [pc EXCEPT ![MainId] = "EIter"]
          /\ UNCHANGED << sending, dataCnt, workQ, resQ, resLock, stopEv, 
                          runEv, feederOn, feederDone, fcall, procs, 
                          widCounter, replQ, replOn, replDone, rcall, done, 
                          cno, out, outs, bad, finishedAll, finished, buf, wf, 
                          batch, woken, qn, sw, dc, rs, k, mycall, t, s, rid, 
                          j, slot, myrc, nw, item, q >>

RRunSet == /\ pc[MainId] = "RRunSet"
           /\ TRUE
           /\ pc' = [pc EXCEPT ![MainId] = "RStart"]
           /\ UNCHANGED << sending, dataCnt, workQ, resQ, resLock, stopEv, 
                           runEv, feederOn, feederDone, fcall, wstate, procs, 
                           widCounter, replQ, replOn, replDone, rcall, done, 
                           cno, out, outs, bad, finishedAll, finished, buf, wf, 
                           batch, woken, qn, i, sw, dc, rs, k, mycall, t, s, 
                           rid, j, slot, myrc, nw, item, q >>

RStart == /\ pc[MainId] = "RStart"
          /\ replOn' = TRUE
          /\ replDone' = FALSE
          /\ rcall' = cno
          /\ pc' = [pc EXCEPT ![MainId] = "CRunSet"]
          /\ UNCHANGED << sending, dataCnt, workQ, resQ, resLock, stopEv, 
                          runEv, feederOn, feederDone, fcall, wstate, procs, 
                          widCounter, replQ, done, cno, out, outs, bad, 
                          finishedAll, finished, buf, wf, batch, woken, qn, i, 
                          sw, dc, rs, k, mycall, t, s, rid, j, slot, myrc, nw, 
                          item, q >>

CRunSet == /\ pc[MainId] = "CRunSet"
           /\ finished' = 0
           /\ buf' = {}
           /\ wf' = 0
           /\ out' = <<>>
           /\ runEv' = TRUE
           /\ stopEv' = FALSE
           /\ IF ~Fixed
                 THEN /\ pc' = [pc EXCEPT ![MainId] = "CStart"]
                 ELSE /\ pc' = [pc EXCEPT ![MainId] = "CWrS"]
           /\ UNCHANGED << sending, dataCnt, workQ, resQ, resLock, feederOn, 
                           feederDone, fcall, wstate, procs, widCounter, replQ, 
                           replOn, replDone, rcall, done, cno, outs, bad, 
                           finishedAll, batch, woken, qn, i, sw, dc, rs, k, 
                           mycall, t, s, rid, j, slot, myrc, nw, item, q >>

CWrS == /\ pc[MainId] = "CWrS"
        /\ sending' = TRUE
        /\ pc' = [pc EXCEPT ![MainId] = "CWrD"]
        /\ UNCHANGED << dataCnt, workQ, resQ, resLock, stopEv, runEv, feederOn, 
                        feederDone, fcall, wstate, procs, widCounter, replQ, 
                        replOn, replDone, rcall, done, cno, out, outs, bad, 
                        finishedAll, finished, buf, wf, batch, woken, qn, i, 
                        sw, dc, rs, k, mycall, t, s, rid, j, slot, myrc, nw, 
                        item, q >>

CWrD == /\ pc[MainId] = "CWrD"
        /\ dataCnt' = 0
        /\ pc' = [pc EXCEPT ![MainId] = "CStart"]
        /\ UNCHANGED << sending, workQ, resQ, resLock, stopEv, runEv, feederOn, 
                        feederDone, fcall, wstate, procs, widCounter, replQ, 
                        replOn, replDone, rcall, done, cno, out, outs, bad, 
                        finishedAll, finished, buf, wf, batch, woken, qn, i, 
                        sw, dc, rs, k, mycall, t, s, rid, j, slot, myrc, nw, 
                        item, q >>

CStart == /\ pc[MainId] = "CStart"
          /\ feederOn' = TRUE
          /\ feederDone' = FALSE
          /\ fcall' = cno
          /\ pc' = [pc EXCEPT ![MainId] = "LRdS"]
          /\ UNCHANGED << sending, dataCnt, workQ, resQ, resLock, stopEv, 
                          runEv, wstate, procs, widCounter, replQ, replOn, 
                          replDone, rcall, done, cno, out, outs, bad, 
                          finishedAll, finished, buf, wf, batch, woken, qn, i, 
                          sw, dc, rs, k, mycall, t, s, rid, j, slot, myrc, nw, 
                          item, q >>

LRdS == /\ pc[MainId] = "LRdS"
        /\ sw' = sending
        /\ IF ~sw'
              THEN /\ pc' = [pc EXCEPT ![MainId] = "LRdD"]
              ELSE /\ pc' = [pc EXCEPT ![MainId] = "GSize"]
        /\ UNCHANGED << sending, dataCnt, workQ, resQ, resLock, stopEv, runEv, 
                        feederOn, feederDone, fcall, wstate, procs, widCounter, 
                        replQ, replOn, replDone, rcall, done, cno, out, outs, 
                        bad, finishedAll, finished, buf, wf, batch, woken, qn, 
                        i, dc, rs, k, mycall, t, s, rid, j, slot, myrc, nw, 
                        item, q >>

LRdD == /\ pc[MainId] = "LRdD"
        /\ dc' = dataCnt
        /\ IF finished >= dc'
              THEN /\ pc' = [pc EXCEPT ![MainId] = "CStop"]
              ELSE /\ pc' = [pc EXCEPT ![MainId] = "GSize"]
        /\ UNCHANGED << sending, dataCnt, workQ, resQ, resLock, stopEv, runEv, 
                        feederOn, feederDone, fcall, wstate, procs, widCounter, 
                        replQ, replOn, replDone, rcall, done, cno, out, outs, 
                        bad, finishedAll, finished, buf, wf, batch, woken, qn, 
                        i, sw, rs, k, mycall, t, s, rid, j, slot, myrc, nw, 
                        item, q >>

GSize == /\ pc[MainId] = "GSize"
         /\ qn' = Len(resQ)
         /\ batch' = <<>>
         /\ woken' = FALSE
         /\ IF qn' > 0
               THEN /\ pc' = [pc EXCEPT ![MainId] = "GAcq"]
               ELSE /\ pc' = [pc EXCEPT ![MainId] = "GGet"]
         /\ UNCHANGED << sending, dataCnt, workQ, resQ, resLock, stopEv, runEv, 
                         feederOn, feederDone, fcall, wstate, procs, 
                         widCounter, replQ, replOn, replDone, rcall, done, cno, 
                         out, outs, bad, finishedAll, finished, buf, wf, i, sw, 
                         dc, rs, k, mycall, t, s, rid, j, slot, myrc, nw, item, 
                         q >>

GAcq == /\ pc[MainId] = "GAcq"
        /\ resLock = -1
        /\ resLock' = MainId
        /\ pc' = [pc EXCEPT ![MainId] = "GSize2"]
        /\ UNCHANGED << sending, dataCnt, workQ, resQ, stopEv, runEv, feederOn, 
                        feederDone, fcall, wstate, procs, widCounter, replQ, 
                        replOn, replDone, rcall, done, cno, out, outs, bad, 
                        finishedAll, finished, buf, wf, batch, woken, qn, i, 
                        sw, dc, rs, k, mycall, t, s, rid, j, slot, myrc, nw, 
                        item, q >>

GSize2 == /\ pc[MainId] = "GSize2"
          /\ qn' = Len(resQ)
          /\ IF qn' > 0
                THEN /\ pc' = [pc EXCEPT ![MainId] = "GGetNB"]
                ELSE /\ pc' = [pc EXCEPT ![MainId] = "GRel"]
          /\ UNCHANGED << sending, dataCnt, workQ, resQ, resLock, stopEv, 
                          runEv, feederOn, feederDone, fcall, wstate, procs, 
                          widCounter, replQ, replOn, replDone, rcall, done, 
                          cno, out, outs, bad, finishedAll, finished, buf, wf, 
                          batch, woken, i, sw, dc, rs, k, mycall, t, s, rid, j, 
                          slot, myrc, nw, item, q >>

GGetNB == /\ pc[MainId] = "GGetNB"
          /\ IF resQ # <<>>
                THEN /\ IF Head(resQ).k = "wake"
                           THEN /\ woken' = TRUE
                                /\ batch' = batch
                           ELSE /\ batch' = Append(batch, Head(resQ))
                                /\ woken' = woken
                     /\ resQ' = Tail(resQ)
                     /\ pc' = [pc EXCEPT ![MainId] = "GSize2"]
                ELSE /\ pc' = [pc EXCEPT ![MainId] = "GRel"]
                     /\ UNCHANGED << resQ, batch, woken >>
          /\ UNCHANGED << sending, dataCnt, workQ, resLock, stopEv, runEv, 
                          feederOn, feederDone, fcall, wstate, procs, 
                          widCounter, replQ, replOn, replDone, rcall, done, 
                          cno, out, outs, bad, finishedAll, finished, buf, wf, 
                          qn, i, sw, dc, rs, k, mycall, t, s, rid, j, slot, 
                          myrc, nw, item, q >>

GRel == /\ pc[MainId] = "GRel"
        /\ resLock' = -1
        /\ IF batch # <<>> \/ woken
              THEN /\ LET st == Consume(batch, [buf |-> buf, wf |-> wf, out |-> out, fin |-> finished, bad |-> bad], Calls[cno].ord) IN
                        /\ buf' = st.buf
                        /\ wf' = st.wf
                        /\ out' = st.out
                        /\ finished' = st.fin
                        /\ bad' = st.bad
                   /\ batch' = <<>>
                   /\ IF ~Calls[cno].ord
                         THEN /\ pc' = [pc EXCEPT ![MainId] = "LRdS"]
                         ELSE /\ IF Cardinality(buf') >= ResMax
                                    THEN /\ pc' = [pc EXCEPT ![MainId] = "FClear"]
                                    ELSE /\ pc' = [pc EXCEPT ![MainId] = "FIsSet"]
              ELSE /\ pc' = [pc EXCEPT ![MainId] = "GGet"]
                   /\ UNCHANGED << out, bad, finished, buf, wf, batch >>
        /\ UNCHANGED << sending, dataCnt, workQ, resQ, stopEv, runEv, feederOn, 
                        feederDone, fcall, wstate, procs, widCounter, replQ, 
                        replOn, replDone, rcall, done, cno, outs, finishedAll, 
                        woken, qn, i, sw, dc, rs, k, mycall, t, s, rid, j, 
                        slot, myrc, nw, item, q >>

GGet == /\ pc[MainId] = "GGet"
        /\ resQ # <<>>
        /\ LET st == Consume((IF Head(resQ).k # "wake" THEN <<Head(resQ)>> ELSE <<>>), [buf |-> buf, wf |-> wf, out |-> out, fin |-> finished, bad |-> bad], Calls[cno].ord) IN
             /\ buf' = st.buf
             /\ wf' = st.wf
             /\ out' = st.out
             /\ finished' = st.fin
             /\ bad' = st.bad
        /\ batch' = <<>>
        /\ resQ' = Tail(resQ)
        /\ IF ~Calls[cno].ord
              THEN /\ pc' = [pc EXCEPT ![MainId] = "LRdS"]
              ELSE /\ IF Cardinality(buf') >= ResMax
                         THEN /\ pc' = [pc EXCEPT ![MainId] = "FClear"]
                         ELSE /\ pc' = [pc EXCEPT ![MainId] = "FIsSet"]
        /\ UNCHANGED << sending, dataCnt, workQ, resLock, stopEv, runEv, 
                        feederOn, feederDone, fcall, wstate, procs, widCounter, 
                        replQ, replOn, replDone, rcall, done, cno, outs, 
                        finishedAll, woken, qn, i, sw, dc, rs, k, mycall, t, s, 
                        rid, j, slot, myrc, nw, item, q >>

FClear == /\ pc[MainId] = "FClear"
          /\ runEv' = FALSE
          /\ pc' = [pc EXCEPT ![MainId] = "LRdS"]
          /\ UNCHANGED << sending, dataCnt, workQ, resQ, resLock, stopEv, 
                          feederOn, feederDone, fcall, wstate, procs, 
                          widCounter, replQ, replOn, replDone, rcall, done, 
                          cno, out, outs, bad, finishedAll, finished, buf, wf, 
                          batch, woken, qn, i, sw, dc, rs, k, mycall, t, s, 
                          rid, j, slot, myrc, nw, item, q >>

FIsSet == /\ pc[MainId] = "FIsSet"
          /\ rs' = runEv
          /\ IF rs'
                THEN /\ pc' = [pc EXCEPT ![MainId] = "LRdS"]
                ELSE /\ pc' = [pc EXCEPT ![MainId] = "FSet"]
          /\ UNCHANGED << sending, dataCnt, workQ, resQ, resLock, stopEv, 
                          runEv, feederOn, feederDone, fcall, wstate, procs, 
                          widCounter, replQ, replOn, replDone, rcall, done, 
                          cno, out, outs, bad, finishedAll, finished, buf, wf, 
                          batch, woken, qn, i, sw, dc, k, mycall, t, s, rid, j, 
                          slot, myrc, nw, item, q >>

FSet == /\ pc[MainId] = "FSet"
        /\ runEv' = TRUE
        /\ pc' = [pc EXCEPT ![MainId] = "LRdS"]
        /\ UNCHANGED << sending, dataCnt, workQ, resQ, resLock, stopEv, 
                        feederOn, feederDone, fcall, wstate, procs, widCounter, 
                        replQ, replOn, replDone, rcall, done, cno, out, outs, 
                        bad, finishedAll, finished, buf, wf, batch, woken, qn, 
                        i, sw, dc, rs, k, mycall, t, s, rid, j, slot, myrc, nw, 
                        item, q >>

CStop == /\ pc[MainId] = "CStop"
         /\ stopEv' = TRUE
         /\ pc' = [pc EXCEPT ![MainId] = "CJoin"]
         /\ UNCHANGED << sending, dataCnt, workQ, resQ, resLock, runEv, 
                         feederOn, feederDone, fcall, wstate, procs, 
                         widCounter, replQ, replOn, replDone, rcall, done, cno, 
                         out, outs, bad, finishedAll, finished, buf, wf, batch, 
                         woken, qn, i, sw, dc, rs, k, mycall, t, s, rid, j, 
                         slot, myrc, nw, item, q >>

CJoin == /\ pc[MainId] = "CJoin"
         /\ feederDone
         /\ feederOn' = FALSE
         /\ pc' = [pc EXCEPT ![MainId] = "RStopPut"]
         /\ UNCHANGED << sending, dataCnt, workQ, resQ, resLock, stopEv, runEv, 
                         feederDone, fcall, wstate, procs, widCounter, replQ, 
                         replOn, replDone, rcall, done, cno, out, outs, bad, 
                         finishedAll, finished, buf, wf, batch, woken, qn, i, 
                         sw, dc, rs, k, mycall, t, s, rid, j, slot, myrc, nw, 
                         item, q >>

RStopPut == /\ pc[MainId] = "RStopPut"
            /\ replQ' = Append(replQ, 0)
            /\ pc' = [pc EXCEPT ![MainId] = "RStopSet"]
            /\ UNCHANGED << sending, dataCnt, workQ, resQ, resLock, stopEv, 
                            runEv, feederOn, feederDone, fcall, wstate, procs, 
                            widCounter, replOn, replDone, rcall, done, cno, 
                            out, outs, bad, finishedAll, finished, buf, wf, 
                            batch, woken, qn, i, sw, dc, rs, k, mycall, t, s, 
                            rid, j, slot, myrc, nw, item, q >>

RStopSet == /\ pc[MainId] = "RStopSet"
            /\ TRUE
            /\ pc' = [pc EXCEPT ![MainId] = "RJoin"]
            /\ UNCHANGED << sending, dataCnt, workQ, resQ, resLock, stopEv, 
                            runEv, feederOn, feederDone, fcall, wstate, procs, 
                            widCounter, replQ, replOn, replDone, rcall, done, 
                            cno, out, outs, bad, finishedAll, finished, buf, 
                            wf, batch, woken, qn, i, sw, dc, rs, k, mycall, t, 
                            s, rid, j, slot, myrc, nw, item, q >>

RJoin == /\ pc[MainId] = "RJoin"
         /\ replDone
         /\ replOn' = FALSE
         /\ outs' = Append(outs, out)
         /\ cno' = cno + 1
         /\ IF cno' <= Len(Calls)
               THEN /\ pc' = [pc EXCEPT ![MainId] = "RRunSet"]
                    /\ i' = i
               ELSE /\ i' = 1
                    /\ pc' = [pc EXCEPT ![MainId] = "XPut"]
         /\ UNCHANGED << sending, dataCnt, workQ, resQ, resLock, stopEv, runEv, 
                         feederOn, feederDone, fcall, wstate, procs, 
                         widCounter, replQ, replDone, rcall, done, out, bad, 
                         finishedAll, finished, buf, wf, batch, woken, qn, sw, 
                         dc, rs, k, mycall, t, s, rid, j, slot, myrc, nw, item, 
                         q >>

XPut == /\ pc[MainId] = "XPut"
        /\ ~Full(workQ, WorkCap)
        /\ workQ' = Append(workQ, NoneTok)
        /\ IF i < NW
              THEN /\ i' = i + 1
                   /\ pc' = [pc EXCEPT ![MainId] = "XPut"]
              ELSE /\ i' = 1
                   /\ pc' = [pc EXCEPT ![MainId] = "XIter"]
        /\ UNCHANGED << sending, dataCnt, resQ, resLock, stopEv, runEv, 
                        feederOn, feederDone, fcall, wstate, procs, widCounter, 
                        replQ, replOn, replDone, rcall, done, cno, out, outs, 
                        bad, finishedAll, finished, buf, wf, batch, woken, qn, 
                        sw, dc, rs, k, mycall, t, s, rid, j, slot, myrc, nw, 
                        item, q >>

XIter == /\ pc[MainId] = "XIter"
         /\ IF i <= NW
               THEN /\ pc' = [pc EXCEPT ![MainId] = "XCode"]
                    /\ UNCHANGED finishedAll
               ELSE /\ finishedAll' = TRUE
                    /\ pc' = [pc EXCEPT ![MainId] = "Done"]
         /\ UNCHANGED << sending, dataCnt, workQ, resQ, resLock, stopEv, runEv, 
                         feederOn, feederDone, fcall, wstate, procs, 
                         widCounter, replQ, replOn, replDone, rcall, done, cno, 
                         out, outs, bad, finished, buf, wf, batch, woken, qn, 
                         i, sw, dc, rs, k, mycall, t, s, rid, j, slot, myrc, 
                         nw, item, q >>

XCode == /\ pc[MainId] = "XCode"
         /\ IF wstate[procs[i]] = "exited"
               THEN /\ i' = i + 1
                    /\ pc' = [pc EXCEPT ![MainId] = "XIter"]
               ELSE /\ pc' = [pc EXCEPT ![MainId] = "XJoin"]
                    /\ i' = i
         /\ UNCHANGED << sending, dataCnt, workQ, resQ, resLock, stopEv, runEv, 
                         feederOn, feederDone, fcall, wstate, procs, 
                         widCounter, replQ, replOn, replDone, rcall, done, cno, 
                         out, outs, bad, finishedAll, finished, buf, wf, batch, 
                         woken, qn, sw, dc, rs, k, mycall, t, s, rid, j, slot, 
                         myrc, nw, item, q >>

XJoin == /\ pc[MainId] = "XJoin"
         /\ wstate[procs[i]] = "exited"
         /\ pc' = [pc EXCEPT ![MainId] = "XCode2"]
         /\ UNCHANGED << sending, dataCnt, workQ, resQ, resLock, stopEv, runEv, 
                         feederOn, feederDone, fcall, wstate, procs, 
                         widCounter, replQ, replOn, replDone, rcall, done, cno, 
                         out, outs, bad, finishedAll, finished, buf, wf, batch, 
                         woken, qn, i, sw, dc, rs, k, mycall, t, s, rid, j, 
                         slot, myrc, nw, item, q >>

XCode2 == /\ pc[MainId] = "XCode2"
          /\ i' = i + 1
          /\ pc' = [pc EXCEPT ![MainId] = "XIter"]
          /\ UNCHANGED << sending, dataCnt, workQ, resQ, resLock, stopEv, 
                          runEv, feederOn, feederDone, fcall, wstate, procs, 
                          widCounter, replQ, replOn, replDone, rcall, done, 
                          cno, out, outs, bad, finishedAll, finished, buf, wf, 
                          batch, woken, qn, sw, dc, rs, k, mycall, t, s, rid, 
                          j, slot, myrc, nw, item, q >>

Main == EIter \/ EStart \/ RRunSet \/ RStart \/ CRunSet \/ CWrS \/ CWrD
           \/ CStart \/ LRdS \/ LRdD \/ GSize \/ GAcq \/ GSize2 \/ GGetNB
           \/ GRel \/ GGet \/ FClear \/ FIsSet \/ FSet \/ CStop \/ CJoin
           \/ RStopPut \/ RStopSet \/ RJoin \/ XPut \/ XIter \/ XCode
           \/ XJoin \/ XCode2

FWait == /\ pc[FeederId] = "FWait"
         /\ feederOn /\ ~feederDone /\ mycall < fcall
         /\ mycall' = fcall
         /\ k' = 0
         /\ IF Fixed
               THEN /\ IF Calls[mycall'].n = 0
                          THEN /\ pc' = [pc EXCEPT ![FeederId] = "FWrS"]
                          ELSE /\ pc' = [pc EXCEPT ![FeederId] = "FPut"]
               ELSE /\ pc' = [pc EXCEPT ![FeederId] = "PWrS"]
         /\ UNCHANGED << sending, dataCnt, workQ, resQ, resLock, stopEv, runEv, 
                         feederOn, feederDone, fcall, wstate, procs, 
                         widCounter, replQ, replOn, replDone, rcall, done, cno, 
                         out, outs, bad, finishedAll, finished, buf, wf, batch, 
                         woken, qn, i, sw, dc, rs, t, s, rid, j, slot, myrc, 
                         nw, item, q >>

PWrS == /\ pc[FeederId] = "PWrS"
        /\ sending' = TRUE
        /\ pc' = [pc EXCEPT ![FeederId] = "PWrD"]
        /\ UNCHANGED << dataCnt, workQ, resQ, resLock, stopEv, runEv, feederOn, 
                        feederDone, fcall, wstate, procs, widCounter, replQ, 
                        replOn, replDone, rcall, done, cno, out, outs, bad, 
                        finishedAll, finished, buf, wf, batch, woken, qn, i, 
                        sw, dc, rs, k, mycall, t, s, rid, j, slot, myrc, nw, 
                        item, q >>

PWrD == /\ pc[FeederId] = "PWrD"
        /\ dataCnt' = 0
        /\ IF Calls[mycall].n = 0
              THEN /\ pc' = [pc EXCEPT ![FeederId] = "FWrS"]
              ELSE /\ pc' = [pc EXCEPT ![FeederId] = "FPut"]
        /\ UNCHANGED << sending, workQ, resQ, resLock, stopEv, runEv, feederOn, 
                        feederDone, fcall, wstate, procs, widCounter, replQ, 
                        replOn, replDone, rcall, done, cno, out, outs, bad, 
                        finishedAll, finished, buf, wf, batch, woken, qn, i, 
                        sw, dc, rs, k, mycall, t, s, rid, j, slot, myrc, nw, 
                        item, q >>

FPut == /\ pc[FeederId] = "FPut"
        /\ ~Full(workQ, WorkCap)
        /\ workQ' = Append(workQ, [k |-> "work", c |-> mycall, i |-> k])
        /\ pc' = [pc EXCEPT ![FeederId] = "FRdD"]
        /\ UNCHANGED << sending, dataCnt, resQ, resLock, stopEv, runEv, 
                        feederOn, feederDone, fcall, wstate, procs, widCounter, 
                        replQ, replOn, replDone, rcall, done, cno, out, outs, 
                        bad, finishedAll, finished, buf, wf, batch, woken, qn, 
                        i, sw, dc, rs, k, mycall, t, s, rid, j, slot, myrc, nw, 
                        item, q >>

FRdD == /\ pc[FeederId] = "FRdD"
        /\ t' = dataCnt
        /\ pc' = [pc EXCEPT ![FeederId] = "FWrD"]
        /\ UNCHANGED << sending, dataCnt, workQ, resQ, resLock, stopEv, runEv, 
                        feederOn, feederDone, fcall, wstate, procs, widCounter, 
                        replQ, replOn, replDone, rcall, done, cno, out, outs, 
                        bad, finishedAll, finished, buf, wf, batch, woken, qn, 
                        i, sw, dc, rs, k, mycall, s, rid, j, slot, myrc, nw, 
                        item, q >>

FWrD == /\ pc[FeederId] = "FWrD"
        /\ dataCnt' = t + 1
        /\ k' = k + 1
        /\ pc' = [pc EXCEPT ![FeederId] = "FStop"]
        /\ UNCHANGED << sending, workQ, resQ, resLock, stopEv, runEv, feederOn, 
                        feederDone, fcall, wstate, procs, widCounter, replQ, 
                        replOn, replDone, rcall, done, cno, out, outs, bad, 
                        finishedAll, finished, buf, wf, batch, woken, qn, i, 
                        sw, dc, rs, mycall, t, s, rid, j, slot, myrc, nw, item, 
                        q >>

FStop == /\ pc[FeederId] = "FStop"
         /\ s' = stopEv
         /\ IF s'
               THEN /\ pc' = [pc EXCEPT ![FeederId] = "FWrS"]
               ELSE /\ pc' = [pc EXCEPT ![FeederId] = "FRun"]
         /\ UNCHANGED << sending, dataCnt, workQ, resQ, resLock, stopEv, runEv, 
                         feederOn, feederDone, fcall, wstate, procs, 
                         widCounter, replQ, replOn, replDone, rcall, done, cno, 
                         out, outs, bad, finishedAll, finished, buf, wf, batch, 
                         woken, qn, i, sw, dc, rs, k, mycall, t, rid, j, slot, 
                         myrc, nw, item, q >>

FRun == /\ pc[FeederId] = "FRun"
        /\ runEv
        /\ IF k < Calls[mycall].n
              THEN /\ pc' = [pc EXCEPT ![FeederId] = "FPut"]
              ELSE /\ pc' = [pc EXCEPT ![FeederId] = "FWrS"]
        /\ UNCHANGED << sending, dataCnt, workQ, resQ, resLock, stopEv, runEv, 
                        feederOn, feederDone, fcall, wstate, procs, widCounter, 
                        replQ, replOn, replDone, rcall, done, cno, out, outs, 
                        bad, finishedAll, finished, buf, wf, batch, woken, qn, 
                        i, sw, dc, rs, k, mycall, t, s, rid, j, slot, myrc, nw, 
                        item, q >>

FWrS == /\ pc[FeederId] = "FWrS"
        /\ sending' = FALSE
        /\ IF ~Fixed
              THEN /\ feederDone' = TRUE
                   /\ pc' = [pc EXCEPT ![FeederId] = "FWait"]
              ELSE /\ pc' = [pc EXCEPT ![FeederId] = "FWake"]
                   /\ UNCHANGED feederDone
        /\ UNCHANGED << dataCnt, workQ, resQ, resLock, stopEv, runEv, feederOn, 
                        fcall, wstate, procs, widCounter, replQ, replOn, 
                        replDone, rcall, done, cno, out, outs, bad, 
                        finishedAll, finished, buf, wf, batch, woken, qn, i, 
                        sw, dc, rs, k, mycall, t, s, rid, j, slot, myrc, nw, 
                        item, q >>

FWake == /\ pc[FeederId] = "FWake"
         /\ IF ~Full(resQ, ResCap)
               THEN /\ resQ' = Append(resQ, WakeTok)
               ELSE /\ TRUE
                    /\ resQ' = resQ
         /\ feederDone' = TRUE
         /\ pc' = [pc EXCEPT ![FeederId] = "FWait"]
         /\ UNCHANGED << sending, dataCnt, workQ, resLock, stopEv, runEv, 
                         feederOn, fcall, wstate, procs, widCounter, replQ, 
                         replOn, replDone, rcall, done, cno, out, outs, bad, 
                         finishedAll, finished, buf, wf, batch, woken, qn, i, 
                         sw, dc, rs, k, mycall, t, s, rid, j, slot, myrc, nw, 
                         item, q >>

Feeder == FWait \/ PWrS \/ PWrD \/ FPut \/ FRdD \/ FWrD \/ FStop \/ FRun
             \/ FWrS \/ FWake

RWait == /\ pc[ReplId] = "RWait"
         /\ replOn /\ ~replDone /\ myrc < rcall
         /\ myrc' = rcall
         /\ pc' = [pc EXCEPT ![ReplId] = "RGet"]
         /\ UNCHANGED << sending, dataCnt, workQ, resQ, resLock, stopEv, runEv, 
                         feederOn, feederDone, fcall, wstate, procs, 
                         widCounter, replQ, replOn, replDone, rcall, done, cno, 
                         out, outs, bad, finishedAll, finished, buf, wf, batch, 
                         woken, qn, i, sw, dc, rs, k, mycall, t, s, rid, j, 
                         slot, nw, item, q >>

RGet == /\ pc[ReplId] = "RGet"
        /\ replQ # <<>>
        /\ rid' = Head(replQ)
        /\ replQ' = Tail(replQ)
        /\ j' = 1
        /\ IF rid' = 0
              THEN /\ replDone' = TRUE
                   /\ pc' = [pc EXCEPT ![ReplId] = "RWait"]
              ELSE /\ pc' = [pc EXCEPT ![ReplId] = "RIter"]
                   /\ UNCHANGED replDone
        /\ UNCHANGED << sending, dataCnt, workQ, resQ, resLock, stopEv, runEv, 
                        feederOn, feederDone, fcall, wstate, procs, widCounter, 
                        replOn, rcall, done, cno, out, outs, bad, finishedAll, 
                        finished, buf, wf, batch, woken, qn, i, sw, dc, rs, k, 
                        mycall, t, s, slot, myrc, nw, item, q >>

RIter == /\ pc[ReplId] = "RIter"
         /\ IF procs[j] # rid
               THEN /\ j' = j + 1
                    /\ pc' = [pc EXCEPT ![ReplId] = "RIter"]
                    /\ slot' = slot
               ELSE /\ slot' = j
                    /\ pc' = [pc EXCEPT ![ReplId] = "RJoinW"]
                    /\ j' = j
         /\ UNCHANGED << sending, dataCnt, workQ, resQ, resLock, stopEv, runEv, 
                         feederOn, feederDone, fcall, wstate, procs, 
                         widCounter, replQ, replOn, replDone, rcall, done, cno, 
                         out, outs, bad, finishedAll, finished, buf, wf, batch, 
                         woken, qn, i, sw, dc, rs, k, mycall, t, s, rid, myrc, 
                         nw, item, q >>

RJoinW == /\ pc[ReplId] = "RJoinW"
          /\ wstate[rid] = "exited"
          /\ pc' = [pc EXCEPT ![ReplId] = "RCode"]
          /\ UNCHANGED << sending, dataCnt, workQ, resQ, resLock, stopEv, 
                          runEv, feederOn, feederDone, fcall, wstate, procs, 
                          widCounter, replQ, replOn, replDone, rcall, done, 
                          cno, out, outs, bad, finishedAll, finished, buf, wf, 
                          batch, woken, qn, i, sw, dc, rs, k, mycall, t, s, 
                          rid, j, slot, myrc, nw, item, q >>

RCode == /\ pc[ReplId] = "RCode"
         /\ TRUE
         /\ pc' = [pc EXCEPT ![ReplId] = "RWid1"]
         /\ UNCHANGED << sending, dataCnt, workQ, resQ, resLock, stopEv, runEv, 
                         feederOn, feederDone, fcall, wstate, procs, 
                         widCounter, replQ, replOn, replDone, rcall, done, cno, 
                         out, outs, bad, finishedAll, finished, buf, wf, batch, 
                         woken, qn, i, sw, dc, rs, k, mycall, t, s, rid, j, 
                         slot, myrc, nw, item, q >>

RWid1 == /\ pc[ReplId] = "RWid1"
         /\ nw' = widCounter
         /\ pc' = [pc EXCEPT ![ReplId] = "RWid2"]
         /\ UNCHANGED << sending, dataCnt, workQ, resQ, resLock, stopEv, runEv, 
                         feederOn, feederDone, fcall, wstate, procs, 
                         widCounter, replQ, replOn, replDone, rcall, done, cno, 
                         out, outs, bad, finishedAll, finished, buf, wf, batch, 
                         woken, qn, i, sw, dc, rs, k, mycall, t, s, rid, j, 
                         slot, myrc, item, q >>

RWid2 == /\ pc[ReplId] = "RWid2"
         /\ nw' = widCounter
         /\ pc' = [pc EXCEPT ![ReplId] = "RWid3"]
         /\ UNCHANGED << sending, dataCnt, workQ, resQ, resLock, stopEv, runEv, 
                         feederOn, feederDone, fcall, wstate, procs, 
                         widCounter, replQ, replOn, replDone, rcall, done, cno, 
                         out, outs, bad, finishedAll, finished, buf, wf, batch, 
                         woken, qn, i, sw, dc, rs, k, mycall, t, s, rid, j, 
                         slot, myrc, item, q >>

RWid3 == /\ pc[ReplId] = "RWid3"
         /\ widCounter' = nw + 1
         /\ pc' = [pc EXCEPT ![ReplId] = "RSet"]
         /\ UNCHANGED << sending, dataCnt, workQ, resQ, resLock, stopEv, runEv, 
                         feederOn, feederDone, fcall, wstate, procs, replQ, 
                         replOn, replDone, rcall, done, cno, out, outs, bad, 
                         finishedAll, finished, buf, wf, batch, woken, qn, i, 
                         sw, dc, rs, k, mycall, t, s, rid, j, slot, myrc, nw, 
                         item, q >>

RSet == /\ pc[ReplId] = "RSet"
        /\ procs' = [procs EXCEPT ![slot] = nw + 1]
        /\ wstate' = [wstate EXCEPT ![nw + 1] = "new"]
        /\ pc' = [pc EXCEPT ![ReplId] = "RGetS"]
        /\ UNCHANGED << sending, dataCnt, workQ, resQ, resLock, stopEv, runEv, 
                        feederOn, feederDone, fcall, widCounter, replQ, replOn, 
                        replDone, rcall, done, cno, out, outs, bad, 
                        finishedAll, finished, buf, wf, batch, woken, qn, i, 
                        sw, dc, rs, k, mycall, t, s, rid, j, slot, myrc, nw, 
                        item, q >>

RGetS == /\ pc[ReplId] = "RGetS"
         /\ TRUE
         /\ pc' = [pc EXCEPT ![ReplId] = "RStartW"]
         /\ UNCHANGED << sending, dataCnt, workQ, resQ, resLock, stopEv, runEv, 
                         feederOn, feederDone, fcall, wstate, procs, 
                         widCounter, replQ, replOn, replDone, rcall, done, cno, 
                         out, outs, bad, finishedAll, finished, buf, wf, batch, 
                         woken, qn, i, sw, dc, rs, k, mycall, t, s, rid, j, 
                         slot, myrc, nw, item, q >>

RStartW == /\ pc[ReplId] = "RStartW"
           /\ wstate' = [wstate EXCEPT ![procs[slot]] = "started"]
           /\ pc' = [pc EXCEPT ![ReplId] = "RGet"]
           /\ UNCHANGED << sending, dataCnt, workQ, resQ, resLock, stopEv, 
                           runEv, feederOn, feederDone, fcall, procs, 
                           widCounter, replQ, replOn, replDone, rcall, done, 
                           cno, out, outs, bad, finishedAll, finished, buf, wf, 
                           batch, woken, qn, i, sw, dc, rs, k, mycall, t, s, 
                           rid, j, slot, myrc, nw, item, q >>

Repl == RWait \/ RGet \/ RIter \/ RJoinW \/ RCode \/ RWid1 \/ RWid2
           \/ RWid3 \/ RSet \/ RGetS \/ RStartW

WStart(self) == /\ pc[self] = "WStart"
                /\ wstate[self] = "started"
                /\ pc' = [pc EXCEPT ![self] = "WClear"]
                /\ UNCHANGED << sending, dataCnt, workQ, resQ, resLock, stopEv, 
                                runEv, feederOn, feederDone, fcall, wstate, 
                                procs, widCounter, replQ, replOn, replDone, 
                                rcall, done, cno, out, outs, bad, finishedAll, 
                                finished, buf, wf, batch, woken, qn, i, sw, dc, 
                                rs, k, mycall, t, s, rid, j, slot, myrc, nw, 
                                item, q >>

WClear(self) == /\ pc[self] = "WClear"
                /\ TRUE
                /\ pc' = [pc EXCEPT ![self] = "WSet"]
                /\ UNCHANGED << sending, dataCnt, workQ, resQ, resLock, stopEv, 
                                runEv, feederOn, feederDone, fcall, wstate, 
                                procs, widCounter, replQ, replOn, replDone, 
                                rcall, done, cno, out, outs, bad, finishedAll, 
                                finished, buf, wf, batch, woken, qn, i, sw, dc, 
                                rs, k, mycall, t, s, rid, j, slot, myrc, nw, 
                                item, q >>

WSet(self) == /\ pc[self] = "WSet"
              /\ TRUE
              /\ pc' = [pc EXCEPT ![self] = "WGet"]
              /\ UNCHANGED << sending, dataCnt, workQ, resQ, resLock, stopEv, 
                              runEv, feederOn, feederDone, fcall, wstate, 
                              procs, widCounter, replQ, replOn, replDone, 
                              rcall, done, cno, out, outs, bad, finishedAll, 
                              finished, buf, wf, batch, woken, qn, i, sw, dc, 
                              rs, k, mycall, t, s, rid, j, slot, myrc, nw, 
                              item, q >>

WGet(self) == /\ pc[self] = "WGet"
              /\ workQ # <<>>
              /\ item' = [item EXCEPT ![self] = Head(workQ)]
              /\ workQ' = Tail(workQ)
              /\ IF item'[self].k = "none"
                    THEN /\ wstate' = [wstate EXCEPT ![self] = "exited"]
                         /\ pc' = [pc EXCEPT ![self] = "Done"]
                    ELSE /\ pc' = [pc EXCEPT ![self] = "WAcq"]
                         /\ UNCHANGED wstate
              /\ UNCHANGED << sending, dataCnt, resQ, resLock, stopEv, runEv, 
                              feederOn, feederDone, fcall, procs, widCounter, 
                              replQ, replOn, replDone, rcall, done, cno, out, 
                              outs, bad, finishedAll, finished, buf, wf, batch, 
                              woken, qn, i, sw, dc, rs, k, mycall, t, s, rid, 
                              j, slot, myrc, nw, q >>

WAcq(self) == /\ pc[self] = "WAcq"
              /\ resLock = -1
              /\ resLock' = self
              /\ pc' = [pc EXCEPT ![self] = "WPutNB"]
              /\ UNCHANGED << sending, dataCnt, workQ, resQ, stopEv, runEv, 
                              feederOn, feederDone, fcall, wstate, procs, 
                              widCounter, replQ, replOn, replDone, rcall, done, 
                              cno, out, outs, bad, finishedAll, finished, buf, 
                              wf, batch, woken, qn, i, sw, dc, rs, k, mycall, 
                              t, s, rid, j, slot, myrc, nw, item, q >>

WPutNB(self) == /\ pc[self] = "WPutNB"
                /\ IF ~Full(resQ, ResCap)
                      THEN /\ resQ' = Append(resQ, [k |-> "res", c |-> item[self].c, i |-> item[self].i])
                           /\ pc' = [pc EXCEPT ![self] = "WRel"]
                      ELSE /\ pc' = [pc EXCEPT ![self] = "WRelF"]
                           /\ resQ' = resQ
                /\ UNCHANGED << sending, dataCnt, workQ, resLock, stopEv, 
                                runEv, feederOn, feederDone, fcall, wstate, 
                                procs, widCounter, replQ, replOn, replDone, 
                                rcall, done, cno, out, outs, bad, finishedAll, 
                                finished, buf, wf, batch, woken, qn, i, sw, dc, 
                                rs, k, mycall, t, s, rid, j, slot, myrc, nw, 
                                item, q >>

WRel(self) == /\ pc[self] = "WRel"
              /\ resLock' = -1
              /\ done' = [done EXCEPT ![self] = done[self] + 1]
              /\ q' = [q EXCEPT ![self] = q[self] - 1]
              /\ IF q'[self] > 0
                    THEN /\ pc' = [pc EXCEPT ![self] = "WGet"]
                    ELSE /\ pc' = [pc EXCEPT ![self] = "WRetire"]
              /\ UNCHANGED << sending, dataCnt, workQ, resQ, stopEv, runEv, 
                              feederOn, feederDone, fcall, wstate, procs, 
                              widCounter, replQ, replOn, replDone, rcall, cno, 
                              out, outs, bad, finishedAll, finished, buf, wf, 
                              batch, woken, qn, i, sw, dc, rs, k, mycall, t, s, 
                              rid, j, slot, myrc, nw, item >>

WRelF(self) == /\ pc[self] = "WRelF"
               /\ resLock' = -1
               /\ pc' = [pc EXCEPT ![self] = "WPut"]
               /\ UNCHANGED << sending, dataCnt, workQ, resQ, stopEv, runEv, 
                               feederOn, feederDone, fcall, wstate, procs, 
                               widCounter, replQ, replOn, replDone, rcall, 
                               done, cno, out, outs, bad, finishedAll, 
                               finished, buf, wf, batch, woken, qn, i, sw, dc, 
                               rs, k, mycall, t, s, rid, j, slot, myrc, nw, 
                               item, q >>

WPut(self) == /\ pc[self] = "WPut"
              /\ ~Full(resQ, ResCap)
              /\ resQ' = Append(resQ, [k |-> "res", c |-> item[self].c, i |-> item[self].i])
              /\ done' = [done EXCEPT ![self] = done[self] + 1]
              /\ q' = [q EXCEPT ![self] = q[self] - 1]
              /\ IF q'[self] > 0
                    THEN /\ pc' = [pc EXCEPT ![self] = "WGet"]
                    ELSE /\ pc' = [pc EXCEPT ![self] = "WRetire"]
              /\ UNCHANGED << sending, dataCnt, workQ, resLock, stopEv, runEv, 
                              feederOn, feederDone, fcall, wstate, procs, 
                              widCounter, replQ, replOn, replDone, rcall, cno, 
                              out, outs, bad, finishedAll, finished, buf, wf, 
                              batch, woken, qn, i, sw, dc, rs, k, mycall, t, s, 
                              rid, j, slot, myrc, nw, item >>

WRetire(self) == /\ pc[self] = "WRetire"
                 /\ replQ' = Append(replQ, self)
                 /\ wstate' = [wstate EXCEPT ![self] = "exited"]
                 /\ pc' = [pc EXCEPT ![self] = "Done"]
                 /\ UNCHANGED << sending, dataCnt, workQ, resQ, resLock, 
                                 stopEv, runEv, feederOn, feederDone, fcall, 
                                 procs, widCounter, replOn, replDone, rcall, 
                                 done, cno, out, outs, bad, finishedAll, 
                                 finished, buf, wf, batch, woken, qn, i, sw, 
                                 dc, rs, k, mycall, t, s, rid, j, slot, myrc, 
                                 nw, item, q >>

W(self) == WStart(self) \/ WClear(self) \/ WSet(self) \/ WGet(self)
              \/ WAcq(self) \/ WPutNB(self) \/ WRel(self) \/ WRelF(self)
              \/ WPut(self) \/ WRetire(self)

(* Allow infinite stuttering to prevent deadlock on termination. *)
Terminating == /\ \A self \in ProcSet: pc[self] = "Done"
               /\ UNCHANGED vars

Next == Main \/ Feeder \/ Repl
           \/ (\E self \in Workers: W(self))
           \/ Terminating

Spec == Init /\ [][Next]_vars

Termination == <>(\A self \in ProcSet: pc[self] = "Done")

\* END TRANSLATION

\* C02: no state in which something is still to be done and nobody can move (the feeder waiting for the next
\* call and exited workers do not count)
NoDeadlock == finishedAll \/ ENABLED Next
\* C02 as liveness, under weak fairness of every process
AllCallsEnd == <>finishedAll
FairSpec == Spec /\ WF_vars(Main) /\ WF_vars(Feeder) /\ WF_vars(Repl) /\ \A w \in Workers : WF_vars(W(w))

\* visible-operation kind of every label (binding to recorded executions of the real code); labels with kind
\* "local" have no visible operation of their own: they are fused with the preceding step when replayed
KindOf(l) == CASE l \in {"EIter", "XIter", "RIter"} -> "slots.iter"
               [] l \in {"EStart", "CStart", "RStart", "RStartW"} -> "start"
               [] l \in {"FWait", "WStart", "RWait"} -> "task-start"
               [] l \in {"CRunSet", "FSet", "CStop", "WSet", "RRunSet", "RStopSet"} -> "ev.set"
               [] l \in {"CWrS", "CWrD", "PWrS", "PWrD", "FWrD", "FWrS", "RWid3"} -> "wr"
               [] l \in {"LRdS", "LRdD", "FRdD", "RWid1", "RWid2"} -> "rd"
               [] l \in {"GSize", "GSize2"} -> "q.qsize"
               [] l \in {"GAcq", "WAcq"} -> "lock.acq"
               [] l \in {"GRel", "WRel", "WRelF"} -> "lock.rel"
               [] l \in {"GGetNB"} -> "q.get_nb"
               [] l \in {"GGet", "WGet", "RGet"} -> "q.get"
               [] l \in {"FPut", "XPut", "WPut", "RStopPut", "WRetire"} -> "q.put"
               [] l \in {"WPutNB", "FWake"} -> "q.put_nb"
               [] l \in {"FClear", "WClear"} -> "ev.clear"
               [] l \in {"FIsSet", "FStop"} -> "ev.is_set"
               [] l \in {"FRun"} -> "ev.wait"
               [] l \in {"CJoin", "XJoin", "RJoin", "RJoinW"} -> "join"
               [] l \in {"XCode", "XCode2", "RCode"} -> "exitcode"
               [] l \in {"RSet"} -> "slots.set"
               [] l \in {"RGetS"} -> "slots.get"
               [] OTHER -> "local"
=============================================================================
