-------------------------- MODULE MC_ForkedReaders --------------------------
EXTENDS ForkedReaders
\* parent + two children; scripts chosen so that every process wants a different line at every moment
S3a == (0 :> <<2>>) @@ (1 :> <<7>>) @@ (2 :> <<4>>)
S3b == (0 :> <<2, 5>>) @@ (1 :> <<7, 1>>) @@ (2 :> <<4, 8>>)
S4 == (0 :> <<2>>) @@ (1 :> <<7>>) @@ (2 :> <<4>>) @@ (3 :> <<9>>)
=============================================================================
