---------------------------- MODULE ForkedReaders ----------------------------
(* C18 - one opened line / map file read from many forked processes at once.

   The essential fact is an operating-system one: a forked child shares the parent's open file
   description (OFD) and therefore its offset.  The model has OFDs with an offset (counted in lines),
   per process a handle (which OFD its file object uses) and the pid recorded in the object when it was
   opened.  An access to line i is two steps that touch the OFD - Seek and Read - each preceded by the
   "was I opened in another process?" check; another process can fall between them.
   Reopen = TRUE is the design (the check re-opens the file, giving the process its own OFD);
   Reopen = FALSE is the negative control.  Kind "mmap": the read position lives in the process's own
   copy of the mapping object, so it is private even without re-opening.
   `hist` records the schedule; every complete behaviour is replayed into real forked processes.        *)
EXTENDS Naturals, Sequences, FiniteSets, TLC, Json

CONSTANTS Procs,        \* 0 = the process that opened the file, others = forked descendants of any depth (children, grandchildren)
          Scripts,      \* process -> sequence of line numbers it reads
          Kind,         \* "buffered" | "mmap"
          Reopen
VARIABLES off,          \* OFD id -> offset (line number the next read returns); OFD 0 = the one opened by the parent
          handle,       \* process -> OFD id its object uses
          opener,       \* process -> pid recorded in its copy of the object
          step,         \* process -> number of Seek/Read steps done
          results,      \* process -> sequence of lines read
          hist
vars == <<off, handle, opener, step, results, hist>>

Init == /\ off = [d \in {0} |-> 0]
        /\ handle = [p \in Procs |-> 0]           \* fork: every child starts with a copy of the parent's object
        /\ opener = [p \in Procs |-> 0]
        /\ step = [p \in Procs |-> 0]
        /\ results = [p \in Procs |-> <<>>]
        /\ hist = <<>>
Want(p) == Scripts[p][(step[p] \div 2) + 1]
Private(p) == Kind = "mmap"
\* the check before every Seek / Read: re-open when the object was opened by another process
Checked(p) == IF Reopen /\ opener[p] # p THEN [h |-> p, o |-> p] ELSE [h |-> handle[p], o |-> opener[p]]
\* OFD ids: 0 = the parent's; p (> 0) = the one child p opened for itself; 100 + p = private position of a mapping
Dsc(p) == IF Private(p) THEN 100 + p ELSE Checked(p).h
WithOff(d, v) == [x \in DOMAIN off \cup {d} |-> IF x = d THEN v ELSE off[x]]

Seek(p) == /\ step[p] < 2 * Len(Scripts[p]) /\ step[p] % 2 = 0
           /\ handle' = [handle EXCEPT ![p] = Checked(p).h] /\ opener' = [opener EXCEPT ![p] = Checked(p).o]
           /\ off' = WithOff(Dsc(p), Want(p))
           /\ step' = [step EXCEPT ![p] = @ + 1] /\ UNCHANGED results /\ hist' = Append(hist, p)
Read(p) == /\ step[p] < 2 * Len(Scripts[p]) /\ step[p] % 2 = 1
           /\ handle' = [handle EXCEPT ![p] = Checked(p).h] /\ opener' = [opener EXCEPT ![p] = Checked(p).o]
           /\ LET d == Dsc(p)
                  cur == IF d \in DOMAIN off THEN off[d] ELSE 0
              IN /\ results' = [results EXCEPT ![p] = Append(@, cur)]
                 /\ off' = WithOff(d, cur + 1)
           /\ step' = [step EXCEPT ![p] = @ + 1] /\ hist' = Append(hist, p)
Next == \E p \in Procs : Seek(p) \/ Read(p)
Spec == Init /\ [][Next]_vars
Done == \A p \in Procs : step[p] = 2 * Len(Scripts[p])

\* every completed read returns the line the reader asked for
ReadOK == \A p \in Procs : \A k \in DOMAIN results[p] : results[p][k] = Scripts[p][k]
\* processes never operate on one description (once a process has touched the file it owns its description)
NoSharing == \A p, q \in Procs : p # q /\ step[p] > 0 /\ step[q] > 0 /\ ~Private(p) => handle[p] # handle[q]

\* every complete schedule is printed for replay
EmitSched == (Done' /\ ~Done) => PrintT(<<"SCHED", ToJson(hist')>>)
=============================================================================
