----------------------------- MODULE IntervalMap -----------------------------
(* C16 - ImmutIntervalMap: construction succeeds iff every interval has start <= end and no two share a
   point; lookup returns the value of the one closed interval containing the key.  A dictionary is the
   sequence of its (distinct) intervals in insertion order; interval i carries the value 10 + i.      *)
EXTENDS Integers, Sequences, FiniteSets, TLC, Json, SequencesExt

CONSTANTS Ends, MaxIntervals, MaxProbe
Probes == (0 - 1)..MaxProbe
Intervals == Ends \X Ends            \* includes invalid ones (start > end)
RECURSIVE SeqsOfLen(_, _)
SeqsOfLen(S, n) == IF n = 0 THEN {<<>>} ELSE {Append(s, x) : s \in SeqsOfLen(S, n - 1), x \in S}
Distinct(s) == \A i, j \in DOMAIN s : i # j => s[i] # s[j]
Domain == {d \in UNION {SeqsOfLen(Intervals, k) : k \in 0..MaxIntervals} : Distinct(d)}
Share(x, y) == x[1] <= y[2] /\ y[1] <= x[2]
Valid(d) == /\ \A i \in DOMAIN d : d[i][1] <= d[i][2]
            /\ \A i, j \in DOMAIN d : i # j => ~Share(d[i], d[j])
Holders(d, k) == {i \in DOMAIN d : d[i][1] <= k /\ k <= d[i][2]}
ProbeSeq == SetToSortSeq(Probes, LAMBDA a, b : a < b)
Def(d) == IF ~Valid(d) THEN [valid |-> 0]
          ELSE [valid |-> 1, len |-> Len(d),
                items |-> LET idx == SetToSortSeq(DOMAIN d, LAMBDA a, b : d[a][1] < d[b][1])
                          IN [n \in DOMAIN idx |-> <<d[idx[n]][1], d[idx[n]][2], 10 + idx[n]>>],
                \* per probe (ascending): value of the unique interval holding it, or -1 (KeyError)
                look |-> [n \in DOMAIN ProbeSeq |->
                            IF Holders(d, ProbeSeq[n]) = {} THEN -1 ELSE 10 + (CHOOSE i \in Holders(d, ProbeSeq[n]) : TRUE)]]
=============================================================================
