------------------------------- MODULE SpanSet -------------------------------
(* C10 - SpanSet operators follow their membership-based definitions for each of the four relations.
   A span set is given by its relation and the sequence of spans handed to the constructor
   (construction keeps a span only if it is not already "in" the set built so far).                  *)
EXTENDS Integers, Sequences, FiniteSets, TLC, Json

CONSTANTS MaxPoint, MaxLenA, MaxLenB, Rels

Spans == {<<s, e>> : s \in 0..MaxPoint, e \in 0..MaxPoint} \cap {x \in (0..MaxPoint) \X (0..MaxPoint) : x[1] <= x[2]}
\* x related to stored span y
Rel(r, x, y) == CASE r = "exact" -> x[1] = y[1] /\ x[2] = y[2]
                  [] r = "partof" -> y[1] <= x[1] /\ x[2] <= y[2]
                  [] r = "includes" -> x[1] <= y[1] /\ y[2] <= x[2]
                  [] r = "overlaps" -> x[2] >= y[1] /\ y[2] >= x[1]
InSeq(r, x, seq) == \E i \in DOMAIN seq : Rel(r, x, seq[i])
RECURSIVE Build(_, _, _)
Build(r, seq, acc) == IF seq = <<>> THEN acc
                      ELSE IF InSeq(r, seq[1], acc) THEN Build(r, Tail(seq), acc)
                      ELSE Build(r, Tail(seq), Append(acc, seq[1]))
Stored(S) == Build(S.rel, S.spans, <<>>)
In(x, S) == InSeq(S.rel, x, Stored(S))
Elems(seq) == {seq[i] : i \in DOMAIN seq}
Both(A, B) == Elems(Stored(A)) \cup Elems(Stored(B))
Subset(A, B) == \A x \in Elems(Stored(A)) : In(x, B)
EqSets(A, B) == Subset(A, B) /\ Subset(B, A)
B2I(b) == IF b THEN 1 ELSE 0

RECURSIVE SeqsOfLen(_, _)
SeqsOfLen(S, n) == IF n = 0 THEN {<<>>} ELSE {Append(s, x) : s \in SeqsOfLen(S, n - 1), x \in S}
SeqsUpTo(S, n) == UNION {SeqsOfLen(S, k) : k \in 0..n}
Domain == {[a |-> [rel |-> ra, spans |-> sa], b |-> [rel |-> rb, spans |-> sb]] :
              ra \in Rels, rb \in Rels, sa \in SeqsUpTo(Spans, MaxLenA), sb \in SeqsUpTo(Spans, MaxLenB)}
Def(c) == LET A == c.a  B == c.b IN
    [stored_a |-> Stored(A),
     and |-> {x \in Both(A, B) : In(x, A) /\ In(x, B)},
     or  |-> {x \in Both(A, B) : In(x, A) \/ In(x, B)},
     sub |-> {x \in Both(A, B) : In(x, A) /\ ~In(x, B)},
     xor |-> {x \in Both(A, B) : In(x, A) # In(x, B)},
     le |-> B2I(Subset(A, B)), lt |-> B2I(Subset(A, B) /\ ~EqSets(A, B)),
     eq |-> B2I(EqSets(A, B)), ne |-> B2I(~EqSets(A, B)),
     ge |-> B2I(Subset(B, A)), gt |-> B2I(Subset(B, A) /\ ~EqSets(B, A)),
     isdisjoint |-> B2I(\A x \in Elems(Stored(B)) : ~In(x, A)),
     issubset |-> B2I(Subset(A, B)), issuperset |-> B2I(Subset(B, A))]
=============================================================================
