---------------------------- MODULE RecordCodec ----------------------------
(* C13 (codec half) - load(save(r)) == r and save(r) occupies a single line.

   This is a pair of laws about a pure function, stated as a predicate over recorded results
   (r, line, loaded): a weak fit for a state machine, claimed at exploration level.  TLC enumerates
   the field-value domain (strings as sequences of code points over an alphabet of delimiters,
   quotes, escapes, blanks, ASCII and non-ASCII letters, plus blank-padded patterns; numbers as
   tokens into a table the harness owns because TLC integers are 32-bit) and judges every recorded
   result.  Values are flattened by the harness to sequences of code points of a canonical text, so
   that equality is type-safe in TLC.                                                                *)
EXTENDS Integers, Sequences, FiniteSets, TLC, Json

CONSTANTS Alphabet, MaxLen, NumTokens, Product

RECURSIVE SeqsOfLen(_, _)
SeqsOfLen(S, n) == IF n = 0 THEN {<<>>} ELSE {Append(s, x) : s \in SeqsOfLen(S, n - 1), x \in S}
Plain == UNION {SeqsOfLen(Alphabet, n) : n \in 0..MaxLen}
Short == UNION {SeqsOfLen(Alphabet, n) : n \in 0..2}
\* leading / trailing blanks around short cores
Padded == {<<32>> \o s : s \in Short} \cup {s \o <<32>> : s \in Short} \cup {<<32, 32>> \o s \o <<32>> : s \in Short}
Strings == Plain \cup Padded
\* a case = integer token, float token, string (Product: every combination; otherwise tokens cycle with the length)
Domain == IF Product THEN {[i |-> a, f |-> b, s |-> str] : a \in 1..NumTokens, b \in 1..NumTokens, str \in Strings}
          ELSE {[i |-> (Len(str) % NumTokens) + 1, f |-> ((Len(str) + IF str = <<>> THEN 0 ELSE str[1]) % NumTokens) + 1, s |-> str]
                    : str \in Strings}
Def(c) == 0

\* a recorded result: rec / loaded = sequences of fields, each a sequence of code points; line = code points of save(r);
\* term = the terminator the format may append (CSV writer: CR LF)
IsSuffix(t, s) == Len(t) <= Len(s) /\ \A k \in 1..Len(t) : s[Len(s) - Len(t) + k] = t[k]
Body(line, term) == IF term # <<>> /\ IsSuffix(term, line) THEN SubSeq(line, 1, Len(line) - Len(term)) ELSE line
SingleLine(r) == \A k \in DOMAIN Body(r.line, r.term) : Body(r.line, r.term)[k] \notin {10, 13}
RoundTrip(r) == r.loaded = r.rec
Law(r) == RoundTrip(r) /\ SingleLine(r)
=============================================================================
