------------------------- MODULE SortedCombinations -------------------------
(* C17 - sorted_combinations is complete and key-ordered (several outputs are legal: the order among
   equal keys is free, so the recorded output is judged by a predicate); the min-combination search
   returns exactly the combinations whose sum is the least sum in [a, b).                            *)
EXTENDS Integers, Sequences, FiniteSets, TLC, Json, SequencesExt, FiniteSetsExt

CONSTANTS MaxLen, MaxW, MaxEnd
RECURSIVE SeqsOfLen(_, _)
SeqsOfLen(S, n) == IF n = 0 THEN {<<>>} ELSE {Append(s, x) : s \in SeqsOfLen(S, n - 1), x \in S}
Vectors == UNION {SeqsOfLen(0..MaxW, k) : k \in 0..MaxLen}
\* combinations = non-empty sets of 0-based positions; their tuple form is ascending
Combos(n) == SUBSET (0..(n - 1)) \ {{}}
AsTuple(S) == SetToSortSeq(S, LAMBDA a, b : a < b)
SumOf(w, S) == FoldSet(LAMBDA i, acc : acc + w[i + 1], 0, S)
MaxOf(w, S) == FoldSet(LAMBDA i, acc : IF w[i + 1] > acc THEN w[i + 1] ELSE acc, 0, S)
Key(kind, w, S) == IF kind = "sum" THEN SumOf(w, S) ELSE MaxOf(w, S)

Ascending(t) == \A i, j \in DOMAIN t : i < j => t[i] < t[j]

\* r = [w, kind, out = sequence of [c = tuple of positions, k = key]]
Law(r) == LET n == Len(r.w) IN
    /\ Len(r.out) = Cardinality(Combos(n))                                        \* nothing missing, nothing twice ...
    /\ {ToSet(r.out[i].c) : i \in DOMAIN r.out} = Combos(n)                       \* ... and every combination present
    /\ \A i \in DOMAIN r.out : Ascending(r.out[i].c) /\ r.out[i].c # <<>>         \* index-ordered tuples
    /\ \A i \in DOMAIN r.out : r.out[i].k = Key(r.kind, r.w, ToSet(r.out[i].c))   \* key alongside
    /\ \A i, j \in DOMAIN r.out : i < j => r.out[i].k <= r.out[j].k               \* non-decreasing key order

\* the same law when the ELEMENTS themselves repeat (the weights are the elements): combinations are combinations of
\* positions, so equal value tuples must occur as often as there are position sets producing them
\* r = [e = element values, kind, out = sequence of [c = tuple of values, k = key]]
ValuesOf(e, S) == LET t == AsTuple(S) IN [i \in DOMAIN t |-> e[t[i] + 1]]
SumSeq(t) == FoldSet(LAMBDA i, acc : acc + t[i], 0, DOMAIN t)
MaxSeq(t) == FoldSet(LAMBDA i, acc : IF t[i] > acc THEN t[i] ELSE acc, 0, DOMAIN t)
LawValues(r) == LET n == Len(r.e)
                    want == {ValuesOf(r.e, S) : S \in Combos(n)}
                    have == {r.out[i].c : i \in DOMAIN r.out}
                IN /\ Len(r.out) = Cardinality(Combos(n))
                   /\ \A t \in want \cup have : Cardinality({i \in DOMAIN r.out : r.out[i].c = t})
                                                  = Cardinality({S \in Combos(n) : ValuesOf(r.e, S) = t})
                   /\ \A i \in DOMAIN r.out : r.out[i].k = (IF r.kind = "sum" THEN SumSeq(r.out[i].c) ELSE MaxSeq(r.out[i].c))
                   /\ \A i, j \in DOMAIN r.out : i < j => r.out[i].k <= r.out[j].k

\* min-combination search
DomainMin == {[w |-> w, a |-> a, b |-> b] : w \in Vectors, a \in 0..MaxEnd, b \in 0..MaxEnd}
DefMin(c) == LET n == Len(c.w)
                 inside == {S \in Combos(n) : c.a <= SumOf(c.w, S) /\ SumOf(c.w, S) < c.b}
             IN IF inside = {} THEN [sum |-> -1, combos |-> {}]
                ELSE LET m == Min({SumOf(c.w, S) : S \in inside})
                     IN [sum |-> m, combos |-> {AsTuple(S) : S \in {T \in inside : SumOf(c.w, T) = m}}]
=============================================================================
