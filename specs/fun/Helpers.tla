------------------------------- MODULE Helpers -------------------------------
(* C19 - generic sequence helpers equal their brute-force definitions.  Each definition is written
   differently from the library's algorithm.  Exploration level: TLC enumerates the bounded domain
   and evaluates the definition; the real function is run on every case.                            *)
EXTENDS Integers, Sequences, FiniteSets, TLC, Json, SequencesExt

CONSTANTS MaxSort, MaxHay, MaxNeedle, MaxMulti, MaxN, MaxB

\* --- roman numerals: canonical numeral by digit tables ------------------------------------------
Th == <<"", "M", "MM", "MMM">>
Hu == <<"", "C", "CC", "CCC", "CD", "D", "DC", "DCC", "DCCC", "CM">>
Te == <<"", "X", "XX", "XXX", "XL", "L", "LX", "LXX", "LXXX", "XC">>
On == <<"", "I", "II", "III", "IV", "V", "VI", "VII", "VIII", "IX">>
Canon(n) == Th[(n \div 1000) + 1] \o Hu[((n \div 100) % 10) + 1] \o Te[((n \div 10) % 10) + 1] \o On[(n % 10) + 1]
DomainRoman == 1..3999
DefRoman(n) == Canon(n)

\* --- sequences over a small alphabet -------------------------------------------------------------
RECURSIVE SeqsOfLen(_, _)
SeqsOfLen(S, n) == IF n = 0 THEN {<<>>} ELSE {Append(s, x) : s \in SeqsOfLen(S, n - 1), x \in S}
SeqsUpTo(S, n) == UNION {SeqsOfLen(S, k) : k \in 0..n}

\* --- arg_sort: THE permutation with keys monotone and ties in index order (0-based positions) -----
Before(s, rev, a, b) == IF s[a] # s[b] THEN (IF rev = 1 THEN s[a] > s[b] ELSE s[a] < s[b]) ELSE a < b
ArgSort(s, rev) == LET p == SetToSortSeq(DOMAIN s, LAMBDA a, b : Before(s, rev, a, b))
                   IN [i \in DOMAIN p |-> p[i] - 1]
DomainSort == {[s |-> s, rev |-> r] : s \in SeqsUpTo({0, 1, 2}, MaxSort), r \in {0, 1}}
DefSort(c) == ArgSort(c.s, c.rev)

\* --- sub_seq / search_sub_seq: contiguous occurrences ---------------------------------------------
Occ(s1, s2) == {o \in 0..(Len(s2) - Len(s1)) : SubSeq(s2, o + 1, o + Len(s1)) = s1}
DomainSub == {[a |-> a, b |-> b] : a \in SeqsUpTo({0, 1}, MaxNeedle), b \in SeqsUpTo({0, 1}, MaxHay)}
\* found: 1/0; spans: ascending [start, end) pairs, or <<-1>> where the library documents ValueError (an empty sequence)
DefSub(c) == [found |-> IF Occ(c.a, c.b) # {} THEN 1 ELSE 0,
              spans |-> IF c.a = <<>> \/ c.b = <<>> THEN <<-1>>
                        ELSE LET os == SetToSortSeq(Occ(c.a, c.b), LAMBDA x, y : x < y)
                             IN [i \in DOMAIN os |-> <<os[i], os[i] + Len(c.a)>>]]

\* --- compare_pos_in_iterables: multiset equality --------------------------------------------------
Count(s, x) == Cardinality({i \in DOMAIN s : s[i] = x})
DomainMulti == {[a |-> a, b |-> b] : a \in SeqsUpTo({0, 1, 2}, MaxMulti), b \in SeqsUpTo({0, 1, 2}, MaxMulti)}
DefMulti(c) == IF \A x \in {0, 1, 2} : Count(c.a, x) = Count(c.b, x) THEN 1 ELSE 0

\* --- Batcher / BatcherIter: consecutive batches of 0..n-1 ------------------------------------------
CeilDiv(n, b) == (n + b - 1) \div b
Batch(n, b, k) == [i \in 1..(IF k * b <= n THEN b ELSE n - (k - 1) * b) |-> (k - 1) * b + i - 1]
DomainBatch == {[n |-> n, b |-> b] : n \in 0..MaxN, b \in 1..MaxB}
DefBatch(c) == [len |-> CeilDiv(c.n, c.b), batches |-> [k \in 1..CeilDiv(c.n, c.b) |-> Batch(c.n, c.b, k)]]
=============================================================================
