---------------------------- MODULE PrintBuffer ----------------------------
(* C15 (PrintBuffer) - print(serial, value) prints at once when the serial is the awaited one
   (followed by every stored consecutive successor) and stores it otherwise; flush() prints what is
   stored in ascending order and continues after the largest; clear() forgets everything.
   Results: <<flag>> \o printed serials for print (flag 1 = something was printed), printed serials
   otherwise.                                                                                        *)
EXTENDS Integers, Sequences, FiniteSets, TLC, Json, SequencesExt

CONSTANTS N, MaxEpoch,
          Variant       \* "ok" | "lifo" (negative control: stored successors come out in reverse)
VARIABLES built, pending, wf, used, epoch, last
vars == <<built, pending, wf, used, epoch>>
Sorted(T) == SetToSortSeq(T, LAMBDA a, b : a < b)
Rev(s) == [i \in DOMAIN s |-> s[Len(s) + 1 - i]]
RECURSIVE Run(_, _)
Run(w, P) == IF w \in P THEN <<w>> \o Run(w + 1, P \ {w}) ELSE <<>>
Init == /\ built = FALSE /\ pending = {} /\ wf = 0 /\ used = {} /\ epoch = 0
        /\ last = [op |-> [op |-> "none"], ret |-> <<>>]
Ret(o, r) == last' = [op |-> o, ret |-> r]

New(o) == ~built /\ built' = TRUE /\ UNCHANGED <<pending, wf, used, epoch>> /\ Ret(o, <<>>)
\* unique serials not below the awaited one (the documented use)
PrintOp(o) == /\ built /\ o.i \notin used /\ o.i >= wf /\ UNCHANGED <<built, epoch>> /\ used' = used \cup {o.i}
            /\ IF o.i = wf
               THEN LET r == Run(wf + 1, pending)
                        out == IF Variant = "ok" THEN r ELSE Rev(r)
                    IN pending' = pending \ {r[i] : i \in DOMAIN r} /\ wf' = wf + 1 + Len(r) /\ Ret(o, <<1, o.i>> \o out)
               ELSE pending' = pending \cup {o.i} /\ wf' = wf /\ Ret(o, <<0>>)
Flush(o) == /\ built /\ UNCHANGED <<built, used, epoch>>
            /\ pending' = {} /\ wf' = (IF pending = {} THEN wf ELSE Max(pending) + 1) /\ Ret(o, Sorted(pending))
Clear(o) == /\ built /\ UNCHANGED built /\ pending' = {} /\ wf' = 0 /\ used' = {} /\ epoch' = epoch + 1 /\ Ret(o, <<>>)
WaitingFor(o) == built /\ UNCHANGED vars /\ Ret(o, <<wf>>)
LenOp(o) == built /\ UNCHANGED vars /\ Ret(o, <<Cardinality(pending)>>)

Apply(o) ==
    \/ o.op = "new" /\ New(o)
    \/ o.op = "print" /\ PrintOp(o)
    \/ o.op = "flush" /\ Flush(o)
    \/ o.op = "clear" /\ Clear(o)
    \/ o.op = "waiting_for" /\ WaitingFor(o)
    \/ o.op = "len" /\ LenOp(o)
Next == \/ Apply([op |-> "new"])
        \/ \E i \in 0..(N - 1) : Apply([op |-> "print", i |-> i])
        \/ Apply([op |-> "flush"]) \/ Apply([op |-> "waiting_for"]) \/ Apply([op |-> "len"])
        \/ epoch < MaxEpoch /\ Apply([op |-> "clear"])
Spec == Init /\ [][Next]_<<vars, last>>

TypeOK == \A x \in pending : x > wf
\* what print() lets out is the awaited serial and its consecutive successors, ascending
PrintInOrder == [][ last'.op.op = "print" /\ last'.ret[1] = 1 =>
                      /\ \A i \in 2..Len(last'.ret) : last'.ret[i] = wf + i - 2
                      /\ wf' = wf + Len(last'.ret) - 1 ]_<<vars, last>>
FlushAscending == [][ last'.op.op = "flush" =>
                        \A i, j \in DOMAIN last'.ret : i < j => last'.ret[i] < last'.ret[j] ]_<<vars, last>>

Obs == [built |-> built, wf |-> wf, len |-> Cardinality(pending)]
Hid == [p |-> Sorted(pending), u |-> Sorted(used), e |-> epoch]
View == vars
Emit == PrintT(<<"EDGE", ToJson([s |-> [o |-> Obs, h |-> Hid], l |-> last', t |-> [o |-> Obs', h |-> Hid']])>>)
=============================================================================
