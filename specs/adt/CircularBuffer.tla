--------------------------- MODULE CircularBuffer ---------------------------
(* C15 (CircularBuffer) - after any sequence of put / clear the buffer presents exactly the last
   min(k, c) items put since the last clear, oldest first; indices outside 0..len-1 are rejected.
   Items are a fresh counter so that every item is distinguishable. Results: integer sequences,
   <<>> = IndexError.                                                                                *)
EXTENDS Integers, Sequences, FiniteSets, TLC, Json

CONSTANTS Caps, MaxPuts,
          Variant      \* "ok" | "stale" (negative control: clear forgets to reset the write position)
VARIABLES cap, content, nextv, stale, last
vars == <<cap, content, nextv, stale>>
Init == cap = 0 /\ content = <<>> /\ nextv = 1 /\ stale = <<>> /\ last = [op |-> [op |-> "none"], ret |-> <<>>]
Ret(o, r) == last' = [op |-> o, ret |-> r]
LastN(s, n) == IF Len(s) <= n THEN s ELSE SubSeq(s, Len(s) - n + 1, Len(s))

New(o) == cap = 0 /\ o.cap \in Nat \ {0} /\ cap' = o.cap /\ UNCHANGED <<content, nextv, stale>> /\ Ret(o, <<>>)
Put(o) == /\ cap > 0 /\ UNCHANGED <<cap, stale>> /\ content' = LastN(Append(content, nextv), cap)
          /\ nextv' = nextv + 1 /\ Ret(o, <<nextv>>)
Clear(o) == /\ cap > 0 /\ UNCHANGED <<cap, nextv>> /\ Ret(o, <<>>)
            /\ IF Variant = "ok" THEN content' = <<>> /\ stale' = <<>>
               ELSE content' = <<>> /\ stale' = content
Get(o) == /\ cap > 0 /\ UNCHANGED vars
          /\ Ret(o, IF o.i >= 0 /\ o.i < Len(content) THEN <<content[o.i + 1]>>
                    ELSE IF Variant # "ok" /\ o.i >= 0 /\ o.i < Len(stale) THEN <<stale[o.i + 1]>> ELSE <<>>)
LenOp(o) == cap > 0 /\ UNCHANGED vars /\ Ret(o, <<Len(content)>>)
IterOp(o) == cap > 0 /\ UNCHANGED vars /\ Ret(o, content)
MaxSize(o) == cap > 0 /\ UNCHANGED vars /\ Ret(o, <<cap>>)

Apply(o) ==
    \/ o.op = "new" /\ New(o)
    \/ o.op = "put" /\ Put(o)
    \/ o.op = "clear" /\ Clear(o)
    \/ o.op = "get" /\ Get(o)
    \/ o.op = "len" /\ LenOp(o)
    \/ o.op = "iter" /\ IterOp(o)
    \/ o.op = "max_size" /\ MaxSize(o)
Next == \/ \E c \in Caps : Apply([op |-> "new", cap |-> c])
        \/ nextv <= MaxPuts /\ Apply([op |-> "put"])
        \/ Apply([op |-> "clear"]) \/ Apply([op |-> "len"]) \/ Apply([op |-> "iter"]) \/ Apply([op |-> "max_size"])
        \/ \E i \in -2..(cap + 1) : Apply([op |-> "get", i |-> i])
Spec == Init /\ [][Next]_<<vars, last>>

TypeOK == Len(content) <= cap
\* only valid positions answer, and they answer with the item at that age
RejectOutside == [][ last'.op.op = "get" =>
                       (last'.ret # <<>>) = (last'.op.i >= 0 /\ last'.op.i < Len(content)) ]_<<vars, last>>
\* the content is a run of consecutive counter values ending at the latest put (oldest first)
Window == \A i \in DOMAIN content : content[i] = nextv - Len(content) + i - 1

Obs == [cap |-> cap, items |-> content, len |-> Len(content)]
Hid == [n |-> nextv, s |-> stale]
View == vars
Emit == PrintT(<<"EDGE", ToJson([s |-> [o |-> Obs, h |-> Hid], l |-> last', t |-> [o |-> Obs', h |-> Hid']])>>)
=============================================================================
