--------------------------- MODULE MutableLineFile ---------------------------
(* C12 (and the file half of C13) - a mutable line file is a Python list of strings that started as
   the file's lines; save() writes exactly these lines each followed by the chosen ending; the
   source file never changes.  Lines are abstract symbols without line breaks (for record files a
   symbol stands for a record).  Results: sequences of symbols; <<>> = nothing; <<-1>> = IndexError /
   ValueError (a symbol is never negative).                                                          *)
EXTENDS PySeq, FiniteSets, TLC, Json

CONSTANTS InitSyms,      \* initial files: every prefix-closed choice, see Inits
          EditSyms, MaxLen, MaxInit,
          SliceMode,
          Variant        \* "ok" | "stale" (negative control: a deletion does not mark the file dirty)
VARIABLES built, plain, L, dirty, last
vars == <<built, plain, L, dirty>>
N == Len(L)
Err == <<-1>>
Init == built = FALSE /\ plain = 0 /\ L = <<>> /\ dirty = 0 /\ last = [op |-> [op |-> "none"], ret |-> <<>>]
Ret(o, r) == last' = [op |-> o, ret |-> r]
\* after an operation that changed the content the file is dirty; otherwise the flag may stay or be set
Changed == dirty' = 1
MayChange == dirty' \in {dirty, 1}
Upd(newL) == /\ L' = newL /\ UNCHANGED <<built, plain>>
             /\ IF newL # L THEN (IF Variant = "ok" THEN Changed ELSE MayChange) ELSE MayChange
Same == UNCHANGED <<built, plain, L>> /\ MayChange
RemoveAt(s, p) == SubSeq(s, 1, p) \o SubSeq(s, p + 2, Len(s))
InsertAt(s, p, x) == SubSeq(s, 1, p) \o <<x>> \o SubSeq(s, p + 1, Len(s))
Rev(s) == [i \in DOMAIN s |-> s[Len(s) + 1 - i]]
FirstPos(s, x) == CHOOSE p \in 0..(Len(s) - 1) : s[p + 1] = x /\ \A q \in 0..(p - 1) : s[q + 1] # x

\* o.plain = 1 for the plain line variants (their dirty flag is specified), 0 for record variants
New(o) == ~built /\ built' = TRUE /\ plain' = o.plain /\ L' = o.lines /\ dirty' = 0 /\ Ret(o, <<>>)
SetItem(o) == /\ built
              /\ LET p == PyIndex(N, o.i) IN
                   IF p < 0 THEN Same /\ Ret(o, Err)
                   ELSE /\ L' = [L EXCEPT ![p + 1] = o.s] /\ UNCHANGED <<built, plain>> /\ Ret(o, <<>>)
                        /\ IF o.s # L[p + 1] THEN Changed ELSE MayChange
DelItem(o) == /\ built
              /\ LET p == PyIndex(N, o.i) IN
                   IF p < 0 THEN Same /\ Ret(o, Err) ELSE Upd(RemoveAt(L, p)) /\ Ret(o, <<>>)
Insert(o) == built /\ Upd(InsertAt(L, PyInsertPos(N, o.i), o.s)) /\ Ret(o, <<>>)
AppendOp(o) == built /\ Upd(Append(L, o.s)) /\ Ret(o, <<>>)
Extend(o) == built /\ Upd(L \o o.ss) /\ Ret(o, <<>>)
IAdd(o) == built /\ Upd(L \o o.ss) /\ Ret(o, <<>>)
\* pop(i); o.i = None is pop()
PopOp(o) == /\ built
            /\ LET p == IF o.i = None THEN N - 1 ELSE PyIndex(N, o.i) IN
                 IF p < 0 THEN Same /\ Ret(o, Err) ELSE Upd(RemoveAt(L, p)) /\ Ret(o, <<L[p + 1]>>)
RemoveOp(o) == /\ built
               /\ IF \E k \in DOMAIN L : L[k] = o.s THEN Upd(RemoveAt(L, FirstPos(L, o.s))) /\ Ret(o, <<>>)
                  ELSE Same /\ Ret(o, Err)
Reverse(o) == built /\ Upd(Rev(L)) /\ Ret(o, <<>>)
\* reads
LenOp(o) == built /\ Same /\ dirty' = dirty /\ Ret(o, <<N>>)
Get(o) == /\ built /\ Same /\ dirty' = dirty
          /\ LET p == PyIndex(N, o.i) IN Ret(o, IF p < 0 THEN Err ELSE <<At(L, p)>>)
SliceOp(o) == built /\ Same /\ dirty' = dirty /\ Ret(o, Pick(L, PySlice(N, o.a, o.b, o.c)))
ListOp(o) == built /\ Same /\ dirty' = dirty /\ Ret(o, L)
\* save(ending): the lines found in the written file (split at the ending; the file ends with it);
\* for ending 1 ("\n") the harness also re-opens the saved file and requires the same list
Save(o) == built /\ Same /\ dirty' = dirty /\ Ret(o, L)
IndexOf(o) == /\ built /\ Same /\ dirty' = dirty
              /\ Ret(o, IF \E k \in DOMAIN L : L[k] = o.s THEN <<FirstPos(L, o.s)>> ELSE Err)

Apply(o) ==
    \/ o.op = "new" /\ New(o)
    \/ o.op = "setitem" /\ SetItem(o)
    \/ o.op = "delitem" /\ DelItem(o)
    \/ o.op = "insert" /\ Insert(o)
    \/ o.op = "append" /\ AppendOp(o)
    \/ o.op = "extend" /\ Extend(o)
    \/ o.op = "iadd" /\ IAdd(o)
    \/ o.op = "pop" /\ PopOp(o)
    \/ o.op = "remove" /\ RemoveOp(o)
    \/ o.op = "reverse" /\ Reverse(o)
    \/ o.op = "len" /\ LenOp(o)
    \/ o.op = "get" /\ Get(o)
    \/ o.op = "slice" /\ SliceOp(o)
    \/ o.op = "list" /\ ListOp(o)
    \/ o.op = "save" /\ Save(o)
    \/ o.op = "index" /\ IndexOf(o)

RECURSIVE SeqsUpTo(_, _)
SeqsUpTo(S, n) == IF n = 0 THEN {<<>>} ELSE SeqsUpTo(S, n - 1) \cup {Append(s, x) : s \in {t \in SeqsUpTo(S, n - 1) : Len(t) = n - 1}, x \in S}
Inits == SeqsUpTo(InitSyms, MaxInit)
Adds == {s \in SeqsUpTo(EditSyms, 2) : TRUE}
Idx == (0 - MaxLen - 1)..MaxLen
Bounds == {None, -1, 0, 2}
Slices == IF SliceMode = "none" THEN {} ELSE {<<a, b, c>> : a \in Bounds, b \in Bounds, c \in {None, -1}}
Room(k) == N + k <= MaxLen
Next ==
    \/ \E ls \in Inits, pl \in {0, 1} : Apply([op |-> "new", lines |-> ls, plain |-> pl])
    \/ \E i \in Idx : i >= -N - 1 /\ i <= N /\
          \/ \E s \in EditSyms : Apply([op |-> "setitem", i |-> i, s |-> s])
          \/ Apply([op |-> "delitem", i |-> i]) \/ Apply([op |-> "pop", i |-> i]) \/ Apply([op |-> "get", i |-> i])
          \/ Room(1) /\ \E s \in EditSyms : Apply([op |-> "insert", i |-> i, s |-> s])
    \/ Apply([op |-> "pop", i |-> None])
    \/ Room(1) /\ \E s \in EditSyms : Apply([op |-> "append", s |-> s])
    \/ \E ss \in Adds : Room(Len(ss)) /\ (Apply([op |-> "extend", ss |-> ss]) \/ Apply([op |-> "iadd", ss |-> ss]))
    \/ \E s \in InitSyms \cup EditSyms : Apply([op |-> "remove", s |-> s]) \/ Apply([op |-> "index", s |-> s])
    \/ Apply([op |-> "reverse"]) \/ Apply([op |-> "len"]) \/ Apply([op |-> "list"])
    \/ \E e \in {1, 2, 3} : Apply([op |-> "save", ending |-> e])
    \/ \E s \in Slices : Apply([op |-> "slice", a |-> s[1], b |-> s[2], c |-> s[3]])
Spec == Init /\ [][Next]_<<vars, last>>

\* --- the property ------------------------------------------------------------------------------
\* dirty=False until the first modification, dirty=True after any change of content
DirtyRule == [][ /\ (last'.op.op = "new" => dirty' = 0)
                 /\ (L' # L /\ last'.op.op # "new" => dirty' = 1)
                 /\ (dirty = 1 => dirty' = 1) ]_<<vars, last>>
\* save writes exactly the current lines
SaveWritesContent == [][ last'.op.op = "save" => last'.ret = L /\ L' = L ]_<<vars, last>>
\* out-of-range positions change nothing
ErrKeeps == [][ last'.ret = Err => L' = L ]_<<vars, last>>

\* the harness reports dirty = 2 for record variants (their flag is not part of the property)
Obs == [built |-> built, plain |-> plain, lines |-> L, dirty |-> IF plain = 1 THEN dirty ELSE 2]
Hid == IF plain = 1 THEN 0 ELSE dirty
View == vars
Emit == PrintT(<<"EDGE", ToJson([s |-> [o |-> Obs, h |-> Hid], l |-> last', t |-> [o |-> Obs', h |-> Hid']])>>)
=============================================================================
