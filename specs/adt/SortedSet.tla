------------------------------ MODULE SortedSet ------------------------------
(* C09 (set half) - SortedSet equals a builtin set driven by the same operations, iterated ascending.
   Values are abstract numbers 0..MaxV (the harness maps them to 0, 0.5, 1, 1.5, ... supplied as int or
   float).  Results: sequences of integers; <<>> = KeyError.                                         *)
EXTENDS Naturals, Sequences, FiniteSets, TLC, Json, SequencesExt

CONSTANTS MaxV, MaxInit,
          Dedup      \* TRUE = the property; FALSE = negative control (construction keeps repeats)
VARIABLES built, S, dup, last
\* dup: only for the negative control - number of surplus copies construction left behind
vars == <<built, S, dup>>
Dom == 0..MaxV
Sorted(T) == SetToSortSeq(T, LAMBDA a, b : a < b)
Init == built = FALSE /\ S = {} /\ dup = 0 /\ last = [op |-> [op |-> "none"], ret |-> <<>>]
Ret(o, r) == last' = [op |-> o, ret |-> r]
Elems(s) == {s[i] : i \in DOMAIN s}

New(o) == /\ ~built /\ built' = TRUE /\ S' = Elems(o.init)
          /\ dup' = (IF Dedup THEN 0 ELSE Len(o.init) - Cardinality(Elems(o.init)))
          /\ Ret(o, <<>>)
Add(o) == built /\ UNCHANGED <<built, dup>> /\ S' = S \cup {o.x} /\ Ret(o, <<>>)
Discard(o) == built /\ UNCHANGED <<built, dup>> /\ S' = S \ {o.x} /\ Ret(o, <<>>)
RemoveOp(o) == /\ built /\ UNCHANGED <<built, dup>>
             /\ IF o.x \in S THEN S' = S \ {o.x} /\ Ret(o, <<1>>) ELSE S' = S /\ Ret(o, <<>>)
Pop(o) == /\ built /\ UNCHANGED <<built, dup>>
          /\ IF S = {} THEN S' = S /\ Ret(o, <<>>)
             ELSE \E x \in S : S' = S \ {x} /\ Ret(o, <<x>>)
Clear(o) == built /\ UNCHANGED <<built, dup>> /\ S' = {} /\ Ret(o, <<>>)
Has(o) == built /\ UNCHANGED vars /\ Ret(o, <<IF o.x \in S THEN 1 ELSE 0>>)
\* a probe that cannot be ordered against the (non-empty) content: absent, nothing changes
Probe(o) == built /\ S # {} /\ UNCHANGED vars /\ Ret(o, <<0>>)
ProbeRemove(o) == built /\ S # {} /\ UNCHANGED vars /\ Ret(o, <<>>)
LenOp(o) == built /\ UNCHANGED vars /\ Ret(o, <<Cardinality(S) + dup>>)
IterOp(o) == built /\ UNCHANGED vars /\ Ret(o, Sorted(S))
\* in-place set algebra with another collection (MutableSet mixins)
IOr(o) == built /\ UNCHANGED <<built, dup>> /\ S' = S \cup Elems(o.init) /\ Ret(o, <<>>)
ISub(o) == built /\ UNCHANGED <<built, dup>> /\ S' = S \ Elems(o.init) /\ Ret(o, <<>>)
IAnd(o) == built /\ UNCHANGED <<built, dup>> /\ S' = S \cap Elems(o.init) /\ Ret(o, <<>>)
EqSet(o) == built /\ UNCHANGED vars /\ Ret(o, <<IF S = Elems(o.init) THEN 1 ELSE 0>>)

Apply(o) ==
    \/ o.op = "new" /\ New(o)
    \/ o.op = "add" /\ Add(o)
    \/ o.op = "discard" /\ Discard(o)
    \/ o.op = "remove" /\ RemoveOp(o)
    \/ o.op = "pop" /\ Pop(o)
    \/ o.op = "clear" /\ Clear(o)
    \/ o.op = "contains" /\ Has(o)
    \/ o.op = "probe" /\ Probe(o)
    \/ o.op = "probe_remove" /\ ProbeRemove(o)
    \/ o.op = "len" /\ LenOp(o)
    \/ o.op = "iter" /\ IterOp(o)
    \/ o.op = "ior" /\ IOr(o)
    \/ o.op = "isub" /\ ISub(o)
    \/ o.op = "iand" /\ IAnd(o)
    \/ o.op = "eq" /\ EqSet(o)

RECURSIVE SeqsUpTo(_)
SeqsUpTo(n) == IF n = 0 THEN {<<>>} ELSE SeqsUpTo(n - 1) \cup {Append(s, x) : s \in {t \in SeqsUpTo(n - 1) : Len(t) = n - 1}, x \in Dom}
Inits == SeqsUpTo(MaxInit)
Small == {s \in Inits : Len(s) <= 2}
Next ==
    \/ \E s \in Inits : Apply([op |-> "new", init |-> s])
    \/ \E x \in Dom : \/ Apply([op |-> "add", x |-> x]) \/ Apply([op |-> "discard", x |-> x])
                      \/ Apply([op |-> "remove", x |-> x]) \/ Apply([op |-> "contains", x |-> x])
    \/ Apply([op |-> "pop"]) \/ Apply([op |-> "clear"]) \/ Apply([op |-> "len"]) \/ Apply([op |-> "iter"])
    \/ \E k \in {1, 2, 3} : Apply([op |-> "probe", kind |-> k]) \/ Apply([op |-> "probe_remove", kind |-> k])
    \/ \E s \in Small : \/ Apply([op |-> "ior", init |-> s]) \/ Apply([op |-> "isub", init |-> s])
                        \/ Apply([op |-> "iand", init |-> s]) \/ Apply([op |-> "eq", init |-> s])
Spec == Init /\ [][Next]_<<vars, last>>

\* --- the property: observations are those of a set, iterated strictly ascending --------------------
NoRepeats == dup = 0
IterAscending == [][ last'.op.op = "iter" =>
                       /\ \A i, j \in DOMAIN last'.ret : i < j => last'.ret[i] < last'.ret[j]
                       /\ Elems(last'.ret) = S ]_<<vars, last>>

Obs == [built |-> built, items |-> Sorted(S), len |-> Cardinality(S) + dup,
        mem |-> [i \in 1..(MaxV + 1) |-> IF (i - 1) \in S THEN 1 ELSE 0]]
Hid == 0
View == vars
Emit == PrintT(<<"EDGE", ToJson([s |-> [o |-> Obs, h |-> Hid], l |-> last', t |-> [o |-> Obs', h |-> Hid']])>>)
=============================================================================
