------------------------------ MODULE LRUCache ------------------------------
(* C06 - LRUCache as a bounded mapping with least-recently-used eviction.

   State = the API-observable content: capacity, recency order (most recent first), value per key.
   One action per public call; `Apply(o)` dispatches on the operation record `o`, so the same
   definitions serve exhaustive checking (Next), edge emission (Emit) and trace validation.
   Results are uniformly typed: `ret` is a sequence of integers (<<>> = KeyError / nothing).        *)
EXTENDS Naturals, Sequences, FiniteSets, TLC, Json, Functions

CONSTANTS Keys, Vals, Caps,
          Evict      \* "lru" = the property; "mru" = negative control (evicts the wrong end)

VARIABLES cap,      \* 0 = not constructed yet
          order,    \* sequence of keys, most recently used first
          val,      \* key -> value, domain = keys in order
          last      \* observation only: [op |-> operation record, ret |-> result]
vars == <<cap, order, val>>

Present == {order[i] : i \in DOMAIN order}
Without(k) == SelectSeq(order, LAMBDA x : x # k)
Touch(k) == <<k>> \o Without(k)
Perms(S) == {p \in [1..Cardinality(S) -> S] : \A i, j \in 1..Cardinality(S) : i # j => p[i] # p[j]}
ValsIn(o) == [i \in DOMAIN o |-> val[o[i]]]

Init == cap = 0 /\ order = <<>> /\ val = <<>> /\ last = [op |-> [op |-> "none"], ret |-> <<>>]

Ret(o, r) == last' = [op |-> o, ret |-> r]

\* --- pure state transformer for a store, shared by store / update / setdefault -----------------
Victim(ord) == IF Evict = "lru" THEN ord[Len(ord)] ELSE ord[1]
StoreOrder(ord, k) ==
    IF k \in {ord[i] : i \in DOMAIN ord} THEN <<k>> \o SelectSeq(ord, LAMBDA x : x # k)
    ELSE IF Len(ord) >= cap THEN <<k>> \o SelectSeq(ord, LAMBDA x : x # Victim(ord))
    ELSE <<k>> \o ord
StoreVal(ord, f, k, v) ==
    LET no == StoreOrder(ord, k)
        keep == {no[i] : i \in DOMAIN no}
    IN [x \in keep |-> IF x = k THEN v ELSE f[x]]

New(o) == cap = 0 /\ o.cap \in Nat \ {0} /\ cap' = o.cap /\ UNCHANGED <<order, val>> /\ Ret(o, <<>>)

Store(o) == /\ cap > 0
            /\ order' = StoreOrder(order, o.k) /\ val' = StoreVal(order, val, o.k, o.v) /\ UNCHANGED cap
            /\ Ret(o, <<>>)

Lookup(o) == /\ cap > 0 /\ UNCHANGED <<cap, val>>
             /\ IF o.k \in Present THEN order' = Touch(o.k) /\ Ret(o, <<val[o.k]>>)
                ELSE order' = order /\ Ret(o, <<>>)

\* membership test and get(): a hit may or may not count as a use
Member(o) ==   /\ cap > 0 /\ UNCHANGED <<cap, val>>
               /\ \/ order' = order
                  \/ o.k \in Present /\ order' = Touch(o.k)
               /\ Ret(o, <<IF o.k \in Present THEN 1 ELSE 0>>)

Get(o) == /\ cap > 0 /\ UNCHANGED <<cap, val>>
          /\ \/ order' = order
             \/ o.k \in Present /\ order' = Touch(o.k)
          /\ Ret(o, <<IF o.k \in Present THEN val[o.k] ELSE o.d>>)

Delete(o) == /\ cap > 0 /\ UNCHANGED cap
             /\ IF o.k \in Present
                THEN order' = Without(o.k) /\ val' = Restrict(val, Present \ {o.k}) /\ Ret(o, <<1>>)
                ELSE UNCHANGED <<order, val>> /\ Ret(o, <<>>)

Pop(o) == /\ cap > 0 /\ UNCHANGED cap
          /\ IF o.k \in Present
             THEN order' = Without(o.k) /\ val' = Restrict(val, Present \ {o.k}) /\ Ret(o, <<val[o.k]>>)
             ELSE UNCHANGED <<order, val>> /\ Ret(o, <<>>)

\* popitem removes and returns some entry (which one is not part of the property)
PopItem(o) == /\ cap > 0 /\ UNCHANGED cap
              /\ IF order = <<>> THEN UNCHANGED <<order, val>> /\ Ret(o, <<>>)
                 ELSE \E k \in Present : /\ order' = Without(k) /\ val' = Restrict(val, Present \ {k})
                                         /\ Ret(o, <<k, val[k]>>)

Clear(o) == cap > 0 /\ UNCHANGED cap /\ order' = <<>> /\ val' = <<>> /\ Ret(o, <<>>)

SetDefault(o) == /\ cap > 0 /\ UNCHANGED cap
                 /\ IF o.k \in Present THEN order' = Touch(o.k) /\ val' = val /\ Ret(o, <<val[o.k]>>)
                    ELSE order' = StoreOrder(order, o.k) /\ val' = StoreVal(order, val, o.k, o.d) /\ Ret(o, <<o.d>>)

\* update with a sequence of (key, value) pairs = the stores in sequence
RECURSIVE UpdOrder(_, _), UpdVal(_, _, _)
UpdOrder(ord, ps) == IF ps = <<>> THEN ord ELSE UpdOrder(StoreOrder(ord, ps[1][1]), Tail(ps))
UpdVal(ord, f, ps) == IF ps = <<>> THEN f
                      ELSE UpdVal(StoreOrder(ord, ps[1][1]), StoreVal(ord, f, ps[1][1], ps[1][2]), Tail(ps))
Update(o) == /\ cap > 0 /\ UNCHANGED cap
             /\ order' = UpdOrder(order, o.ps) /\ val' = UpdVal(order, val, o.ps) /\ Ret(o, <<>>)

\* read-only observers: must terminate and agree with the content. Views that look values up may
\* leave the entries in any recency order.
Len_(o) == cap > 0 /\ UNCHANGED vars /\ Ret(o, <<Len(order)>>)
Iter(o) == cap > 0 /\ UNCHANGED vars /\ Ret(o, order)
KeysV(o) == cap > 0 /\ UNCHANGED vars /\ Ret(o, order)
ValuesV(o) == /\ cap > 0 /\ UNCHANGED <<cap, val>> /\ order' \in Perms(Present) /\ Ret(o, ValsIn(order))
ItemsV(o) == /\ cap > 0 /\ UNCHANGED <<cap, val>> /\ order' \in Perms(Present)
             /\ Ret(o, [i \in 1..2*Len(order) |-> IF i % 2 = 1 THEN order[(i+1) \div 2] ELSE val[order[i \div 2]]])
\* an iteration during which another entry is looked up at every step (what values() / items() / == do with the current
\* key, a caller may do with any key): it terminates and lists every key once; lookups do not change the content, and the
\* recency order afterwards is left open
SortedKeys == LET n == Cardinality(Present) IN [i \in 1..n |-> CHOOSE k \in Present : Cardinality({x \in Present : x < k}) = i - 1]
IterTouch(o) == /\ cap > 0 /\ UNCHANGED <<cap, val>> /\ order' \in Perms(Present) /\ Ret(o, SortedKeys)
\* == against a dict given as pairs: 1 iff same key set and same values
EqV(o) == /\ cap > 0 /\ UNCHANGED <<cap, val>> /\ order' \in Perms(Present)
          /\ LET ks == {o.ps[i][1] : i \in DOMAIN o.ps}
                 same == /\ ks = Present
                         /\ \A i \in DOMAIN o.ps : o.ps[i][1] \in Present /\ val[o.ps[i][1]] = o.ps[i][2]
             IN Ret(o, <<IF same THEN 1 ELSE 0>>)

Apply(o) ==
    \/ o.op = "new" /\ New(o)
    \/ o.op = "store" /\ Store(o)
    \/ o.op = "lookup" /\ Lookup(o)
    \/ o.op = "contains" /\ Member(o)
    \/ o.op = "get" /\ Get(o)
    \/ o.op = "delete" /\ Delete(o)
    \/ o.op = "pop" /\ Pop(o)
    \/ o.op = "popitem" /\ PopItem(o)
    \/ o.op = "clear" /\ Clear(o)
    \/ o.op = "setdefault" /\ SetDefault(o)
    \/ o.op = "update" /\ Update(o)
    \/ o.op = "len" /\ Len_(o)
    \/ o.op = "iter" /\ Iter(o)
    \/ o.op = "keys" /\ KeysV(o)
    \/ o.op = "values" /\ ValuesV(o)
    \/ o.op = "items" /\ ItemsV(o)
    \/ o.op = "eq" /\ EqV(o)
    \/ o.op = "iter_touch" /\ IterTouch(o)

\* --- bounded operation universe for exhaustive checking ---------------------------------------
DefaultVal == 99
Pairs == {<<k, v>> : k \in Keys, v \in Vals}
PairSeqs == {<<>>} \cup {<<p>> : p \in Pairs} \cup {<<p, q>> : p \in Pairs, q \in Pairs}
EqArgs == {<<>>} \cup {<<p>> : p \in Pairs} \cup {<<p, q>> \in Pairs \X Pairs : p[1] < q[1]}
Next ==
    \/ \E c \in Caps : Apply([op |-> "new", cap |-> c])
    \/ \E k \in Keys, v \in Vals : Apply([op |-> "store", k |-> k, v |-> v])
    \/ \E k \in Keys : \/ Apply([op |-> "lookup", k |-> k])
                       \/ Apply([op |-> "contains", k |-> k])
                       \/ Apply([op |-> "get", k |-> k, d |-> DefaultVal])
                       \/ Apply([op |-> "delete", k |-> k])
                       \/ Apply([op |-> "pop", k |-> k])
                       \/ Apply([op |-> "setdefault", k |-> k, d |-> DefaultVal])
    \/ Apply([op |-> "popitem"]) \/ Apply([op |-> "clear"]) \/ Apply([op |-> "len"])
    \/ Apply([op |-> "iter"]) \/ Apply([op |-> "keys"]) \/ Apply([op |-> "values"]) \/ Apply([op |-> "items"])
    \/ \E ps \in PairSeqs : Apply([op |-> "update", ps |-> ps])
    \/ \E ps \in EqArgs : Apply([op |-> "eq", ps |-> ps])
    \/ \E k \in Keys : Apply([op |-> "iter_touch", k |-> k])

Spec == Init /\ [][Next]_<<vars, last>>

\* --- the property -----------------------------------------------------------------------------
TypeOK == /\ Len(order) <= cap
          /\ DOMAIN val = Present
          /\ Cardinality(Present) = Len(order)

\* a lookup returns the value most recently stored under that key: carried by `val`, checked as
\* an action property on every store / lookup pair
ReadYourWrite == [][ /\ (last'.op.op = "store" => val'[last'.op.k] = last'.op.v /\ order'[1] = last'.op.k)
                     /\ (last'.op.op = "lookup" /\ last'.op.k \in Present => last'.ret = <<val[last'.op.k]>>) ]_<<vars, last>>

\* a key leaves the cache only by an explicit removal, or as THE least recently used key of a full
\* cache when a new key is stored, and then nothing else leaves
EvictOnlyLRU == [][ \A k \in Present \ Present' :
                       \/ last'.op.op \in {"delete", "pop", "popitem", "clear", "update"}
                       \/ /\ last'.op.op \in {"store", "setdefault"}
                          /\ Len(order) = cap /\ k = order[Len(order)]
                          /\ Cardinality(Present \ Present') = 1
                          /\ last'.op.k \notin Present ]_<<vars, last>>
\* nothing but a store-like operation adds a key, and then exactly that key
AddOnlyStored == [][ \A k \in Present' \ Present :
                        /\ last'.op.op \in {"store", "setdefault", "update"}
                        /\ (last'.op.op # "update" => k = last'.op.k) ]_<<vars, last>>

\* --- binding ----------------------------------------------------------------------------------
Obs == [cap |-> cap, order |-> order, vals |-> ValsIn(order)]
Hid == 0
View == vars
Emit == PrintT(<<"EDGE", ToJson([s |-> [o |-> Obs, h |-> Hid], l |-> last', t |-> [o |-> Obs', h |-> Hid']])>>)
=============================================================================
