------------------------------- MODULE DLList -------------------------------
(* C08 - DoublyLinkedList as a sequence of nodes.

   State: the sequence of node identifiers currently linked (`seq`), the payload of every node ever
   created (`pay`), and the number of nodes created so far (`made`; identifiers are 1..made in
   creation order).  Every operation is defined on identifiers only - this IS the clause "the outcome
   depends only on node identity, never on whether payloads compare equal".
   Results: sequences of integers (<<>> = nothing / IndexError on an empty list).                    *)
EXTENDS Naturals, Sequences, FiniteSets, TLC, Json, Functions

CONSTANTS Payloads, MaxLive, MaxMade,
          MoveKeepsLen      \* TRUE = the property; FALSE = negative control (a move loses one from len)

VARIABLES made,     \* number of nodes created so far; -1 encoded as "not constructed": built = FALSE
          built,
          seq,      \* node ids, head first
          pay,      \* id -> payload for ids 1..made (0 once the node has left the list: it no longer matters)
          lenr,     \* what len() reports (kept separately so that the negative control can break it)
          last
vars == <<made, built, seq, pay, lenr>>

Live == {seq[i] : i \in DOMAIN seq}
Drop(s, n) == SelectSeq(s, LAMBDA x : x # n)
Rev(s) == [i \in DOMAIN s |-> s[Len(s) + 1 - i]]
PosOf(s, n) == CHOOSE i \in DOMAIN s : s[i] = n
InsertAfter(s, n, m) ==      \* s without n, n placed directly after m
    LET d == Drop(s, n)
        p == PosOf(d, m)
    IN SubSeq(d, 1, p) \o <<n>> \o SubSeq(d, p + 1, Len(d))
NewIds(k) == [i \in 1..k |-> made + i]
PayExt(ps) == [i \in 1..(made + Len(ps)) |-> IF i <= made THEN pay[i] ELSE ps[i - made]]

Init == /\ made = 0 /\ built = FALSE /\ seq = <<>> /\ pay = <<>> /\ lenr = 0
        /\ last = [op |-> [op |-> "none"], ret |-> <<>>]
Ret(o, r) == last' = [op |-> o, ret |-> r]
Keep == UNCHANGED <<made, built, pay>>
MovedLen == IF MoveKeepsLen THEN lenr ELSE lenr - 1

New(o) == /\ ~built /\ built' = TRUE
          /\ made' = Len(o.ps) /\ pay' = o.ps /\ seq' = [i \in 1..Len(o.ps) |-> i] /\ lenr' = Len(o.ps)
          /\ Ret(o, <<>>)
AppendOp(o) == /\ built /\ UNCHANGED built
             /\ made' = made + 1 /\ pay' = PayExt(<<o.p>>) /\ seq' = Append(seq, made + 1) /\ lenr' = lenr + 1
             /\ Ret(o, <<made + 1>>)
Prepend(o) == /\ built /\ UNCHANGED built
              /\ made' = made + 1 /\ pay' = PayExt(<<o.p>>) /\ seq' = <<made + 1>> \o seq /\ lenr' = lenr + 1
              /\ Ret(o, <<made + 1>>)
Extend(o) == /\ built /\ UNCHANGED built
             /\ made' = made + Len(o.ps) /\ pay' = PayExt(o.ps) /\ seq' = seq \o NewIds(Len(o.ps))
             /\ lenr' = lenr + Len(o.ps) /\ Ret(o, <<>>)
PreExtend(o) == /\ built /\ UNCHANGED built
                /\ made' = made + Len(o.ps) /\ pay' = PayExt(o.ps) /\ seq' = Rev(NewIds(Len(o.ps))) \o seq
                /\ lenr' = lenr + Len(o.ps) /\ Ret(o, <<>>)
Remove(o) == /\ built /\ o.n \in Live /\ UNCHANGED <<made, built>> /\ pay' = [pay EXCEPT ![o.n] = 0]
             /\ seq' = Drop(seq, o.n) /\ lenr' = lenr - 1 /\ Ret(o, <<>>)
PopBack(o) == /\ built /\ UNCHANGED <<made, built>>
              /\ IF seq = <<>> THEN UNCHANGED <<seq, lenr, pay>> /\ Ret(o, <<>>)
                 ELSE /\ seq' = SubSeq(seq, 1, Len(seq) - 1) /\ lenr' = lenr - 1 /\ Ret(o, <<pay[seq[Len(seq)]]>>)
                      /\ pay' = [pay EXCEPT ![seq[Len(seq)]] = 0]
PopFront(o) == /\ built /\ UNCHANGED <<made, built>>
               /\ IF seq = <<>> THEN UNCHANGED <<seq, lenr, pay>> /\ Ret(o, <<>>)
                  ELSE /\ seq' = Tail(seq) /\ lenr' = lenr - 1 /\ Ret(o, <<pay[seq[1]]>>)
                       /\ pay' = [pay EXCEPT ![seq[1]] = 0]
MoveToFront(o) == /\ built /\ o.n \in Live /\ Keep
                  /\ seq' = <<o.n>> \o Drop(seq, o.n)
                  /\ lenr' = (IF seq[1] = o.n THEN lenr ELSE MovedLen) /\ Ret(o, <<>>)
MoveToBack(o) == /\ built /\ o.n \in Live /\ Keep
                 /\ seq' = Drop(seq, o.n) \o <<o.n>>
                 /\ lenr' = (IF seq[Len(seq)] = o.n THEN lenr ELSE MovedLen) /\ Ret(o, <<>>)
MoveAfter(o) == /\ built /\ o.n \in Live /\ o.m \in Live /\ Keep
                /\ IF o.n = o.m THEN UNCHANGED <<seq, lenr>>
                   ELSE seq' = InsertAfter(seq, o.n, o.m) /\ lenr' = MovedLen
                /\ Ret(o, <<>>)
Rotate(o) == /\ built /\ Keep /\ UNCHANGED lenr
             /\ seq' = IF Len(seq) < 2 THEN seq
                       ELSE IF o.f2b = 1 THEN Tail(seq) \o <<seq[1]>>
                       ELSE <<seq[Len(seq)]>> \o SubSeq(seq, 1, Len(seq) - 1)
             /\ Ret(o, <<>>)
LenOp(o) == built /\ UNCHANGED vars /\ Ret(o, <<lenr>>)
IterOp(o) == built /\ UNCHANGED vars /\ Ret(o, [i \in DOMAIN seq |-> pay[seq[i]]])
IterNodes(o) == built /\ UNCHANGED vars /\ Ret(o, seq)

Apply(o) ==
    \/ o.op = "new" /\ New(o)
    \/ o.op = "append" /\ AppendOp(o)
    \/ o.op = "prepend" /\ Prepend(o)
    \/ o.op = "extend" /\ Extend(o)
    \/ o.op = "pre_extend" /\ PreExtend(o)
    \/ o.op = "remove" /\ Remove(o)
    \/ o.op = "pop_back" /\ PopBack(o)
    \/ o.op = "pop_front" /\ PopFront(o)
    \/ o.op = "move_to_front" /\ MoveToFront(o)
    \/ o.op = "move_to_back" /\ MoveToBack(o)
    \/ o.op = "move_after" /\ MoveAfter(o)
    \/ o.op = "rotate" /\ Rotate(o)
    \/ o.op = "len" /\ LenOp(o)
    \/ o.op = "iter" /\ IterOp(o)
    \/ o.op = "iter_nodes" /\ IterNodes(o)

PaySeqs == {<<>>} \cup {<<p>> : p \in Payloads} \cup {<<p, q>> : p \in Payloads, q \in Payloads}
Room(k) == made + k <= MaxMade /\ Len(seq) + k <= MaxLive
Next ==
    \/ \E ps \in PaySeqs : Apply([op |-> "new", ps |-> ps])
    \/ \E p \in Payloads : Room(1) /\ (Apply([op |-> "append", p |-> p]) \/ Apply([op |-> "prepend", p |-> p]))
    \/ \E ps \in PaySeqs : Room(Len(ps)) /\ (Apply([op |-> "extend", ps |-> ps]) \/ Apply([op |-> "pre_extend", ps |-> ps]))
    \/ \E n \in Live : \/ Apply([op |-> "remove", n |-> n])
                       \/ Apply([op |-> "move_to_front", n |-> n])
                       \/ Apply([op |-> "move_to_back", n |-> n])
                       \/ \E m \in Live : Apply([op |-> "move_after", n |-> n, m |-> m])
    \/ Apply([op |-> "pop_back"]) \/ Apply([op |-> "pop_front"])
    \/ Apply([op |-> "rotate", f2b |-> 1]) \/ Apply([op |-> "rotate", f2b |-> 0])
    \/ Apply([op |-> "len"]) \/ Apply([op |-> "iter"]) \/ Apply([op |-> "iter_nodes"])
Spec == Init /\ [][Next]_<<vars, last>>

\* --- the property -----------------------------------------------------------------------------
TypeOK == /\ Cardinality(Live) = Len(seq)          \* a node is linked at most once
          /\ Live \subseteq 1..made
          /\ DOMAIN pay = 1..made
LenIsCount == lenr = Len(seq)
\* moves and rotation permute, never add or drop
MovesPermute == [][ last'.op.op \in {"move_to_front", "move_to_back", "move_after", "rotate"} => Live' = Live ]_<<vars, last>>

\* --- binding ----------------------------------------------------------------------------------
\* forward walk over next-links from head, backward walk over prev-links from tail, reported length
Obs == [built |-> built, made |-> made, fwd |-> seq, bwd |-> Rev(seq), len |-> lenr, pays |-> [i \in DOMAIN seq |-> pay[seq[i]]]]
Hid == 0
View == vars
Emit == PrintT(<<"EDGE", ToJson([s |-> [o |-> Obs, h |-> Hid], l |-> last', t |-> [o |-> Obs', h |-> Hid']])>>)
=============================================================================
