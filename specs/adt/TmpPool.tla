------------------------------ MODULE TmpPool ------------------------------
(* C20 (TmpPool) - temporary files created through the pool: listed = created and not removed, exactly
   those exist, none survives flush() or leaving the context (normally or by an exception raised at
   any point of the body).  Paths are identified by creation order 1..made.  With multi = 1 files may
   also be created by child processes.  Results: integer sequences.                                  *)
EXTENDS Integers, Sequences, FiniteSets, TLC, Json, SequencesExt

CONSTANTS MaxMade, Multis,
          Variant      \* "ok" | "leak" (negative control: leaving by exception skips the clean-up)
VARIABLES phase,    \* "none" | "built" | "inside" | "left"
          multi, listed, disk, made, last
vars == <<phase, multi, listed, disk, made>>
Sorted(T) == SetToSortSeq(T, LAMBDA a, b : a < b)
Elems(s) == {s[i] : i \in DOMAIN s}
Drop(s, p) == SelectSeq(s, LAMBDA x : x # p)
Init == /\ phase = "none" /\ multi = 0 /\ listed = <<>> /\ disk = {} /\ made = 0
        /\ last = [op |-> [op |-> "none"], ret |-> <<>>]
Ret(o, r) == last' = [op |-> o, ret |-> r]
\* a pool can be used without a with-block too. (Entering a multi-process pool that already lists files is left out: __enter__
\* starts with a fresh shared list - whether files created before are then the pool's business is not something the property says.)
Usable == phase = "inside" \/ phase = "built"

New(o) == /\ phase = "none" /\ phase' = "built" /\ multi' = o.multi /\ UNCHANGED <<listed, disk, made>> /\ Ret(o, <<>>)
Enter(o) == /\ phase = "built" /\ (multi = 0 \/ listed = <<>>) /\ phase' = "inside" /\ UNCHANGED <<multi, listed, disk, made>> /\ Ret(o, <<>>)
Create(o) == /\ Usable /\ UNCHANGED <<phase, multi>> /\ made' = made + 1
             /\ listed' = Append(listed, made + 1) /\ disk' = disk \cup {made + 1} /\ Ret(o, <<made + 1>>)
\* a child process of a multi-process pool creates a file
ChildCreate(o) == /\ phase = "inside" /\ multi = 1 /\ UNCHANGED <<phase, multi>> /\ made' = made + 1
                  /\ listed' = Append(listed, made + 1) /\ disk' = disk \cup {made + 1} /\ Ret(o, <<made + 1>>)
RemoveOp(o) == /\ Usable /\ o.p \in Elems(listed) /\ UNCHANGED <<phase, multi, made>>
               /\ listed' = Drop(listed, o.p) /\ disk' = disk \ {o.p} /\ Ret(o, <<>>)
\* somebody else deletes a listed file (so that removing / flushing an already deleted file is reached)
ExtDelete(o) == /\ Usable /\ o.p \in Elems(listed) \cap disk /\ UNCHANGED <<phase, multi, made, listed>>
                /\ disk' = disk \ {o.p} /\ Ret(o, <<>>)
Flush(o) == /\ Usable /\ UNCHANGED <<phase, multi, made>> /\ listed' = <<>> /\ disk' = disk \ Elems(listed) /\ Ret(o, <<>>)
ExitNormal(o) == /\ phase = "inside" /\ phase' = "left" /\ UNCHANGED <<multi, made>>
                 /\ listed' = <<>> /\ disk' = disk \ Elems(listed) /\ Ret(o, <<>>)
\* the body raises: the exception leaves the context (ret <<1>> = it propagated to the caller)
ExitRaise(o) == /\ phase = "inside" /\ phase' = "left" /\ UNCHANGED <<multi, made>> /\ Ret(o, <<1>>)
                /\ IF Variant = "ok" THEN listed' = <<>> /\ disk' = disk \ Elems(listed)
                   ELSE UNCHANGED <<listed, disk>>
LenOp(o) == Usable /\ UNCHANGED vars /\ Ret(o, <<Len(listed)>>)
GetItem(o) == Usable /\ o.i \in 1..Len(listed) /\ UNCHANGED vars /\ Ret(o, <<listed[o.i]>>)

Apply(o) ==
    \/ o.op = "new" /\ New(o)
    \/ o.op = "enter" /\ Enter(o)
    \/ o.op = "create" /\ Create(o)
    \/ o.op = "child_create" /\ ChildCreate(o)
    \/ o.op = "remove" /\ RemoveOp(o)
    \/ o.op = "ext_delete" /\ ExtDelete(o)
    \/ o.op = "flush" /\ Flush(o)
    \/ o.op = "exit" /\ ExitNormal(o)
    \/ o.op = "exit_raise" /\ ExitRaise(o)
    \/ o.op = "len" /\ LenOp(o)
    \/ o.op = "getitem" /\ GetItem(o)
Next ==
    \/ \E m \in Multis : Apply([op |-> "new", multi |-> m])
    \/ Apply([op |-> "enter"]) \/ Apply([op |-> "flush"]) \/ Apply([op |-> "exit"]) \/ Apply([op |-> "exit_raise"])
    \/ Apply([op |-> "len"])
    \/ made < MaxMade /\ (Apply([op |-> "create"]) \/ Apply([op |-> "child_create"]))
    \/ \E p \in 1..made : Apply([op |-> "remove", p |-> p]) \/ Apply([op |-> "ext_delete", p |-> p])
    \/ \E i \in 1..MaxMade : Apply([op |-> "getitem", i |-> i])
Spec == Init /\ [][Next]_<<vars, last>>

\* --- the property ------------------------------------------------------------------------------
Distinct == Cardinality(Elems(listed)) = Len(listed)
\* files the pool created and nobody deleted behind its back exist iff they are listed
NothingLeftBehind == phase = "left" => listed = <<>> /\ disk = {}
ListedAreCreated == Elems(listed) \subseteq 1..made /\ disk \subseteq Elems(listed)
AfterFlush == [][ last'.op.op \in {"flush", "exit", "exit_raise"} => disk' = {} /\ listed' = <<>> ]_<<vars, last>>

Obs == [phase |-> phase, multi |-> multi, listed |-> listed, disk |-> Sorted(disk), made |-> made]
Hid == 0
View == vars
Emit == PrintT(<<"EDGE", ToJson([s |-> [o |-> Obs, h |-> Hid], l |-> last', t |-> [o |-> Obs', h |-> Hid']])>>)
=============================================================================
