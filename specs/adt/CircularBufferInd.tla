-------------------------- MODULE CircularBufferInd --------------------------
(* C15 (CircularBuffer), unbounded in depth: the ring representation of the code (array, write offset, size) next to
   the abstract content ("the last min(k, C) items put since the last clear, oldest first") with an INDUCTIVE
   invariant that ties them together through the index arithmetic of __getitem__:
       content[i] = ring[(offset - size + i) mod C]      for 0 <= i < size
     Init => IndInv                          (apalache-mc check --init=Init    --inv=IndInv --length=0)
     IndInv /\ [Next]_vars => IndInv'        (apalache-mc check --init=IndInit --inv=IndInv --length=1)
   so the window property holds after ANY number of put / clear steps for every capacity 1..MaxC, not only up to the
   number of puts TLC explored.  Variant "stale" (clear() resets the size but not the write offset, and
   __getitem__ assumes that a buffer that is not full starts at slot 0) is the negative control.                    *)
EXTENDS Integers
CONSTANTS
  \* @type: Int;
  MaxC,
  \* @type: Str;
  Variant
VARIABLES
  \* @type: Int;
  cap,
  \* @type: Int -> Int;
  ring,
  \* @type: Int;
  offset,
  \* @type: Int;
  size,
  \* @type: Int -> Int;
  content,         \* the abstract content: positions 0..clen-1 (oldest first); Apalache-friendly stand-in for a sequence
  \* @type: Int;
  clen
CInitOk == MaxC = 4 /\ Variant = "ok"
CInitNeg == MaxC = 4 /\ Variant = "stale"
Vals == 0..2
Init == /\ cap \in 1..MaxC /\ ring = [j \in 0..(MaxC - 1) |-> 0] /\ offset = 0 /\ size = 0 /\ content = [j \in 0..(MaxC - 1) |-> 0] /\ clen = 0
Put(x) == /\ ring' = [ring EXCEPT ![offset] = x]
          /\ offset' = (offset + 1) % cap
          /\ size' = (IF size < cap THEN size + 1 ELSE size)
          /\ content' = (IF clen < cap THEN [content EXCEPT ![clen] = x]
                          ELSE [j \in 0..(MaxC - 1) |-> IF j < cap - 1 THEN content[j + 1] ELSE IF j = cap - 1 THEN x ELSE content[j]])
          /\ clen' = (IF clen < cap THEN clen + 1 ELSE clen)
          /\ UNCHANGED cap
Clear == /\ size' = 0 /\ clen' = 0 /\ UNCHANGED <<cap, ring, content>>
         /\ offset' = (IF Variant = "ok" THEN 0 ELSE offset)
Next == (\E x \in Vals : Put(x)) \/ Clear
\* what __getitem__(i) returns; the "stale" reader assumes that a buffer that is not full starts at slot 0
Get(i) == IF Variant = "ok" \/ size = cap THEN ring[(offset - size + i) % cap] ELSE ring[i]
IndInv == /\ cap \in 1..MaxC /\ offset \in 0..(cap - 1) /\ size \in 0..cap
          /\ clen = size
          /\ DOMAIN content = 0..(MaxC - 1)
          /\ DOMAIN ring = 0..(MaxC - 1)
          /\ \A j \in 0..(MaxC - 1) : ring[j] \in Vals
          /\ \A j \in 0..(MaxC - 1) : content[j] \in Vals
          /\ \A i \in 0..(MaxC - 1) : i < size => content[i] = Get(i)
IndInit == /\ cap \in 1..MaxC /\ offset \in 0..(MaxC - 1) /\ size \in 0..MaxC
           /\ ring \in [0..(MaxC - 1) -> Vals]
           /\ content \in [0..(MaxC - 1) -> Vals] /\ clen \in 0..MaxC
           /\ IndInv
=============================================================================
