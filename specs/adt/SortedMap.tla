------------------------------ MODULE SortedMap ------------------------------
(* C09 (map half) - SortedMap equals a builtin dict driven by the same operations, keys ascending.
   Keys are abstract numbers 0..MaxV, values small integers.  Construction from a mapping or from
   an iterable of pairs (later pairs win, like dict()).  Results: sequences of integers.             *)
EXTENDS Naturals, Sequences, FiniteSets, TLC, Json, Functions, SequencesExt

CONSTANTS MaxV, Vals, MaxInit,
          LaterWins      \* TRUE = the property; FALSE = negative control (first pair wins)
VARIABLES built, M, last
vars == <<built, M>>
Dom == 0..MaxV
Keys == DOMAIN M
Sorted(T) == SetToSortSeq(T, LAMBDA a, b : a < b)
With(f, k, v) == [x \in DOMAIN f \cup {k} |-> IF x = k THEN v ELSE f[x]]
Without(f, k) == [x \in DOMAIN f \ {k} |-> f[x]]
RECURSIVE FromPairs(_, _)
FromPairs(f, ps) == IF ps = <<>> THEN f
                    ELSE IF LaterWins \/ ps[1][1] \notin DOMAIN f THEN FromPairs(With(f, ps[1][1], ps[1][2]), Tail(ps))
                    ELSE FromPairs(f, Tail(ps))
Init == built = FALSE /\ M = <<>> /\ last = [op |-> [op |-> "none"], ret |-> <<>>]
Ret(o, r) == last' = [op |-> o, ret |-> r]

\* o.kind: "none" (no argument), "pairs" (iterable of pairs), "mapping" (a dict built from the pairs)
New(o) == ~built /\ built' = TRUE /\ M' = FromPairs(<<>>, o.ps) /\ Ret(o, <<>>)
Store(o) == built /\ UNCHANGED built /\ M' = With(M, o.k, o.v) /\ Ret(o, <<>>)
Delete(o) == /\ built /\ UNCHANGED built
             /\ IF o.k \in Keys THEN M' = Without(M, o.k) /\ Ret(o, <<1>>) ELSE M' = M /\ Ret(o, <<>>)
Pop(o) == /\ built /\ UNCHANGED built
          /\ IF o.k \in Keys THEN M' = Without(M, o.k) /\ Ret(o, <<M[o.k]>>) ELSE M' = M /\ Ret(o, <<>>)
PopItem(o) == /\ built /\ UNCHANGED built
              /\ IF Keys = {} THEN M' = M /\ Ret(o, <<>>)
                 ELSE \E k \in Keys : M' = Without(M, k) /\ Ret(o, <<k, M[k]>>)
SetDefault(o) == /\ built /\ UNCHANGED built
                 /\ IF o.k \in Keys THEN M' = M /\ Ret(o, <<M[o.k]>>) ELSE M' = With(M, o.k, o.d) /\ Ret(o, <<o.d>>)
Update(o) == built /\ UNCHANGED built /\ M' = FromPairs(M, o.ps) /\ Ret(o, <<>>)
Clear(o) == built /\ UNCHANGED built /\ M' = <<>> /\ Ret(o, <<>>)
Lookup(o) == built /\ UNCHANGED vars /\ Ret(o, IF o.k \in Keys THEN <<M[o.k]>> ELSE <<>>)
Has(o) == built /\ UNCHANGED vars /\ Ret(o, <<IF o.k \in Keys THEN 1 ELSE 0>>)
Get(o) == built /\ UNCHANGED vars /\ Ret(o, <<IF o.k \in Keys THEN M[o.k] ELSE o.d>>)
ProbeLookup(o) == built /\ Keys # {} /\ UNCHANGED vars /\ Ret(o, <<>>)
ProbeHas(o) == built /\ Keys # {} /\ UNCHANGED vars /\ Ret(o, <<0>>)
LenOp(o) == built /\ UNCHANGED vars /\ Ret(o, <<Cardinality(Keys)>>)
IterOp(o) == built /\ UNCHANGED vars /\ Ret(o, Sorted(Keys))
ValuesV(o) == built /\ UNCHANGED vars /\ Ret(o, [i \in DOMAIN Sorted(Keys) |-> M[Sorted(Keys)[i]]])
ItemsV(o) == built /\ UNCHANGED vars
             /\ LET sk == Sorted(Keys)
                IN Ret(o, [i \in 1..2*Len(sk) |-> IF i % 2 = 1 THEN sk[(i+1) \div 2] ELSE M[sk[i \div 2]]])
EqV(o) == built /\ UNCHANGED vars /\ Ret(o, <<IF M = FromPairs(<<>>, o.ps) THEN 1 ELSE 0>>)

Apply(o) ==
    \/ o.op = "new" /\ New(o)
    \/ o.op = "store" /\ Store(o)
    \/ o.op = "delete" /\ Delete(o)
    \/ o.op = "pop" /\ Pop(o)
    \/ o.op = "popitem" /\ PopItem(o)
    \/ o.op = "setdefault" /\ SetDefault(o)
    \/ o.op = "update" /\ Update(o)
    \/ o.op = "clear" /\ Clear(o)
    \/ o.op = "lookup" /\ Lookup(o)
    \/ o.op = "contains" /\ Has(o)
    \/ o.op = "get" /\ Get(o)
    \/ o.op = "probe_lookup" /\ ProbeLookup(o)
    \/ o.op = "probe_contains" /\ ProbeHas(o)
    \/ o.op = "len" /\ LenOp(o)
    \/ o.op = "iter" /\ IterOp(o)
    \/ o.op = "values" /\ ValuesV(o)
    \/ o.op = "items" /\ ItemsV(o)
    \/ o.op = "eq" /\ EqV(o)

Pairs == {<<k, v>> : k \in Dom, v \in Vals}
RECURSIVE PairSeqsUpTo(_)
PairSeqsUpTo(n) == IF n = 0 THEN {<<>>}
                   ELSE PairSeqsUpTo(n - 1) \cup {Append(s, p) : s \in {t \in PairSeqsUpTo(n - 1) : Len(t) = n - 1}, p \in Pairs}
Inits == PairSeqsUpTo(MaxInit)
Small == {s \in Inits : Len(s) <= 2}
DefaultVal == 99
Next ==
    \/ \E s \in Inits : \E kd \in {"pairs", "mapping"} : Apply([op |-> "new", kind |-> kd, ps |-> s])
    \/ Apply([op |-> "new", kind |-> "none", ps |-> <<>>])
    \/ \E k \in Dom : \/ \E v \in Vals : Apply([op |-> "store", k |-> k, v |-> v])
                      \/ Apply([op |-> "delete", k |-> k]) \/ Apply([op |-> "pop", k |-> k])
                      \/ Apply([op |-> "setdefault", k |-> k, d |-> DefaultVal])
                      \/ Apply([op |-> "lookup", k |-> k]) \/ Apply([op |-> "contains", k |-> k])
                      \/ Apply([op |-> "get", k |-> k, d |-> DefaultVal])
    \/ Apply([op |-> "popitem"]) \/ Apply([op |-> "clear"]) \/ Apply([op |-> "len"]) \/ Apply([op |-> "iter"])
    \/ Apply([op |-> "values"]) \/ Apply([op |-> "items"])
    \/ \E k \in {1, 2, 3} : Apply([op |-> "probe_lookup", kind |-> k]) \/ Apply([op |-> "probe_contains", kind |-> k])
    \/ \E s \in Small : Apply([op |-> "update", ps |-> s]) \/ Apply([op |-> "eq", ps |-> s])
Spec == Init /\ [][Next]_<<vars, last>>

\* --- the property ------------------------------------------------------------------------------
DictLike == [][ /\ (last'.op.op = "new" => \A i \in DOMAIN last'.op.ps :
                        (\A j \in DOMAIN last'.op.ps : j > i => last'.op.ps[j][1] # last'.op.ps[i][1])
                            => M'[last'.op.ps[i][1]] = last'.op.ps[i][2])
                /\ (last'.op.op = "store" => M'[last'.op.k] = last'.op.v) ]_<<vars, last>>
IterAscending == [][ last'.op.op = "iter" =>
                       /\ \A i, j \in DOMAIN last'.ret : i < j => last'.ret[i] < last'.ret[j]
                       /\ {last'.ret[i] : i \in DOMAIN last'.ret} = Keys ]_<<vars, last>>

Obs == [built |-> built, keys |-> Sorted(Keys), vals |-> [i \in DOMAIN Sorted(Keys) |-> M[Sorted(Keys)[i]]]]
Hid == 0
View == vars
Emit == PrintT(<<"EDGE", ToJson([s |-> [o |-> Obs, h |-> Hid], l |-> last', t |-> [o |-> Obs', h |-> Hid']])>>)
=============================================================================
