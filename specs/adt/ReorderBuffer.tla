--------------------------- MODULE ReorderBuffer ---------------------------
(* C15 (Buffer) - items arrive tagged with serial numbers 0..N-1 in any order, each once; draining
   (exhausting the iterator) at any point emits exactly the run of consecutive serials starting at
   waiting_for.  flush() resets the buffer (documented: empties it and starts again from serial 0).
   Results: sequences of integers (serial numbers of the items that came out).                      *)
EXTENDS Integers, Sequences, FiniteSets, TLC, Json, SequencesExt

CONSTANTS N, MaxEpoch,
          Variant       \* "ok" = the property; "skip" = negative control (drain emits past a gap)
VARIABLES built, pending, wf, put, epoch, last
vars == <<built, pending, wf, put, epoch>>
Sorted(T) == SetToSortSeq(T, LAMBDA a, b : a < b)
\* the run of consecutive pending serials starting at w
RECURSIVE Run(_, _)
Run(w, P) == IF w \in P THEN <<w>> \o Run(w + 1, P \ {w}) ELSE <<>>
Init == /\ built = FALSE /\ pending = {} /\ wf = 0 /\ put = {} /\ epoch = 0
        /\ last = [op |-> [op |-> "none"], ret |-> <<>>]
Ret(o, r) == last' = [op |-> o, ret |-> r]

New(o) == ~built /\ built' = TRUE /\ UNCHANGED <<pending, wf, put, epoch>> /\ Ret(o, <<>>)
\* each serial once (since the last flush); a serial below waiting_for cannot occur then
Put(o) == /\ built /\ o.i \notin put /\ UNCHANGED <<built, wf, epoch>>
          /\ pending' = pending \cup {o.i} /\ put' = put \cup {o.i} /\ Ret(o, <<>>)
Drain(o) == /\ built /\ UNCHANGED <<built, put, epoch>>
            /\ LET r == IF Variant = "ok" THEN Run(wf, pending) ELSE Sorted({x \in pending : x >= wf})
               IN pending' = pending \ {r[i] : i \in DOMAIN r} /\ wf' = wf + Len(r) /\ Ret(o, r)
Flush(o) == /\ built /\ UNCHANGED built /\ pending' = {} /\ wf' = 0 /\ put' = {} /\ epoch' = epoch + 1 /\ Ret(o, <<>>)
WaitingFor(o) == built /\ UNCHANGED vars /\ Ret(o, <<wf>>)
LenOp(o) == built /\ UNCHANGED vars /\ Ret(o, <<Cardinality(pending)>>)

Apply(o) ==
    \/ o.op = "new" /\ New(o)
    \/ o.op = "put" /\ Put(o)
    \/ o.op = "drain" /\ Drain(o)
    \/ o.op = "flush" /\ Flush(o)
    \/ o.op = "waiting_for" /\ WaitingFor(o)
    \/ o.op = "len" /\ LenOp(o)
Next == \/ Apply([op |-> "new"])
        \/ \E i \in 0..(N - 1) : Apply([op |-> "put", i |-> i])
        \/ Apply([op |-> "drain"]) \/ Apply([op |-> "waiting_for"]) \/ Apply([op |-> "len"])
        \/ epoch < MaxEpoch /\ Apply([op |-> "flush"])
Spec == Init /\ [][Next]_<<vars, last>>

\* --- the property ------------------------------------------------------------------------------
TypeOK == /\ pending \subseteq put
          /\ \A x \in pending : x >= wf              \* nothing below waiting_for is held back
          /\ \A x \in 0..(wf - 1) : x \in put        \* everything below waiting_for has arrived ...
\* a drain emits exactly wf, wf+1, ... (ascending, no gap, nothing before its predecessors), once
EmitInOrder == [][ last'.op.op = "drain" =>
                     /\ \A i \in DOMAIN last'.ret : last'.ret[i] = wf + i - 1
                     /\ wf' = wf + Len(last'.ret)
                     /\ (wf' \notin pending) ]_<<vars, last>>
\* waiting_for only moves by draining / flushing; len = number held back
Counters == [][ last'.op.op \notin {"drain", "flush"} => wf' = wf ]_<<vars, last>>

Obs == [built |-> built, wf |-> wf, len |-> Cardinality(pending)]
Hid == [p |-> Sorted(pending), u |-> Sorted(put), e |-> epoch]
View == vars
Emit == PrintT(<<"EDGE", ToJson([s |-> [o |-> Obs, h |-> Hid], l |-> last', t |-> [o |-> Obs', h |-> Hid']])>>)
=============================================================================
