-------------------------- MODULE ReorderBufferInd --------------------------
(* C15 (Buffer), unbounded in depth: an Apalache-friendly restatement of the state part of ReorderBuffer.tla
   (typed, no recursion: the drained run is characterised by its length k) with an INDUCTIVE invariant:
     Init => IndInv                          (apalache-mc check --init=Init    --inv=IndInv --length=0)
     IndInv /\ [Next]_vars => IndInv'        (apalache-mc check --init=IndInit --inv=IndInv --length=1)
   so "nothing below waiting_for is held back, everything below waiting_for has arrived" holds after ANY number of
   put / drain / flush steps over serials 0..N-1, not only up to the depth TLC explored.
   Variant "skip" (a drain that leaves what it emitted in the buffer) is the negative control.                 *)
EXTENDS Integers, FiniteSets
CONSTANTS
  \* @type: Int;
  N,
  \* @type: Str;
  Variant
VARIABLES
  \* @type: Set(Int);
  pending,
  \* @type: Int;
  wf,
  \* @type: Set(Int);
  put
CInitOk == N = 8 /\ Variant = "ok"
CInitNeg == N = 8 /\ Variant = "skip"
Init == pending = {} /\ wf = 0 /\ put = {}
Put(i) == i \notin put /\ pending' = pending \cup {i} /\ put' = put \cup {i} /\ UNCHANGED wf
Drain == \E k \in 0..N :
            /\ \A j \in 0..(N - 1) : j < k => (wf + j) \in pending
            /\ (wf + k) \notin pending
            /\ pending' = (IF Variant = "ok" THEN {x \in pending : x < wf \/ x >= wf + k} ELSE pending)
            /\ wf' = wf + k /\ UNCHANGED put
Flush == pending' = {} /\ wf' = 0 /\ put' = {}
Next == (\E i \in 0..(N - 1) : Put(i)) \/ Drain \/ Flush
IndInv == /\ pending \subseteq put
          /\ put \subseteq 0..(N - 1)
          /\ wf >= 0 /\ wf <= N
          /\ \A x \in pending : x >= wf
          /\ \A x \in 0..(N - 1) : x < wf => x \in put
IndInit == /\ pending \in SUBSET (0..(N - 1)) /\ put \in SUBSET (0..(N - 1)) /\ wf \in 0..N
           /\ IndInv
=============================================================================
