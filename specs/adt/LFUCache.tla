------------------------------ MODULE LFUCache ------------------------------
(* C07 - LFUCache: bounded mapping evicting a least frequently used key.

   State: capacity, value and use count per present key.  The use counts are NOT observable through
   the API (they show only through eviction and iteration order), so they are the hidden part of the
   state; wherever the property leaves freedom - which of several least-used keys is evicted, whether
   a membership test or a view counts as a use, the order among keys of equal count - the
   specification is nondeterministic and the binding accepts every allowed branch.
   Results: sequences of integers.                                                                  *)
EXTENDS Naturals, Sequences, FiniteSets, TLC, Json, Functions, SequencesExt

CONSTANTS Keys, Vals, Caps, MaxCnt,
          VictimRule      \* "min" = the property; "max" = negative control

VARIABLES cap, val, cnt, last
vars == <<cap, val, cnt>>

Present == DOMAIN val
Perms(S) == {p \in [1..Cardinality(S) -> S] : \A i, j \in 1..Cardinality(S) : i # j => p[i] # p[j]}
SortedKeys == SetToSortSeq(Present, LAMBDA a, b : a < b)
CountOrders == {p \in Perms(Present) : \A i, j \in DOMAIN p : i < j => cnt[p[i]] <= cnt[p[j]]}
Without(f, k) == [x \in DOMAIN f \ {k} |-> f[x]]
With(f, k, v) == [x \in DOMAIN f \cup {k} |-> IF x = k THEN v ELSE f[x]]

Init == cap = 0 /\ val = <<>> /\ cnt = <<>> /\ last = [op |-> [op |-> "none"], ret |-> <<>>]
Ret(o, r) == last' = [op |-> o, ret |-> r]

\* the possible outcomes <<val, cnt>> of storing (k, v): used by store / setdefault / update
VictimsOf(v0, c0) == IF VictimRule = "min" THEN {a \in DOMAIN v0 : \A j \in DOMAIN v0 : c0[a] <= c0[j]}
                     ELSE {a \in DOMAIN v0 : \A j \in DOMAIN v0 : c0[a] >= c0[j]}
StoreOutcomes(v0, c0, k, v) ==
    IF k \in DOMAIN v0 THEN {<<With(v0, k, v), With(c0, k, c0[k] + 1)>>}
    ELSE IF Cardinality(DOMAIN v0) >= cap
         THEN {<<With(Without(v0, z), k, v), With(Without(c0, z), k, 1)>> : z \in VictimsOf(v0, c0)}
         ELSE {<<With(v0, k, v), With(c0, k, 1)>>}
RECURSIVE UpdOutcomes(_, _, _)
UpdOutcomes(v0, c0, ps) ==
    IF ps = <<>> THEN {<<v0, c0>>}
    ELSE UNION {UpdOutcomes(r[1], r[2], Tail(ps)) : r \in StoreOutcomes(v0, c0, ps[1][1], ps[1][2])}

New(o) == cap = 0 /\ o.cap \in Nat \ {0} /\ cap' = o.cap /\ UNCHANGED <<val, cnt>> /\ Ret(o, <<>>)
Store(o) == /\ cap > 0 /\ UNCHANGED cap /\ Ret(o, <<>>)
            /\ \E r \in StoreOutcomes(val, cnt, o.k, o.v) : val' = r[1] /\ cnt' = r[2]
Lookup(o) == /\ cap > 0 /\ UNCHANGED <<cap, val>>
             /\ IF o.k \in Present THEN cnt' = With(cnt, o.k, cnt[o.k] + 1) /\ Ret(o, <<val[o.k]>>)
                ELSE cnt' = cnt /\ Ret(o, <<>>)
MaybeUse(k) == \/ cnt' = cnt
               \/ k \in Present /\ cnt' = With(cnt, k, cnt[k] + 1)
Member(o) == /\ cap > 0 /\ UNCHANGED <<cap, val>> /\ MaybeUse(o.k)
             /\ Ret(o, <<IF o.k \in Present THEN 1 ELSE 0>>)
Get(o) == /\ cap > 0 /\ UNCHANGED <<cap, val>> /\ MaybeUse(o.k)
          /\ Ret(o, <<IF o.k \in Present THEN val[o.k] ELSE o.d>>)
Delete(o) == /\ cap > 0 /\ UNCHANGED cap
             /\ IF o.k \in Present THEN val' = Without(val, o.k) /\ cnt' = Without(cnt, o.k) /\ Ret(o, <<1>>)
                ELSE UNCHANGED <<val, cnt>> /\ Ret(o, <<>>)
Pop(o) == /\ cap > 0 /\ UNCHANGED cap
          /\ IF o.k \in Present THEN val' = Without(val, o.k) /\ cnt' = Without(cnt, o.k) /\ Ret(o, <<val[o.k]>>)
             ELSE UNCHANGED <<val, cnt>> /\ Ret(o, <<>>)
PopItem(o) == /\ cap > 0 /\ UNCHANGED cap
              /\ IF Present = {} THEN UNCHANGED <<val, cnt>> /\ Ret(o, <<>>)
                 ELSE \E k \in Present : val' = Without(val, k) /\ cnt' = Without(cnt, k) /\ Ret(o, <<k, val[k]>>)
Clear(o) == cap > 0 /\ UNCHANGED cap /\ val' = <<>> /\ cnt' = <<>> /\ Ret(o, <<>>)
SetDefault(o) == /\ cap > 0 /\ UNCHANGED cap
                 /\ IF o.k \in Present THEN val' = val /\ cnt' = With(cnt, o.k, cnt[o.k] + 1) /\ Ret(o, <<val[o.k]>>)
                    ELSE /\ \E r \in StoreOutcomes(val, cnt, o.k, o.d) : val' = r[1] /\ cnt' = r[2]
                         /\ Ret(o, <<o.d>>)
\* update with a sequence of pairs = the stores in sequence
Update(o) == /\ cap > 0 /\ UNCHANGED cap /\ Ret(o, <<>>)
             /\ \E r \in UpdOutcomes(val, cnt, o.ps) : val' = r[1] /\ cnt' = r[2]

Len_(o) == cap > 0 /\ UNCHANGED vars /\ Ret(o, <<Cardinality(Present)>>)
\* iteration: keys in non-decreasing use count (ties in any order)
Iter(o) == cap > 0 /\ UNCHANGED vars /\ \E p \in CountOrders : Ret(o, p)
KeysV(o) == cap > 0 /\ UNCHANGED vars /\ \E p \in CountOrders : Ret(o, p)
\* views that look values up may count as a use of every key they look up
ViewUse == cnt' \in {[k \in Present |-> cnt[k] + b[k]] : b \in [Present -> {0, 1}]}
ValuesV(o) == /\ cap > 0 /\ UNCHANGED <<cap, val>> /\ ViewUse
              /\ \E p \in Perms(Present) : Ret(o, [i \in DOMAIN p |-> val[p[i]]])
ItemsV(o) == /\ cap > 0 /\ UNCHANGED <<cap, val>> /\ ViewUse
             /\ \E p \in Perms(Present) :
                   Ret(o, [i \in 1..2*Len(p) |-> IF i % 2 = 1 THEN p[(i+1) \div 2] ELSE val[p[i \div 2]]])
EqV(o) == /\ cap > 0 /\ UNCHANGED <<cap, val>> /\ ViewUse
          /\ LET ks == {o.ps[i][1] : i \in DOMAIN o.ps}
                 same == /\ ks = Present
                         /\ \A i \in DOMAIN o.ps : o.ps[i][1] \in Present /\ val[o.ps[i][1]] = o.ps[i][2]
             IN Ret(o, <<IF same THEN 1 ELSE 0>>)

Apply(o) ==
    \/ o.op = "new" /\ New(o)
    \/ o.op = "store" /\ Store(o)
    \/ o.op = "lookup" /\ Lookup(o)
    \/ o.op = "contains" /\ Member(o)
    \/ o.op = "get" /\ Get(o)
    \/ o.op = "delete" /\ Delete(o)
    \/ o.op = "pop" /\ Pop(o)
    \/ o.op = "popitem" /\ PopItem(o)
    \/ o.op = "clear" /\ Clear(o)
    \/ o.op = "setdefault" /\ SetDefault(o)
    \/ o.op = "update" /\ Update(o)
    \/ o.op = "len" /\ Len_(o)
    \/ o.op = "iter" /\ Iter(o)
    \/ o.op = "keys" /\ KeysV(o)
    \/ o.op = "values" /\ ValuesV(o)
    \/ o.op = "items" /\ ItemsV(o)
    \/ o.op = "eq" /\ EqV(o)

DefaultVal == 99
Pairs == {<<k, v>> : k \in Keys, v \in Vals}
PairSeqs == {<<>>} \cup {<<p>> : p \in Pairs} \cup {<<p, q>> : p \in Pairs, q \in Pairs}
EqArgs == {<<>>} \cup {<<p>> : p \in Pairs} \cup {<<p, q>> \in Pairs \X Pairs : p[1] < q[1]}
Next ==
    \/ \E c \in Caps : Apply([op |-> "new", cap |-> c])
    \/ \E k \in Keys, v \in Vals : Apply([op |-> "store", k |-> k, v |-> v])
    \/ \E k \in Keys : \/ Apply([op |-> "lookup", k |-> k])
                       \/ Apply([op |-> "contains", k |-> k])
                       \/ Apply([op |-> "get", k |-> k, d |-> DefaultVal])
                       \/ Apply([op |-> "delete", k |-> k])
                       \/ Apply([op |-> "pop", k |-> k])
                       \/ Apply([op |-> "setdefault", k |-> k, d |-> DefaultVal])
    \/ Apply([op |-> "popitem"]) \/ Apply([op |-> "clear"]) \/ Apply([op |-> "len"])
    \/ Apply([op |-> "iter"]) \/ Apply([op |-> "keys"]) \/ Apply([op |-> "values"]) \/ Apply([op |-> "items"])
    \/ \E ps \in PairSeqs : Apply([op |-> "update", ps |-> ps])
    \/ \E ps \in EqArgs : Apply([op |-> "eq", ps |-> ps])
Spec == Init /\ [][Next]_<<vars, last>>
CountBound == \A k \in Present : cnt[k] <= MaxCnt      \* state constraint for exhaustive runs (safety only)

\* --- the property -----------------------------------------------------------------------------
TypeOK == /\ Cardinality(Present) <= cap
          /\ DOMAIN cnt = Present
          /\ \A k \in Present : cnt[k] >= 1
ReadYourWrite == [][ /\ (last'.op.op = "store" => val'[last'.op.k] = last'.op.v)
                     /\ (last'.op.op = "lookup" /\ last'.op.k \in Present => last'.ret = <<val[last'.op.k]>>)
                     /\ (last'.op.op \notin {"store", "setdefault", "update", "delete", "pop", "popitem", "clear"}
                            => val' = val) ]_<<vars, last>>
EvictOnlyLFU == [][ \A k \in Present \ Present' :
                       \/ last'.op.op \in {"delete", "pop", "popitem", "clear", "update"}
                       \/ /\ last'.op.op \in {"store", "setdefault"}
                          /\ Cardinality(Present) = cap
                          /\ \A j \in Present : cnt[k] <= cnt[j]
                          /\ Cardinality(Present \ Present') = 1
                          /\ last'.op.k \notin Present ]_<<vars, last>>
CountRule == [][ /\ (last'.op.op = "store" /\ last'.op.k \in Present => cnt'[last'.op.k] = cnt[last'.op.k] + 1)
                 /\ (last'.op.op = "store" /\ last'.op.k \notin Present => cnt'[last'.op.k] = 1)
                 /\ (last'.op.op = "lookup" /\ last'.op.k \in Present => cnt'[last'.op.k] = cnt[last'.op.k] + 1) ]_<<vars, last>>

\* --- binding ----------------------------------------------------------------------------------
Obs == [cap |-> cap, keys |-> SortedKeys, vals |-> [i \in DOMAIN SortedKeys |-> val[SortedKeys[i]]]]
Hid == [i \in DOMAIN SortedKeys |-> cnt[SortedKeys[i]]]
View == vars
Emit == PrintT(<<"EDGE", ToJson([s |-> [o |-> Obs, h |-> Hid], l |-> last', t |-> [o |-> Obs', h |-> Hid']])>>)
\* exhaustive runs expand only states within the count bound, but every edge leaving them is emitted
EmitBounded == CountBound /\ Emit
Bounded == CountBound
=============================================================================
