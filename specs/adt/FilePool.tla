------------------------------ MODULE FilePool ------------------------------
(* C20 (FilePool) - inside the context every given path maps to an open handle; after leaving it
   (normally or by an exception in the body) every handle that was handed out is closed.
   Files are 1..NFiles; modes 1..6 = "r", "w", "a", "rb", "wb", "ab".  Results: integer sequences.                 *)
EXTENDS Integers, Sequences, FiniteSets, TLC, Json, SequencesExt

CONSTANTS NFiles,
          Variant      \* "ok" | "leak" (negative control: leaving by exception closes nothing)
VARIABLES phase, files, mode, open, last
vars == <<phase, files, mode, open>>
Sorted(T) == SetToSortSeq(T, LAMBDA a, b : a < b)
Init == /\ phase = "none" /\ files = {} /\ mode = 0 /\ open = {} /\ last = [op |-> [op |-> "none"], ret |-> <<>>]
Ret(o, r) == last' = [op |-> o, ret |-> r]
FilesOf(o) == {o.files[i] : i \in DOMAIN o.files}

New(o) == /\ phase = "none" /\ phase' = "built" /\ files' = FilesOf(o) /\ mode' = o.mode /\ open' = {} /\ Ret(o, <<>>)
Enter(o) == /\ phase \in {"built", "left"} /\ phase' = "inside" /\ UNCHANGED <<files, mode>> /\ open' = files /\ Ret(o, <<>>)
ExitNormal(o) == /\ phase = "inside" /\ phase' = "left" /\ UNCHANGED <<files, mode>> /\ open' = {} /\ Ret(o, <<>>)
ExitRaise(o) == /\ phase = "inside" /\ phase' = "left" /\ UNCHANGED <<files, mode>> /\ Ret(o, <<1>>)
                /\ open' = (IF Variant = "ok" THEN {} ELSE open)
\* pool[path]: 1 = an open handle, 0 = the handle the body closed itself, <<>> = KeyError (path not in the pool)
GetItem(o) == /\ phase = "inside" /\ UNCHANGED vars
              /\ Ret(o, IF o.f \in files THEN (IF o.f \in open THEN <<1>> ELSE <<0>>) ELSE <<>>)
\* the body closes one of the handles itself (e.g. to finish an output early); the others stay open and are closed on exit
CloseOne(o) == /\ phase = "inside" /\ o.f \in open /\ open' = open \ {o.f} /\ UNCHANGED <<phase, files, mode>> /\ Ret(o, <<>>)
LenOp(o) == phase = "inside" /\ UNCHANGED vars /\ Ret(o, <<Cardinality(files)>>)
IterOp(o) == phase = "inside" /\ UNCHANGED vars /\ Ret(o, Sorted(files))

Apply(o) ==
    \/ o.op = "new" /\ New(o)
    \/ o.op = "enter" /\ Enter(o)
    \/ o.op = "exit" /\ ExitNormal(o)
    \/ o.op = "exit_raise" /\ ExitRaise(o)
    \/ o.op = "getitem" /\ GetItem(o)
    \/ o.op = "close_one" /\ CloseOne(o)
    \/ o.op = "len" /\ LenOp(o)
    \/ o.op = "iter" /\ IterOp(o)
Next ==
    \/ \E F \in SUBSET (1..NFiles), m \in 1..6 : Apply([op |-> "new", files |-> Sorted(F), mode |-> m])
    \/ Apply([op |-> "enter"]) \/ Apply([op |-> "exit"]) \/ Apply([op |-> "exit_raise"])
    \/ Apply([op |-> "len"]) \/ Apply([op |-> "iter"])
    \/ \E f \in 1..(NFiles + 1) : Apply([op |-> "getitem", f |-> f])
    \/ \E f \in 1..NFiles : Apply([op |-> "close_one", f |-> f])
Spec == Init /\ [][Next]_<<vars, last>>

AllOpenInside == [][phase # "inside" /\ phase' = "inside" => open' = files]_<<vars, last>>   \* entering opens every file
OnlyBodyCloses == [][phase = "inside" /\ phase' = "inside" /\ open' # open => last'.op.op = "close_one"]_<<vars, last>>
AllClosedOutside == phase # "inside" => open = {}

Obs == [phase |-> phase, files |-> Sorted(files), mode |-> mode, open |-> Sorted(open)]
Hid == 0
View == vars
Emit == PrintT(<<"EDGE", ToJson([s |-> [o |-> Obs, h |-> Hid], l |-> last', t |-> [o |-> Obs', h |-> Hid']])>>)
=============================================================================
