------------------------------- MODULE PySeq -------------------------------
(* Python list indexing / slicing semantics over 0-based positions, shared by the line-file specs.
   None is encoded as the integer 99.                                                               *)
EXTENDS Integers, Sequences
None == 99
\* position (0-based) selected by index i on a list of length n, or -1 if out of range
PyIndex(n, i) == IF i >= 0 THEN (IF i < n THEN i ELSE -1) ELSE (IF i + n >= 0 THEN i + n ELSE -1)
RECURSIVE Upto(_, _, _)
Upto(a, b, c) == IF (c > 0 /\ a >= b) \/ (c < 0 /\ a <= b) THEN <<>> ELSE <<a>> \o Upto(a + c, b, c)
\* the 0-based positions range(n)[a:b:c] selects
PySlice(n, a, b, c) ==
    LET st == IF c = None THEN 1 ELSE c
        lo == IF st > 0 THEN 0 ELSE -1
        hi == IF st > 0 THEN n ELSE n - 1
        Clamp(x, dflt) == IF x = None THEN dflt
                          ELSE IF x < 0 THEN (IF x + n < lo THEN lo ELSE x + n)
                          ELSE (IF x > hi THEN hi ELSE x)
        start == Clamp(a, IF st > 0 THEN 0 ELSE n - 1)
        stop == Clamp(b, IF st > 0 THEN n ELSE -1)
    IN Upto(start, stop, st)
\* list.insert position
PyInsertPos(n, i) == IF i >= n THEN n ELSE IF i >= 0 THEN i ELSE IF i + n >= 0 THEN i + n ELSE 0
At(s, p) == s[p + 1]
Pick(s, ps) == [k \in DOMAIN ps |-> s[ps[k] + 1]]
=============================================================================
