------------------------------ MODULE LineFile ------------------------------
(* C11 - a line file is the Python list of its '\n'-delimited lines (restricted / permuted by a
   caller-supplied offset index); iterators keep their own position whatever else is called.

   Line contents are abstract symbols (the harness maps them to empty lines, multi-byte UTF-8, lines
   with carriage returns, a 9000-byte line ...).  `new` carries the file's lines, whether the last
   line is terminated, and the index: <<>> with src "built" = index built by the class, otherwise
   the 1-based line numbers selected (src "list" = offsets passed as a list, "file" = through an
   index file).  Results: sequences of symbols; <<>> = IndexError / StopIteration.                   *)
EXTENDS PySeq, FiniteSets, TLC, Json

CONSTANTS Syms, MinLines, MaxLines,   \* contents: every sequence of symbols within the length bounds ...
          DistinctLines,             \* ... optionally with pairwise distinct lines only
          IndexMode,                 \* "built" | "all" (also identity / reversed / subset indexes, as list and file)
          MaxIters,
          SliceMode,                 \* "none" | "grid" (slices over a grid of start/stop/step incl. None and negatives)
          Variant        \* "ok" | "shared" (negative control: all iterators share one cursor with get)
VARIABLES built, conf, L, its, cursor, last
\* conf: how the file was made (lines, terminator, index, index source) - part of the state so that every
\* content / index source is driven through every operation, not only the first one reaching a list value
vars == <<built, conf, L, its, cursor>>
RECURSIVE SeqsOfLen(_)
SeqsOfLen(n) == IF n = 0 THEN {<<>>} ELSE {Append(s, x) : s \in SeqsOfLen(n - 1), x \in Syms}
AllDistinct(s) == \A i, j \in DOMAIN s : i # j => s[i] # s[j]
\* canonical form: an unterminated last line is non-empty (symbol 1 is the empty line); "" is the empty file
Canon(ls, t) == /\ (ls = <<>> => t = 0)
                /\ (ls # <<>> /\ t = 0 => ls[Len(ls)] # 1)
                /\ (DistinctLines => AllDistinct(ls))
Contents == {c \in (UNION {SeqsOfLen(n) : n \in MinLines..MaxLines}) \X {0, 1} : Canon(c[1], c[2])}
Ident(n) == [i \in 1..n |-> i]
Rev(s) == [i \in DOMAIN s |-> s[Len(s) + 1 - i]]
IndexesFor(ls) ==
    IF IndexMode = "built" THEN {<<<<>>, "built">>}
    ELSE {<<<<>>, "built">>} \cup
         {<<x, src>> : x \in {<<>>, Ident(Len(ls)), Rev(Ident(Len(ls)))} \cup
                            (IF Len(ls) >= 2 THEN {<<Len(ls), 1>>, <<2>>} ELSE {}), src \in {"list", "file"}}
Gets == (0 - MaxLines - 1)..MaxLines
Bounds == {None, -2, -1, 0, 1, 3}
Slices == IF SliceMode = "none" THEN {} ELSE {<<a, b, c>> : a \in Bounds, b \in Bounds, c \in {None, 2, -1}}
ManysFor(n) == IF n = 0 THEN {<<>>} ELSE {<<>>, <<0>>, <<n - 1, 0>>, <<-1, 0, 0>>}
Init == built = FALSE /\ conf = <<>> /\ L = <<>> /\ its = <<>> /\ cursor = 0 /\ last = [op |-> [op |-> "none"], ret |-> <<>>]
Ret(o, r) == last' = [op |-> o, ret |-> r]
N == Len(L)

New(o) == /\ ~built /\ built' = TRUE /\ its' = <<>> /\ cursor' = 0
          /\ conf' = <<o.lines, o.term, o.idx, o.src>>
          /\ L' = (IF o.src = "built" THEN o.lines ELSE [k \in DOMAIN o.idx |-> o.lines[o.idx[k]]])
          /\ Ret(o, <<>>)
LenOp(o) == built /\ UNCHANGED vars /\ Ret(o, <<N>>)
Get(o) == /\ built /\ UNCHANGED <<built, conf, L, its>>
          /\ LET p == PyIndex(N, o.i) IN
               /\ Ret(o, IF p < 0 THEN <<>> ELSE <<At(L, p)>>)
               /\ cursor' = (IF p < 0 THEN cursor ELSE p + 1)
SliceOp(o) == built /\ UNCHANGED vars /\ Ret(o, Pick(L, PySlice(N, o.a, o.b, o.c)))
\* f[[i, j, ...]] with valid positions
Many(o) == /\ built /\ (\A k \in DOMAIN o.is : PyIndex(N, o.is[k]) >= 0) /\ UNCHANGED vars
           /\ Ret(o, [k \in DOMAIN o.is |-> At(L, PyIndex(N, o.is[k]))])
ListOp(o) == built /\ UNCHANGED vars /\ Ret(o, L)
IterNew(o) == /\ built /\ Len(its) < MaxIters /\ UNCHANGED <<built, conf, L, cursor>> /\ its' = Append(its, 0)
              /\ Ret(o, <<Len(its) + 1>>)
\* next() on iterator j: the line at j's OWN position
IterNext(o) == /\ built /\ o.j \in DOMAIN its /\ UNCHANGED <<built, conf, L>>
               /\ LET pos == IF Variant = "ok" THEN its[o.j] ELSE cursor IN
                    IF its[o.j] < N /\ pos < N
                    THEN its' = [its EXCEPT ![o.j] = its[o.j] + 1] /\ cursor' = pos + 1 /\ Ret(o, <<At(L, pos)>>)
                    ELSE its' = [its EXCEPT ![o.j] = N] /\ cursor' = cursor /\ Ret(o, <<>>)

\* close() followed by open() (or leaving and re-entering the with-block): the object is the same list of lines afterwards
Reopen(o) == built /\ UNCHANGED vars /\ Ret(o, <<>>)

Apply(o) ==
    \/ o.op = "reopen" /\ Reopen(o)
    \/ o.op = "new" /\ New(o)
    \/ o.op = "len" /\ LenOp(o)
    \/ o.op = "get" /\ Get(o)
    \/ o.op = "slice" /\ SliceOp(o)
    \/ o.op = "many" /\ Many(o)
    \/ o.op = "list" /\ ListOp(o)
    \/ o.op = "iter_new" /\ IterNew(o)
    \/ o.op = "iter_next" /\ IterNext(o)
Next ==
    \/ \E c \in Contents : \E x \in IndexesFor(c[1]) :
          /\ Apply([op |-> "new", lines |-> c[1], term |-> c[2], idx |-> x[1], src |-> x[2]])
    \/ Apply([op |-> "len"]) \/ Apply([op |-> "list"]) \/ Apply([op |-> "iter_new"]) \/ Apply([op |-> "reopen"])
    \/ \E i \in Gets : i >= -N - 1 /\ i <= N /\ Apply([op |-> "get", i |-> i])
    \/ its = <<>> /\ \E s \in Slices : Apply([op |-> "slice", a |-> s[1], b |-> s[2], c |-> s[3]])
    \/ \E m \in ManysFor(N) : Apply([op |-> "many", is |-> m])
    \/ \E j \in 1..MaxIters : Apply([op |-> "iter_next", j |-> j])
Spec == Init /\ [][Next]_<<vars, last>>

\* --- the property ------------------------------------------------------------------------------
\* iteration yields the same sequence as indexing, also with reads interleaved: the k-th value an
\* iterator returns is L[k]
IterOwnPosition == [][ last'.op.op = "iter_next" /\ last'.ret # <<>> =>
                          last'.ret = <<At(L, its[last'.op.j])>> ]_<<vars, last>>
ItersInRange == \A j \in DOMAIN its : its[j] <= N

Obs == [built |-> built, conf |-> conf, n |-> N, lines |-> L]
Hid == [its |-> its, cur |-> IF Variant = "ok" THEN 0 ELSE cursor]
View == <<built, conf, L, its, IF Variant = "ok" THEN 0 ELSE cursor>>
Emit == PrintT(<<"EDGE", ToJson([s |-> [o |-> Obs, h |-> Hid], l |-> last', t |-> [o |-> Obs', h |-> Hid']])>>)
=============================================================================
