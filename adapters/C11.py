"""C11 - line files: indexing, slicing, iteration; every variant against LineFile.tla."""
import os
import random

from vlib import graphwalk, model, par, tlc, tracecheck
from vlib.graphwalk import Unexpected, Skip
from adapters import linefiles as lf
from adapters.C06 import split_failed

SPEC = os.path.join(tlc.SPECS, "adt", "LineFile.tla")


def sig_fn(pre, op, ret, post):
    return {}


def record(adapter, ops, sparse=None):
    """sparse (a random.Random): the state is observed after about one operation in five and after the last one only -
    observing calls the object (reads every line) and would hide what a history leaves behind (positions, caches)"""
    w = adapter.new_world()
    tr = []
    try:
        for k, op in enumerate(ops):
            look = sparse is None or k == 0 or k == len(ops) - 1 or sparse.random() < 0.2
            try:
                ret = graphwalk.guarded(lambda: adapter.apply(w, op), 10.0)
                st = graphwalk.guarded(lambda: graphwalk.safe_obs(adapter, w), 10.0) if look else 0
            except Skip:
                return None
            except (graphwalk.Timeout, Unexpected) as e:
                tr.append({"op": op, "ret": None, "st": None, "exc": type(e).__name__ + ":" + str(e)})
                break
            tr.append({"op": op, "ret": ret, "st": st} if look else {"op": op, "ret": ret, "st": 0, "hs": 0})
    finally:
        adapter.close(w)
    return tr


def big_ops(rnd, nlines, reads):
    lines = list(range(100, 100 + nlines))
    kind = rnd.choice(["built", "list", "file", "perm", "subset"])
    if kind == "built":
        idx, src, n = [], "built", nlines
    else:
        idx = list(range(1, nlines + 1))
        if kind == "perm":
            rnd.shuffle(idx)
        if kind == "subset":
            idx = rnd.sample(idx, max(1, nlines // 3))
        src, n = rnd.choice(["list", "file"]), len(idx)
    ops = [{"op": "new", "lines": lines, "term": rnd.randint(0, 1), "idx": idx, "src": src}]
    nit = 0
    for _ in range(reads):
        k = rnd.choice(["get"] * 5 + ["iter_next"] * 8 + ["iter_new", "slice", "many", "len", "reopen"])
        if k == "get":
            ops.append({"op": k, "i": rnd.randint(-n, n - 1)})
        elif k == "iter_new" or (k == "iter_next" and nit == 0):
            if nit < 3:
                nit += 1
                ops.append({"op": "iter_new"})
        elif k == "iter_next":
            ops.append({"op": k, "j": rnd.randint(1, nit)})
        elif k == "slice":
            ops.append({"op": k, "a": rnd.choice([lf.NONE, rnd.randint(-n, n)]), "b": rnd.choice([lf.NONE, rnd.randint(-n, n)]),
                        "c": rnd.choice([lf.NONE, 1, 2, 7, -1, -3])})
        elif k == "many":
            ops.append({"op": k, "is": [rnd.randint(-n, n - 1) for _ in range(rnd.randint(0, 4))]})
        else:
            ops.append({"op": k})
    return ops


def run(ctx):
    quick = ctx.tier == "quick"
    f = lf.files_mod()
    ctx.rule = ("TLC enumerates (content config) every file of up to 2-3 lines over 7 line kinds (empty, plain, blanks, multi-byte "
                "UTF-8, carriage return inside / at the end, a 9000-byte line) x terminated or not x every single read, and "
                "(interleave config) distinct-line files x index sources (built, list, index file; identity, reversed, subset) x "
                "histories of gets, slices over a start/stop/step grid and up to 2 interleaved iterators; every variant of the "
                "real classes (buffered, memory-mapped, mutable, record) is driven through every (state, operation) pair and all "
                "must produce the specification's observations (hence agree with each other); 200-line files with 300 "
                "interleaved reads are validated by TLC")
    ctx.assumptions += ["files are UTF-8 and the process runs in a UTF-8 locale", "empty files only for buffered variants"]
    content = {"Syms": "{1,2,3,4,5,6,7}", "MinLines": 0, "MaxLines": 2 if quick else 3, "DistinctLines": "FALSE", "IndexMode": '"built"',
               "MaxIters": 1, "SliceMode": '"none"', "Variant": '"ok"'}
    inter = {"Syms": "{2,4,5}" if quick else "{2,4,5,6}", "MinLines": 3, "MaxLines": 3 if quick else 4, "DistinctLines": "TRUE",
             "IndexMode": '"all"', "MaxIters": 2, "SliceMode": '"grid"', "Variant": '"ok"'}
    invs, props = ["ItersInRange"], ["IterOwnPosition"]
    model.mc(SPEC, content, ctx, "LineFile_content", invariants=invs, properties=props)
    model.mc(SPEC, inter, ctx, "LineFile_interleave", invariants=invs, properties=props)
    model.mc(SPEC, dict(inter, Variant='"shared"'), ctx, "LineFile_neg", invariants=invs, properties=props, expect_violation=True)
    gc, _ = graphwalk.emit_graph(SPEC, model.cfg_text(content, view="View", action_constraint="Emit"), ctx, "LineFile_content")
    gi, _ = graphwalk.emit_graph(SPEC, model.cfg_text(inter, view="View", action_constraint="Emit"), ctx, "LineFile_interleave")
    vs = lf.variants(f)
    jobs = []
    for name, spec in vs.items():
        ad = lf.LineFileAdapter(name, spec)
        jobs.append((gc, ad, "LineFile_content/" + name, dict(sig_fn=lambda *a, n=name: {"variant": n}, op_timeout=10.0)))
        if quick and name not in ("RandomLineAccessFile", "MemoryMappedRandomLineAccessFile", "MutableRecordFile",
                                  "MutableMemoryMappedRandomLineAccessFile"):
            continue
        jobs.append((gi, ad, "LineFile_interleave/" + name, dict(sig_fn=lambda *a, n=name: {"variant": n}, op_timeout=10.0)))
    for st in par.walks(ctx, jobs):
        ctx.note("walk %s" % st)
    ctx.exhaustive = True
    rnd = random.Random(ctx.seed * 7919 + 11)
    traces = []
    names = list(vs)
    for i in range(32 if quick else 240):
        name = names[i % len(names)]
        # every second round of the variants is recorded with sparse observations (nothing but the recorded operations touches the object)
        t = record(lf.LineFileAdapter(name, vs[name]), big_ops(rnd, 200 if i % 4 else 30, 300),
                   sparse=rnd if (i // len(names)) % 2 else None)
        if t is not None:
            traces.append(t)
    good = split_failed(traces, ctx, "LineFile")
    tconst = dict(inter, Syms="{}", MaxIters=3, MaxLines=1000)
    tracecheck.check_traces(SPEC, model.constants_block(tconst), good, ctx, "LineFile", {"iter_new"}, timeout=600)
