"""C03 - a pool stays correct across consecutive calls and across worker replacement."""
import random

from adapters import C01
from adapters import poolconf, poolsim

JUDGE = {"r": 1, "t": 1, "l": 0}


def scenarios(rnd, quick):
    out = [
        dict(pool="functor", nw=1, calls=[dict(n=2, chunk=1, ordered=True), dict(n=1, chunk=1, ordered=True)]),
        dict(pool="functor", nw=2, calls=[dict(n=2, chunk=1, ordered=True), dict(n=0, chunk=1, ordered=True), dict(n=2, chunk=1, ordered=False)]),
        dict(pool="factory", nw=1, quota=2, calls=[dict(n=2, chunk=1, ordered=True)] * 3),
        dict(pool="factory", nw=2, quota=1, calls=[dict(n=2, chunk=1, ordered=True), dict(n=3, chunk=1, ordered=False)]),
        dict(pool="factory", nw=2, quota=2, rq=1, calls=[dict(n=4, chunk=1, ordered=True), dict(n=4, chunk=2, ordered=True)]),
        dict(pool="functor", nw=2, rq=1, calls=[dict(n=3, chunk=1, ordered=True), dict(n=3, chunk=1, ordered=True)]),
        dict(pool="factory", nw=1, quota=1, calls=[dict(n=1, chunk=1, ordered=True), dict(n=0, chunk=1, ordered=True), dict(n=2, chunk=2, ordered=True)]),
    ]
    for _ in range(3 if quick else 20):
        nw = rnd.randint(1, 3)
        calls = [dict(n=rnd.randint(0, 5), chunk=rnd.randint(1, 3), ordered=rnd.random() < 0.6, lazy=rnd.random() < 0.3)
                 for _ in range(rnd.randint(2, 4))]
        s = dict(pool=rnd.choice(["functor", "factory", "factory"]), nw=nw, calls=calls)
        if s["pool"] == "factory":
            s["quota"] = rnd.choice([1, 2, 3])
        # work queue bounds: the documented float form, None, or an int that is not smaller than the number of workers
        wq = rnd.choice(["default", None, 1.0, 2.0, nw, nw + 1, 1])
        if wq != "default":
            s["wq"] = wq
        rq = rnd.choice(["default", None, 1, 2])
        if rq != "default":
            s["rq"] = rq
        out.append(s)
    for i, s in enumerate(out):
        s["calls"] = [dict(c) for c in s["calls"]]
        s["judge"] = JUDGE
        s["name"] = "m%d" % i
    return out


def run(ctx):
    quick = ctx.tier == "quick"
    ctx.rule = ("sequences of 2-4 calls on one pool (different lengths, chunk sizes, ordered/unordered, empty inputs in between) and "
                "FactoryFunctorPool with quotas 1-3 so that workers retire inside and exactly at the end of calls; values carry the call "
                "number, so a result leaking from an earlier call is rejected by the results clause; results and termination clauses "
                "enforced; schedules by preemption-bounded DFS, random and PCT walks; every execution validated by TLC against PoolObs.tla")
    ctx.assumptions += ["known finding (open): explicit integer work_queue_maxsize smaller than the number of workers with retiring workers"]
    # design level: exhaustive TLC runs of FunctorPool.tla and conformance of the real code with it
    try:
        hconf = poolsim.Harness()
    except Exception:
        hconf = None              # see run_family: controlled legs degrade, the exhaustive runs of the model still happen
    crnd = random.Random(ctx.seed * 7919 + 55)
    configs = [('C21', 1, 1, 0), ('C102u', 2, 2, 1), ('C2', 2, 2, 1)] if quick else [('C21', 1, 1, 0), ('C21', 2, 2, 0), ('C102u', 2, 2, 1), ('C22', 2, 2, 1), ('C22', 2, 1, 0)]
    if hconf is not None:
        sc0 = poolconf.scen_for("C2", 1, 1, 0, JUDGE)
        sc0.update(pool="factory", quota=1)
        hconf.shared = hconf.learn(sc0, crnd) | hconf.learn(poolconf.scen_for("C2", 1, 1, 0, JUDGE), crnd)
    poolconf.design_legs(ctx, configs, ['CallOK', 'NoBad', 'NoLeftovers', 'NoDeadlock'], False, ['CallOK'], hconf, crnd, 30 if quick else 300, 30 if quick else 300, JUDGE)
    poolconf.factory_conformance(ctx, hconf, crnd, quick, JUDGE)
    poolconf.factory_design_legs(ctx, quick, ['CallOK', 'NoBad', 'NoDeadlock'], 'stale', ['NoDeadlock'])
    rnd = random.Random(ctx.seed * 7919 + 103)
    C01.run_family(ctx, scenarios(rnd, quick), 400 if quick else 15000, "C03")


def replay_witness(ctx, witness):
    from adapters import poolsim
    return poolsim.replay_witness(ctx, witness)
