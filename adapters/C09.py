"""C09 - SortedSet / SortedMap against set / dict semantics."""
import importlib
import os
import random

from vlib import graphwalk, model, tlc, tracecheck
from vlib.graphwalk import Unexpected
from adapters.C06 import split_failed

SSET = os.path.join(tlc.SPECS, "adt", "SortedSet.tla")
SMAP = os.path.join(tlc.SPECS, "adt", "SortedMap.tla")


def mod():
    import windpyutils.generic as g
    import windpyutils.structures.sorted as m
    importlib.reload(g)
    importlib.reload(m)
    return m


class Num:
    """abstract value a (0..MaxV) <-> concrete number a/2, integral ones as int or float by parity mask"""

    def __init__(self, mask, maxv):
        self.mask, self.maxv = mask, maxv

    def conc(self, a, salt=0):
        if a % 2 == 1:
            return a / 2
        if (self.mask >> ((a // 2 + salt) % 16)) & 1:
            return float(a // 2)
        return a // 2

    def abst(self, x):
        if isinstance(x, bool) or not isinstance(x, (int, float)):
            raise Unexpected("a non-numeric element %r came out" % (x,))
        a = x * 2
        if a != int(a):
            raise Unexpected("element %r was never put in" % (x,))
        return int(a)


class NumWide(Num):
    """abstract value a -> the a-th entry of an ascending table over the whole numeric range: infinities, integers beyond the range
    of a float, a float next to the largest one, a fraction, zero (ints and floats mixed, as the property quantifies)"""
    TABLES = {8: [float("-inf"), -(10 ** 400), -1.5, 0, 2 ** 70, 1.7e308, 10 ** 400, float("inf")],
              6: [float("-inf"), -(10 ** 400), 0, 1.7e308, 10 ** 400, float("inf")],
              5: [-(10 ** 400), 0.5, 2 ** 70, 10 ** 400, float("inf")]}

    def __init__(self, maxv):
        Num.__init__(self, 0, maxv)
        size = min(k for k in NumWide.TABLES if k >= maxv + 1) if maxv + 1 <= 8 else None
        if size is None:
            raise tlc.MachineryError("NumWide: no table for MaxV=%d" % maxv)
        t = NumWide.TABLES[size]
        # keep both ends of the range when the table is longer than needed
        self.table = t if len(t) == maxv + 1 else t[:maxv] + t[-1:]

    def conc(self, a, salt=0):
        return self.table[a]

    def abst(self, x):
        if isinstance(x, bool) or not isinstance(x, (int, float)):
            raise Unexpected("a non-numeric element %r came out" % (x,))
        for i, v in enumerate(self.table):
            if v == x:
                return i
        raise Unexpected("element %r was never put in" % (x,))


FOREIGN = {1: "a", 2: None, 3: float("nan")}      # a str, None, and NaN: none of them can be ordered against numbers


class SetAdapter:
    def __init__(self, m, num):
        self.m, self.num = m, num
        self.calls = 0

    def new_world(self):
        return {"s": None}

    def obs(self, w):
        s = w["s"]
        if s is None:
            return {"built": False, "items": [], "len": 0, "mem": [0] * (self.num.maxv + 1)}
        items = [self.num.abst(x) for x in s]
        mem = [1 if self.num.conc(a, 3) in s else 0 for a in range(self.num.maxv + 1)]
        return {"built": True, "items": items, "len": len(s), "mem": mem}

    def apply(self, w, op):
        n, s, c = op["op"], w["s"], self.num.conc
        self.calls += 1
        salt = self.calls
        try:
            if n == "new":
                init = [c(a, salt + i) for i, a in enumerate(op["init"])]
                w["s"] = self.m.SortedSet(iter(init)) if (init or salt % 2) else self.m.SortedSet()
                if not init and salt % 2:
                    w["s"] = self.m.SortedSet([])
                return []
            if n == "add":
                s.add(c(op["x"], salt)); return []
            if n == "discard":
                s.discard(c(op["x"], salt)); return []
            if n == "remove":
                try:
                    s.remove(c(op["x"], salt)); return [1]
                except KeyError:
                    return []
            if n == "pop":
                try:
                    return [self.num.abst(s.pop())]
                except KeyError:
                    return []
            if n == "clear":
                s.clear(); return []
            if n == "contains":
                return [1 if c(op["x"], salt) in s else 0]
            if n == "probe":
                return [1 if FOREIGN[op["kind"]] in s else 0]
            if n == "probe_remove":
                try:
                    s.remove(FOREIGN[op["kind"]]); return [1]
                except KeyError:
                    return []
            if n == "len":
                return [len(s)]
            if n == "iter":
                return [self.num.abst(x) for x in s]
            other = [c(a, salt + i) for i, a in enumerate(op.get("init", []))]
            if n == "ior":
                s |= set(other); return []
            if n == "isub":
                s -= set(other); return []
            if n == "iand":
                s &= set(other); return []
            if n == "eq":
                return [1 if s == set(other) else 0]
        except (graphwalk.Timeout, Unexpected):
            raise
        except Exception as e:
            raise Unexpected("%s raised %s: %s" % (n, type(e).__name__, str(e)[:80]))
        raise tlc.MachineryError("adapter: unknown op %r" % (op,))


class MapAdapter:
    def __init__(self, m, num):
        self.m, self.num = m, num
        self.calls = 0

    def new_world(self):
        return {"m": None}

    def obs(self, w):
        m = w["m"]
        if m is None:
            return {"built": False, "keys": [], "vals": []}
        keys = [self.num.abst(k) for k in m]
        vals = [m[k] for k in m]
        if len(m) != len(keys):
            raise Unexpected("len()=%d but %d keys iterated" % (len(m), len(keys)))
        return {"built": True, "keys": keys, "vals": vals}

    def apply(self, w, op):
        n, m, c = op["op"], w["m"], self.num.conc
        self.calls += 1
        salt = self.calls
        try:
            if n == "new":
                ps = [(c(k, salt + i), v) for i, (k, v) in enumerate(op["ps"])]
                if op["kind"] == "none":
                    w["m"] = self.m.SortedMap()
                elif op["kind"] == "mapping":
                    w["m"] = self.m.SortedMap(dict(ps))
                else:
                    w["m"] = self.m.SortedMap(iter(ps)) if salt % 2 else self.m.SortedMap(list(ps))
                return []
            if n == "store":
                m[c(op["k"], salt)] = op["v"]; return []
            if n == "delete":
                try:
                    del m[c(op["k"], salt)]; return [1]
                except KeyError:
                    return []
            if n == "pop":
                try:
                    return [m.pop(c(op["k"], salt))]
                except KeyError:
                    return []
            if n == "popitem":
                try:
                    k, v = m.popitem(); return [self.num.abst(k), v]
                except KeyError:
                    return []
            if n == "setdefault":
                return [m.setdefault(c(op["k"], salt), op["d"])]
            if n == "update":
                m.update([(c(k, salt + i), v) for i, (k, v) in enumerate(op["ps"])]); return []
            if n == "clear":
                m.clear(); return []
            if n == "lookup":
                try:
                    return [m[c(op["k"], salt)]]
                except KeyError:
                    return []
            if n == "contains":
                return [1 if c(op["k"], salt) in m else 0]
            if n == "get":
                return [m.get(c(op["k"], salt), op["d"])]
            if n == "probe_lookup":
                try:
                    return [m[FOREIGN[op["kind"]]]]
                except KeyError:
                    return []
            if n == "probe_contains":
                return [1 if FOREIGN[op["kind"]] in m else 0]
            if n == "len":
                return [len(m)]
            if n == "iter":
                return [self.num.abst(k) for k in m]
            if n == "values":
                return list(m.values())
            if n == "items":
                out = []
                for k, v in m.items():
                    out += [self.num.abst(k), v]
                return out
            if n == "eq":
                return [1 if m == dict((c(k, salt + i), v) for i, (k, v) in enumerate(op["ps"])) else 0]
        except (graphwalk.Timeout, Unexpected):
            raise
        except Exception as e:
            raise Unexpected("%s raised %s: %s" % (n, type(e).__name__, str(e)[:80]))
        raise tlc.MachineryError("adapter: unknown op %r" % (op,))


def record(adapter, ops):
    w = adapter.new_world()
    tr = []
    for op in ops:
        if op["op"].startswith("probe") and tr and not (tr[-1]["st"].get("items") or tr[-1]["st"].get("keys")):
            continue        # the property speaks of probes that cannot be ordered against the content: needs content
        try:
            ret = graphwalk.guarded(lambda: adapter.apply(w, op), 2.0)
            st = graphwalk.guarded(lambda: graphwalk.safe_obs(adapter, w), 2.0)
        except (graphwalk.Timeout, Unexpected) as e:
            tr.append({"op": op, "ret": None, "st": None, "exc": type(e).__name__ + ":" + str(e)})
            break
        tr.append({"op": op, "ret": ret, "st": st})
    return tr


def set_ops(rnd, maxv, length):
    ops = [{"op": "new", "init": [rnd.randint(0, maxv) for _ in range(rnd.choice([0, 0, 1, 3, 6, 10]))]}]
    for _ in range(length):
        n = rnd.choice(["add"] * 5 + ["discard", "remove", "pop", "contains", "len", "iter", "probe", "probe_remove", "ior", "isub",
                                       "iand", "eq"] + ["clear"] * (rnd.random() < 0.1))
        if n in ("add", "discard", "remove", "contains"):
            ops.append({"op": n, "x": rnd.randint(0, maxv)})
        elif n in ("probe", "probe_remove"):
            ops.append({"op": n, "kind": rnd.choice([1, 2, 3])})
        elif n in ("ior", "isub", "iand", "eq"):
            ops.append({"op": n, "init": [rnd.randint(0, maxv) for _ in range(rnd.randint(0, 4))]})
        else:
            ops.append({"op": n})
    return ops


def map_ops(rnd, maxv, length):
    ps = [[rnd.randint(0, maxv), rnd.choice([10, 20, 30])] for _ in range(rnd.choice([0, 0, 1, 3, 6, 10]))]
    ops = [{"op": "new", "kind": rnd.choice(["pairs", "mapping", "pairs"]) if ps or rnd.random() < 0.7 else "none", "ps": ps}]
    if ops[0]["kind"] == "none":
        ops[0]["ps"] = []
    for _ in range(length):
        n = rnd.choice(["store"] * 5 + ["delete", "pop", "popitem", "setdefault", "update", "lookup", "contains", "get", "len",
                                         "iter", "values", "items", "eq", "probe_lookup", "probe_contains"])
        k = rnd.randint(0, maxv)
        if n == "store":
            ops.append({"op": n, "k": k, "v": rnd.choice([10, 20, 30])})
        elif n in ("delete", "pop", "lookup", "contains"):
            ops.append({"op": n, "k": k})
        elif n in ("setdefault", "get"):
            ops.append({"op": n, "k": k, "d": 99})
        elif n in ("update", "eq"):
            ops.append({"op": n, "ps": [[rnd.randint(0, maxv), rnd.choice([10, 20, 30])] for _ in range(rnd.randint(0, 3))]})
        elif n.startswith("probe"):
            ops.append({"op": n, "kind": rnd.choice([1, 2, 3])})
        else:
            ops.append({"op": n})
    return ops


def sig_fn(pre, op, ret, post):
    if op.get("op") == "new":
        seq = op.get("init", op.get("ps", []))
        keys = [p[0] if isinstance(p, list) else p for p in seq]
        return {"init_len": len(seq), "init_repeats": len(keys) != len(set(keys))}
    return {}


def run(ctx):
    quick = ctx.tier == "quick"
    m = mod()
    ctx.rule = ("TLC enumerates every initial collection (empty, unsorted, with repeats; mapping and pair form) up to the length "
                "bound over abstract numbers 0..MaxV (concretised as 0, 0.5, 1, ... with integral ones supplied as int or float) "
                "and every operation in every reachable content; the real SortedSet/SortedMap are driven through every (state, "
                "operation) pair; iteration, len, membership of every domain value and lookups are compared; foreign-typed probes "
                "('a', None) on non-empty content; random histories over 12 values judged by TLC")
    ctx.assumptions += ["numeric keys only (ints and floats, no NaN)", "foreign probes are a str and None against non-empty content"]
    for mask in ([0x5a5a] if quick else [0x5a5a, 0x0, 0xffff, 0x1234]):
        num = Num(mask, 3 if quick else 4)
        sc = {"MaxV": num.maxv, "MaxInit": 3, "Dedup": "TRUE"}
        if mask == 0x5a5a:
            model.mc(SSET, sc, ctx, "SortedSet", invariants=["NoRepeats"], properties=["IterAscending"])
            model.mc(SSET, dict(sc, Dedup="FALSE"), ctx, "SortedSet_neg", invariants=["NoRepeats"], properties=["IterAscending"],
                     expect_violation=True)
        g, _ = graphwalk.emit_graph(SSET, model.cfg_text(sc, view="View", action_constraint="Emit"), ctx, "SortedSet")
        st = graphwalk.walk(g, SetAdapter(m, num), ctx, "SortedSet", sig_fn=sig_fn, paths_per_state=2, history_ops=("clear", "popitem"))
        ctx.note("walk %s" % st)
        mc = {"MaxV": 2 if quick else 3, "Vals": "{10,20}", "MaxInit": 2 if quick else 3, "LaterWins": "TRUE"}
        num2 = Num(mask, mc["MaxV"])
        if mask == 0x5a5a:
            model.mc(SMAP, mc, ctx, "SortedMap", properties=["DictLike", "IterAscending"])
            model.mc(SMAP, dict(mc, LaterWins="FALSE"), ctx, "SortedMap_neg", properties=["DictLike", "IterAscending"],
                     expect_violation=True)
        g, _ = graphwalk.emit_graph(SMAP, model.cfg_text(mc, view="View", action_constraint="Emit"), ctx, "SortedMap")
        st = graphwalk.walk(g, MapAdapter(m, num2), ctx, "SortedMap", sig_fn=sig_fn, paths_per_state=2, history_ops=("clear", "popitem"))
        ctx.note("walk %s" % st)
        if mask == 0x5a5a:
            # the same graphs once more over the whole numeric range (infinities, integers no float can hold)
            g1, _ = graphwalk.emit_graph(SSET, model.cfg_text(sc, view="View", action_constraint="Emit"), ctx, "SortedSet")
            st = graphwalk.walk(g1, SetAdapter(m, NumWide(num.maxv)), ctx, "SortedSet(wide range)", sig_fn=sig_fn)
            st = graphwalk.walk(g, MapAdapter(m, NumWide(num2.maxv)), ctx, "SortedMap(wide range)", sig_fn=sig_fn)
    ctx.exhaustive = True
    rnd = random.Random(ctx.seed * 7919 + 9)
    num = Num(rnd.getrandbits(16), 11)
    n = 60 if quick else 3000
    sa, ma = SetAdapter(m, num), MapAdapter(m, num)
    st = split_failed([record(sa, set_ops(rnd, 11, 60)) for _ in range(n)], ctx, "SortedSet", sig_fn)
    tracecheck.check_traces(SSET, model.constants_block({"MaxV": 11, "MaxInit": 3, "Dedup": "TRUE"}), st, ctx, "SortedSet",
                            {"add", "discard", "remove", "pop"}, sig_fn=sig_fn)
    mt = split_failed([record(ma, map_ops(rnd, 11, 60)) for _ in range(n)], ctx, "SortedMap", sig_fn)
    tracecheck.check_traces(SMAP, model.constants_block({"MaxV": 11, "Vals": "{10,20,30}", "MaxInit": 3, "LaterWins": "TRUE"}), mt,
                            ctx, "SortedMap", {"store", "delete", "pop"}, sig_fn=sig_fn)
