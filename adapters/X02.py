"""X02 - growth beyond the listed properties: a consumer that stops early (abandons an imap generator after k results) and then
goes on using the pool.  The listed properties speak of *fully consumed* calls; this leg extends the observer specification
(PoolObs.tla: action Abandon) and explores the real code the same way (controlled schedules, every execution validated by TLC).
It is informational: what the specification rejects is recorded in evidence/X02.json as observations, never as a VIOLATION."""
import json
import random

from adapters import poolsim

JUDGE = {"r": 1, "t": 1, "l": 0}


def scenarios(rnd, quick):
    out = [
        dict(pool="functor", nw=1, calls=[dict(n=3, chunk=1, ordered=True, abandon_after=1), dict(n=2, chunk=1, ordered=True)]),
        dict(pool="functor", nw=2, calls=[dict(n=4, chunk=1, ordered=True, abandon_after=2), dict(n=2, chunk=1, ordered=False)]),
        dict(pool="functor", nw=2, rq=1, calls=[dict(n=5, chunk=1, ordered=True, abandon_after=1), dict(n=2, chunk=1, ordered=True)]),
        dict(pool="functor", nw=2, calls=[dict(n=4, chunk=2, ordered=False, abandon_after=1)]),
        dict(pool="factory", nw=1, quota=2, calls=[dict(n=3, chunk=1, ordered=True, abandon_after=1), dict(n=2, chunk=1, ordered=True)]),
        dict(pool="functor", nw=1, calls=[dict(n=3, chunk=1, ordered=True, lazy=True, abandon_after=2), dict(n=1, chunk=1, ordered=True)]),
        # every result taken but StopIteration never requested (zip(data, pool.imap(data)))
        dict(pool="functor", nw=2, calls=[dict(n=3, chunk=1, ordered=True, zipped=True), dict(n=2, chunk=1, ordered=True)]),
        dict(pool="factory", nw=1, quota=2, calls=[dict(n=2, chunk=1, ordered=False, zipped=True), dict(n=2, chunk=1, ordered=True, zipped=True), dict(n=2, chunk=1, ordered=True)]),
        dict(pool="functor", nw=2, rq=1, calls=[dict(n=4, chunk=2, ordered=True, lazy=True, zipped=True), dict(n=1, chunk=1, ordered=True)]),
    ]
    for _ in range(0 if quick else 10):
        n = rnd.randint(2, 6)
        s = dict(pool=rnd.choice(["functor", "factory"]), nw=rnd.randint(1, 3),
                 calls=[dict(n=n, chunk=rnd.randint(1, 2), ordered=rnd.random() < 0.6, lazy=rnd.random() < 0.4, abandon_after=rnd.randint(1, n - 1)),
                        dict(n=rnd.randint(0, 3), chunk=1, ordered=rnd.random() < 0.6)])
        if s["pool"] == "factory":
            s["quota"] = rnd.choice([1, 2, 3])
        if rnd.random() < 0.4:
            s["rq"] = rnd.choice([1, 2])
        out.append(s)
    for i, s in enumerate(out):
        s["calls"] = [dict(c) for c in s["calls"]]
        s["judge"] = JUDGE
        s["name"] = "ab%d" % i
    return out


def run(ctx):
    quick = ctx.tier == "quick"
    ctx.rule = ("informational (not a listed property): calls abandoned after k results followed by further calls; the real code under the "
                "deterministic scheduler, every execution validated by TLC against PoolObs.tla (action Abandon: nothing of an abandoned "
                "call may reach a later call, later calls and the exit still terminate); rejections are counted per scenario and kind")
    rnd = random.Random(ctx.seed * 7919 + 202)
    scens = scenarios(rnd, quick)
    try:
        h = poolsim.Harness()
    except Exception as e:
        ctx.note("controlled execution not possible (%s)" % type(e).__name__)
        return
    shared = set()
    for s in scens[:4]:
        shared |= h.learn(s, rnd)
    h.shared = shared
    worlds, ws = poolsim.explore_all(h, scens, ctx.seed * 7919 + 2, 150 if quick else 3000, ctx)
    ctx.quiet = True            # collect, do not report: this leg never raises an alarm
    poolsim.judge_worlds(worlds, ws, ctx, "X02")
    obs = {}
    for sig, desc, rp in ctx.pending:
        k = "%s: rejected at event '%s' (%s pool, %s)" % (sig.get("scenario"), sig.get("event"), sig.get("pool"), sig.get("phase"))
        o = obs.setdefault(k, {"executions": 0, "example": desc[:700], "schedule": rp.get("schedule")})
        o["executions"] += 1
    if worlds:
        ctx.sample({"scenario": {k: v for k, v in ws[0].items() if k != "judge"}, "schedule": worlds[0].schedule[:40],
                    "events": [e["op"] for e in worlds[0].events][:30]})
    ctx.extra["executions"] = len(worlds)
    ctx.extra["observations_outside_the_listed_properties"] = obs
    ctx.extra["scenarios"] = [{k: v for k, v in s.items() if k != "judge"} for s in scens]
    for k, o in sorted(obs.items()):
        print("[X02] observation (informational): %s in %d executions" % (k, o["executions"]), flush=True)
    ctx.pending, ctx.violations, ctx.quiet = [], [], False
