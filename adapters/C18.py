"""C18 - one opened line / map file read from many forked processes: ForkedReaders.tla + real forked processes
stepped along every schedule TLC generates (forkbaton)."""
import importlib
import json
import os
import random
import shutil
import tempfile
from concurrent.futures import ProcessPoolExecutor

from vlib import forkbaton, model, tlc

SPEC = os.path.join(tlc.SPECS, "fork", "MC_ForkedReaders.tla")
# 12 lines: multi-byte text, different lengths, and carriage returns (inside a line, at its end, alone on a line)
LINES = ["line %d %s" % (i, "é€\U0001d11e" * (i % 3) + "x" * (i * 7 % 11)) + {4: "\r", 7: "\rmid", 9: "\r"}.get(i, "") for i in range(12)]
LINES[10] = "\r"
SCRIPTS = {"S3a": {0: [2], 1: [7], 2: [4]}, "S3b": {0: [2, 5], 1: [7, 1], 2: [4, 8]}, "S4": {0: [2], 1: [7], 2: [4], 3: [9]}}
# how a process performs its accesses (the model only knows which line is wanted): plain indexing, iteration from the start
# (the i-th next() wants line i), or open() / `with` on the inherited object before the first access
STYLES = {"index": {}, "iter1": {1: "iter"}, "open2": {2: "open"}, "mixed": {1: "iter", 2: "open"}, "preread": {0: "preread"}}
ITER_SCRIPTS = {"S3a": {0: [2], 1: [0], 2: [4]}, "S3b": {0: [2, 5], 1: [0, 1], 2: [4, 8]}}
_CTX = {}


def files_mod():
    import windpyutils.files as f
    importlib.reload(f)
    return f


def schedules(ctx, name, procs, kind="buffered"):
    out = []
    consts = {"Procs": model.tla_set(procs), "Scripts": "<-" + name, "Kind": '"%s"' % kind, "Reopen": "TRUE"}
    cfg = model.cfg_text(consts, invariants=["ReadOK", "NoSharing"], action_constraint="EmitSched")
    res = tlc.run(SPEC, cfg, tag="fork_" + name, workers=1, timeout=900,
                  on_print=lambda tag, payload: out.append(tlc.decode_json_print(payload)) if tag == "SCHED" else None,
                  print_tags=("SCHED",))
    ctx.add_tlc("mc+emit:ForkedReaders_%s_%s" % (name, kind), res)
    if not res.ok or not out:
        raise tlc.MachineryError("ForkedReaders %s: %s %s" % (name, res.violated, res.errors[:2]))
    return out


def write_data(path_dir):
    """written once by the parent before any worker starts"""
    path = os.path.join(path_dir, "data.txt")
    with open(path, "wb") as fh:
        for ln in LINES:
            fh.write((ln + "\n").encode("utf-8"))
    return path


def _setup(path_dir):
    f = files_mod()
    forkbaton.install(f)
    offs, pos = [], 0
    for ln in LINES:
        offs.append(pos)
        pos += len((ln + "\n").encode("utf-8"))
    return f, os.path.join(path_dir, "data.txt"), offs


def _job(args):
    variant, sname, sched, d, noreopen = args[:5]
    style = args[5] if len(args) > 5 else "index"
    topology = "flat"
    if style.endswith("@chain"):
        style, topology = style[:-6], "chain"
    f, path, offs = _CTX.get("setup") or _CTX.setdefault("setup", _setup(d))
    how = dict(STYLES[style])
    if variant == "map":
        how = {p: ("open" if k == "iter" else k) for p, k in how.items()}     # a map file has no iteration
    scripts = ITER_SCRIPTS[sname] if "iter" in how.values() else SCRIPTS[sname]
    prereads = []
    if len(args) > 6:                      # randomised job: explicit wanted lines and reads done by the parent before forking
        scripts, prereads = {int(k): v for k, v in args[6]["scripts"].items()}, args[6]["prereads"]
    state = {}

    def make():
        if variant == "map":
            obj = f.MapAccessFile(path, {"k%d" % i: o for i, o in enumerate(offs)})
        else:
            cls = f.RandomLineAccessFile if variant == "buffered" else f.MemoryMappedRandomLineAccessFile
            if noreopen:
                class NoReopen(cls):
                    def reopen_if_needed(self):
                        pass
                cls = NoReopen
            obj = cls(path)
        obj.open()
        for k in prereads:
            if variant == "map":
                obj["k%d" % k]
            else:
                obj[k]
        if how.get(0) == "preread":
            # the parent uses the file before forking: the line just before the one child 1 will ask for first
            k = scripts[1][0] - 1
            if variant == "map":
                obj["k%d" % k]
            else:
                obj[k]
        return obj

    def access(obj, key):
        me = forkbaton.GATE[0].p
        kind = how.get(me, "index")
        if kind == "open" and "opened" not in state:
            state["opened"] = True
            obj.open() if key % 2 else obj.__enter__()
        if kind == "iter":
            if "it" not in state:
                state["it"] = iter(obj)
            return next(state["it"])
        if variant == "map":
            return obj["k%d" % key].rstrip("\n")
        return obj[key]
    # what a single process reads (the property is relative to that): a fresh object of the same kind, no forks
    state.clear()
    ref_obj = make()
    reference = {}
    for p_, keys in scripts.items():
        for key in keys:
            if key not in reference:
                if variant == "map":
                    reference[key] = repr(ref_obj["k%d" % key].rstrip("\n"))
                else:
                    reference[key] = repr(ref_obj[key])
    ref_obj.close()
    state.clear()
    r = forkbaton.run_schedule(make, access, scripts, sched, topology=topology)
    if not r["completed"]:
        # a loaded machine can starve the processes: one retry with a generous watchdog before it is believed
        state.clear()
        r = forkbaton.run_schedule(make, access, scripts, sched, timeout=60.0, topology=topology)
    bad = []
    for p, keys in scripts.items():
        for k, key in enumerate(keys):
            got = r["values"][p][k]
            if got != ("ok", reference[key]):
                bad.append({"proc": p, "access": k, "wanted_line": key, "got": got})
    return {"variant": variant, "scripts": sname, "style": style + ("@chain" if topology == "chain" else ""), "wanted": scripts, "schedule": sched, "bad": bad, "completed": r["completed"],
            "followed": r["followed"], "extra_steps": r["extra_steps"]}


def run(ctx):
    quick = ctx.tier == "quick"
    ctx.rule = ("TLC model-checks ForkedReaders.tla (every completed read returns the requested line; no two processes operate on one open "
                "file description; the negative control without re-opening must fail) and prints every complete schedule of Seek/Read "
                "steps of the parent and 2-3 forked children; each schedule is replayed into REAL forked processes whose seek/readline "
                "calls on the underlying file are gated by a pipe baton, for RandomLineAccessFile, MemoryMappedRandomLineAccessFile and "
                "MapAccessFile; every line read in every process is compared. distinct = distinct (variant, script, schedule)")
    ctx.assumptions += ["Linux fork / open-file-description semantics", "the gated operations are seek and readline of the underlying file object",
                        "watchdog 10 s per execution"]
    rnd = random.Random(ctx.seed * 7919 + 18)
    s3a = schedules(ctx, "S3a", [0, 1, 2])
    s3b = schedules(ctx, "S3b", [0, 1, 2])
    s4 = schedules(ctx, "S4", [0, 1, 2, 3])
    schedules(ctx, "S3a", [0, 1, 2], kind="mmap")
    neg = dict(Procs="{0,1,2}", Scripts="<-S3a", Kind='"buffered"', Reopen="FALSE")
    model.mc(SPEC, neg, ctx, "ForkedReaders_neg", invariants=["ReadOK", "NoSharing"], view=None, expect_violation=True)
    ctx.extra["schedules"] = {"S3a": len(s3a), "S3b": len(s3b), "S4": len(s4)}
    os.makedirs(tlc.WORK, exist_ok=True)
    d = tempfile.mkdtemp(prefix="c18_", dir=tlc.WORK)
    write_data(d)
    jobs = []
    for variant in ("buffered", "mmap", "map"):
        jobs += [(variant, "S3a", s, d, False) for s in s3a]
    nb = 400 if quick else len(s3b)
    for variant, n in (("buffered", nb), ("map", nb if not quick else 200), ("mmap", 200 if quick else 3000)):
        jobs += [(variant, "S3b", s, d, False) for s in (s3b if n >= len(s3b) else rnd.sample(s3b, n))]
    jobs += [("buffered", "S4", s, d, False) for s in (rnd.sample(s4, 200) if quick else s4)]
    # other ways of using the inherited object in a child: iteration, open() / with before the first access
    for style in ("iter1", "open2", "mixed", "preread"):
        for variant in ("buffered", "mmap", "map"):
            jobs += [(variant, "S3a", s, d, False, style) for s in s3a]
            jobs += [(variant, "S3b", s, d, False, style) for s in rnd.sample(s3b, 60 if quick else 2000)]
    # descendants of any depth: process p is forked by process p-1 (the parent of a reader is not always the process that opened the file)
    for style in ("index@chain", "open2@chain", "preread@chain"):
        for variant in ("buffered", "mmap", "map"):
            jobs += [(variant, "S3a", s, d, False, style) for s in s3a]
            jobs += [(variant, "S3b", s, d, False, style) for s in rnd.sample(s3b, 60 if quick else 2000)]
    jobs += [("buffered", "S4", s, d, False, "index@chain") for s in rnd.sample(s4, 100 if quick else 2000)]
    # randomised uses: wanted lines (often adjacent ones) and reads the parent does before forking, on TLC's schedules
    shapes = {"S3a": (s3a, 1), "S3b": (s3b, 2)}
    for _ in range(300 if quick else 6000):
        sname = rnd.choice(["S3a", "S3b", "S3b"])
        scheds, n = shapes[sname]
        base = rnd.randint(1, 8)
        pick = lambda: min(11, max(0, base + rnd.choice([-1, 0, 1, 1, 2, rnd.randint(-5, 5)])))
        scripts = {str(p): [pick() for _ in range(n)] for p in (0, 1, 2)}
        spec = {"scripts": scripts, "prereads": [min(11, max(0, base + rnd.choice([-1, 0, 1]))) for _ in range(rnd.randint(0, 2))]}
        jobs.append((rnd.choice(["buffered", "buffered", "map", "mmap"]), sname, rnd.choice(scheds), d, False,
                     rnd.choice(["index", "index", "open2", "index@chain"]), spec))
    negjobs = [("buffered", "S3a", s, d, True) for s in s3a]
    negchain = [("buffered", "S3a", s, d, True, "index@chain") for s in s3a]
    try:
        with ProcessPoolExecutor(max_workers=16) as ex:
            results = list(ex.map(_job, jobs, chunksize=8))
            negres = list(ex.map(_job, negjobs, chunksize=8))
            negres_chain = list(ex.map(_job, negchain, chunksize=8))
    finally:
        shutil.rmtree(d, ignore_errors=True)
    # the baton really controls shared descriptions: without the re-open some schedule must read a wrong line
    wrong = sum(1 for r in negres if r["bad"])
    ctx.extra.setdefault("negative_controls", []).append({"name": "real code with reopen_if_needed disabled", "schedules": len(negres),
                                                          "schedules_with_wrong_reads": wrong})
    if wrong == 0:
        raise tlc.MachineryError("forkbaton self-test: with re-opening disabled no schedule produced a wrong read")
    wrong_chain = sum(1 for r in negres_chain if r["bad"])
    ctx.extra["negative_controls"].append({"name": "real code with reopen_if_needed disabled, forked chain", "schedules": len(negres_chain),
                                           "schedules_with_wrong_reads": wrong_chain})
    if wrong_chain == 0:
        raise tlc.MachineryError("forkbaton self-test (chain): with re-opening disabled no schedule produced a wrong read")
    ctx.exhaustive = not quick
    incomplete = 0
    for r in results:
        ctx.traces += 1
        ctx.case((r["variant"], r["scripts"], r.get("style"), tuple(r["schedule"])))
        if not r["completed"]:
            incomplete += 1
        if r["bad"] or not r["completed"]:
            sig = {"kind": "fork-schedule", "variant": r["variant"]}
            desc = "%s (%s), wanted lines %s, schedule %s: %s" % (r["variant"], r.get("style"), json.dumps(r.get("wanted")), r["schedule"],
                                                          ("reads returned the wrong line: %s" % json.dumps(r["bad"][:3])) if r["bad"]
                                                          else "the processes did not finish within the watchdog")
            ctx.violation(sig, desc, {"engine": "forkbaton", **r})
    ctx.extra["fork_executions"] = {"count": len(results), "incomplete": incomplete,
                                    "model_steps_followed": sum(r["followed"] for r in results),
                                    "extra_gated_steps": sum(r["extra_steps"] for r in results)}
    ctx.sample({"variant": results[0]["variant"], "scripts": SCRIPTS[results[0]["scripts"]], "schedule": results[0]["schedule"]})
