"""C05 - FunctorMap and mul_p_map return map(f, data) in input order (controlled execution of pools.py, maps.py, workers.py)."""
import random
import time

from vlib import simworld as S
from vlib import tlc
from adapters import poolsim
from adapters.poolsim import f, value, decode

JUDGE = {"r": 1, "t": 1, "l": 0}
POOLS = tlc.REPO + "/windpyutils/parallel/pools.py"
MAPS = tlc.REPO + "/windpyutils/parallel/maps.py"
WORKERS = tlc.REPO + "/windpyutils/parallel/workers.py"


class Harness:
    shared = ()

    def main_fn(self, scen):
        def main():
            w = S.W
            w.event(op="cfg", **scen["judge"])
            S.CPU_COUNT[0] = scen.get("cpu", 2)
            S.PIPE_CAP[0] = scen.get("pipe", 0)
            if scen["pool"] == "functormap":
                mod = S.load(POOLS, "pools_sim")
                fm = mod.FunctorMap(f, scen["nw"])
                w.constructed = True
                with fm:
                    made = {}
                    if scen.get("calls_first"):
                        # every call is made before any of the result generators is started ([fm(p) for p in parts]); the calls are
                        # lazy, so they are still independent of each other when the generators are consumed one after another
                        for ci, call in enumerate(scen["calls"]):
                            data = [value(ci + 1, i) for i in range(call["n"])]
                            made[ci] = fm(iter(data) if call.get("lazy") else data, call["chunk"])
                    for ci, call in enumerate(scen["calls"]):
                        c = ci + 1
                        w.event(op="call_begin", c=c, n=call["n"], chunk=call["chunk"], ord=1)
                        data = [value(c, i) for i in range(call["n"])]
                        it = iter(data) if call.get("lazy") else data
                        gen_obj = made[ci] if ci in made else fm(it, call["chunk"])
                        if call.get("zipped"):
                            # the consumer takes exactly as many results as there are elements and never asks for more
                            # (zip(data, fm(data)), islice): every result was consumed, the generator is dropped suspended
                            for _, y in zip(range(call["n"]), gen_obj):
                                cc, ii = decode(y)
                                w.event(op="yield", c=cc, i=ii)
                            gen_obj.close()
                        else:
                            for y in gen_obj:
                                cc, ii = decode(y)
                                w.event(op="yield", c=cc, i=ii)
                        w.event(op="call_end")
            else:
                wmod = S.load(WORKERS, "workers_sim")
                mod = S.load(MAPS, "maps_sim", extra_modules={"windpyutils.parallel.workers": wmod})
                w.constructed = True
                for ci, call in enumerate(scen["calls"]):
                    c = ci + 1
                    w.event(op="call_begin", c=c, n=call["n"], chunk=1, ord=1)
                    data = [value(c, i) for i in range(call["n"])]
                    res = mod.mul_p_map(f, iter(data) if call.get("lazy") else data, scen["nw"])
                    if not isinstance(res, list):
                        w.event(op="yield", c=0, i=0)
                    for y in res:
                        cc, ii = decode(y)
                        w.event(op="yield", c=cc, i=ii)
                    w.event(op="call_end")
            alive = sum(1 for t in w.tasks if t.name.startswith("P") and not t.done)
            w.event(op="exit", alive=alive)
        return main

    def execute(self, scen, chooser, max_steps=4000):
        w = S.World(chooser, max_steps=max_steps)
        t0 = time.time()
        w.run(self.main_fn(scen))
        w.wall = time.time() - t0
        return w


def scenarios(rnd, quick):
    out = [
        dict(pool="functormap", nw=1, calls=[dict(n=2, chunk=1)]),
        dict(pool="functormap", nw=2, calls=[dict(n=3, chunk=1)]),
        dict(pool="functormap", nw=3, calls=[dict(n=2, chunk=1)]),                       # more workers than chunks
        dict(pool="functormap", nw=2, calls=[dict(n=0, chunk=1), dict(n=3, chunk=2)]),   # empty input, then chunked
        dict(pool="functormap", nw=2, calls=[dict(n=5, chunk=7)]),                       # chunk larger than the input
        dict(pool="functormap", nw=2, calls=[dict(n=3, chunk=1), dict(n=2, chunk=1)]),   # repeated calls are independent
        dict(pool="functormap", nw=2, calls=[dict(n=2, chunk=1, zipped=True), dict(n=2, chunk=1)]),   # all results taken, no StopIteration
        dict(pool="functormap", nw=1, calls=[dict(n=3, chunk=2, zipped=True), dict(n=1, chunk=1, zipped=True), dict(n=2, chunk=1)]),
        dict(pool="functormap", nw=2, calls_first=True, calls=[dict(n=3, chunk=2), dict(n=2, chunk=1), dict(n=0, chunk=1), dict(n=1, chunk=1)]),
        dict(pool="mulpmap", nw=1, cpu=1, calls=[dict(n=2)]),
        dict(pool="mulpmap", nw=2, cpu=2, calls=[dict(n=3)]),
        dict(pool="mulpmap", nw=3, cpu=1, calls=[dict(n=2)]),                            # work queue smaller than the workers
        dict(pool="mulpmap", nw=2, cpu=2, calls=[dict(n=0)]),
        dict(pool="mulpmap", nw=2, cpu=2, calls=[dict(n=2), dict(n=3)]),                 # class-level queues survive the call
        dict(pool="mulpmap", nw=2, cpu=2, calls=[dict(n=0), dict(n=3)]),                 # an empty call must not leave workers behind
        dict(pool="mulpmap", nw=1, cpu=1, calls=[dict(n=1), dict(n=0), dict(n=2)]),
        dict(pool="functormap", nw=2, calls=[dict(n=0, chunk=2), dict(n=0, chunk=1), dict(n=3, chunk=1)]),
        # results larger than the pipe buffer: a worker cannot exit before its results were read
        dict(pool="mulpmap", nw=2, cpu=2, pipe=1, calls=[dict(n=4)]),
        dict(pool="mulpmap", nw=1, cpu=1, pipe=1, calls=[dict(n=3), dict(n=2)]),
        dict(pool="functormap", nw=2, pipe=1, calls=[dict(n=4, chunk=1), dict(n=2, chunk=1)]),
        # more chunks than work-queue slots + workers, results as large as the pipe
        dict(pool="functormap", nw=1, pipe=1, calls=[dict(n=4, chunk=1)]),
        dict(pool="functormap", nw=2, pipe=1, calls=[dict(n=7, chunk=1)]),
        dict(pool="mulpmap", nw=2, cpu=1, pipe=1, calls=[dict(n=6)]),
    ]
    for _ in range(3 if quick else 20):
        kind = rnd.choice(["functormap", "mulpmap"])
        calls = [dict(n=rnd.randint(0, 6), chunk=rnd.randint(1, 3), lazy=rnd.random() < 0.4, zipped=rnd.random() < 0.25) for _ in range(rnd.randint(1, 3))]
        out.append(dict(pool=kind, nw=rnd.randint(1, 3), cpu=rnd.randint(1, 3), pipe=rnd.choice([0, 0, 1, 2]), calls=calls,
                        calls_first=rnd.random() < 0.2))
    for i, s in enumerate(out):
        s["judge"] = JUDGE
        s["name"] = "p%d" % i
    return out


def real_leg(ctx, quick, rnd):
    """FunctorMap and mul_p_map with REAL processes, observed through the same events and judged by PoolObs.tla."""
    import json
    import multiprocessing
    import os
    import select
    import signal
    import sys
    from vlib import model, tracecheck
    from adapters import realrun

    def child(scen, wfd):
        sys.path.insert(0, tlc.REPO)
        import importlib
        import windpyutils.parallel.pools as pools
        import windpyutils.parallel.workers as workers
        import windpyutils.parallel.maps as maps
        for m in (pools, workers, maps):
            importlib.reload(m)
        n = [0]

        def ev(**kw):
            n[0] += 1
            os.write(wfd, (json.dumps([n[0], kw]) + "\n").encode())
        ev(op="cfg", **JUDGE)
        fun, unpack = f, (lambda y: y)
        if scen.get("big"):
            # results larger than the buffer of an OS pipe (64 KiB): a put into a multiprocessing queue cannot complete, and a
            # process cannot finish, before the consumer reads
            fun, unpack = (lambda x: (f(x), "p" * 300000)), (lambda y: y[0] if isinstance(y, tuple) and len(y) == 2 else y)
        try:
            if scen["pool"] == "functormap":
                with pools.FunctorMap(fun, scen["nw"]) as fm:
                    for ci, call in enumerate(scen["calls"]):
                        c = ci + 1
                        ev(op="call_begin", c=c, n=call["n"], chunk=call["chunk"], ord=1)
                        try:
                            gen_obj = fm(iter([value(c, i) for i in range(call["n"])]), call["chunk"])
                            for _, y in (zip(range(call["n"]), gen_obj) if call.get("zipped") else enumerate(gen_obj)):
                                cc, ii = decode(unpack(y))
                                ev(op="yield", c=cc, i=ii)
                            gen_obj.close()
                        except Exception as e:
                            ev(op="consumer_exc", what=repr(e)[:200])
                            raise realrun.ConsumerExc()
                        ev(op="call_end")
            else:
                for ci, call in enumerate(scen["calls"]):
                    c = ci + 1
                    ev(op="call_begin", c=c, n=call["n"], chunk=1, ord=1)
                    try:
                        res = maps.mul_p_map(fun, [value(c, i) for i in range(call["n"])], scen["nw"])
                    except Exception as e:
                        ev(op="consumer_exc", what=repr(e)[:200])
                        raise realrun.ConsumerExc()
                    for y in res:
                        cc, ii = decode(unpack(y))
                        ev(op="yield", c=cc, i=ii)
                    ev(op="call_end")
        except realrun.ConsumerExc:
            pass
        ev(op="exit", alive=len(multiprocessing.active_children()))
    scens = [dict(pool="functormap", nw=2, calls=[dict(n=7, chunk=2), dict(n=0, chunk=1), dict(n=3, chunk=1)]),
             dict(pool="functormap", nw=2, calls=[dict(n=4, chunk=1, zipped=True), dict(n=3, chunk=2, zipped=True), dict(n=3, chunk=1)]),
             dict(pool="functormap", nw=3, calls=[dict(n=2, chunk=5)]),
             dict(pool="functormap", nw=2, big=True, calls=[dict(n=9, chunk=1), dict(n=3, chunk=2)]),
             dict(pool="mulpmap", nw=2, big=True, calls=[dict(n=7), dict(n=2)]),
             dict(pool="mulpmap", nw=2, calls=[dict(n=5), dict(n=0), dict(n=3)]),
             dict(pool="mulpmap", nw=3, calls=[dict(n=1)])]
    for _ in range(0 if quick else 12):
        scens.append(dict(pool=rnd.choice(["functormap", "mulpmap"]), nw=rnd.randint(1, 3),
                          calls=[dict(n=rnd.randint(0, 9), chunk=rnd.randint(1, 4)) for _ in range(rnd.randint(1, 3))]))
    traces, meta = [], []
    for i, s in enumerate(scens):
        s["name"] = "realmap%d" % i
        r, w = os.pipe()
        pid = os.fork()
        if pid == 0:
            code = 0
            try:
                os.setsid()
                os.close(r)
                child(s, w)
            except BaseException as e:      # noqa
                os.write(w, (json.dumps([10 ** 9, {"op": "harness_exc", "what": repr(e)[:200]}]) + "\n").encode())
                code = 1
            finally:
                os._exit(code)
        os.close(w)
        buf, events, finished = b"", [], False
        deadline = time.time() + 90
        while time.time() < deadline:
            rd, _, _ = select.select([r], [], [], 0.3)
            if rd:
                chunk = os.read(r, 1 << 16)
                if chunk:
                    buf += chunk
                    while b"\n" in buf:
                        line, buf = buf.split(b"\n", 1)
                        events.append(json.loads(line))
                    continue
            done, _ = os.waitpid(pid, os.WNOHANG)
            if done:
                finished = True
                break
        try:
            os.killpg(pid, signal.SIGKILL)
        except OSError:
            pass
        if not finished:
            try:
                os.waitpid(pid, 0)
            except OSError:
                pass
        os.close(r)
        events.sort(key=lambda e: e[0])
        tr, exc = realrun.to_trace([e[1] for e in events], finished)
        if exc is not None:
            raise tlc.MachineryError("C05 real leg: %s" % (exc,))
        traces.append(tr)
        meta.append((s, finished))
    verdicts = tracecheck.validate(poolsim.OBS, model.constants_block({"MaxN": 3, "MaxWorkers": 2}), traces, ctx, "C05_real")
    for (s, fin), tr, (matched, total) in zip(meta, traces, verdicts):
        ctx.traces += 1
        ctx.case(("C05real", json.dumps(s, sort_keys=True)))
        if matched != total:
            evx = tr[matched]["op"]
            ctx.violation({"kind": "realrun", "scenario": s["name"], "event": evx["op"], "pool": s["pool"]},
                          "C05 (real processes): scenario %s is rejected by the observer specification at event %d %s" % (
                              json.dumps(s, sort_keys=True), matched, json.dumps(evx)),
                          {"engine": "realrun", "scenario": s, "events": [t["op"] for t in tr][:300], "rejected_at": matched})
    ctx.extra["real_process_executions"] = {"count": len(traces)}


def run(ctx):
    quick = ctx.tier == "quick"
    ctx.rule = ("the real pools.py (FunctorMap) and maps.py + workers.py (mul_p_map with its class-level queues, the modules are "
                "re-executed for every controlled run) under the deterministic scheduler; inputs of 0-6 elements (lists and iterators), "
                "chunk sizes 1-7, 1-3 workers incl. more workers than chunks and work queues smaller than the number of workers, "
                "sequences of calls; schedules by preemption-bounded DFS + random/PCT walks; each execution validated by TLC against "
                "PoolObs.tla (results + termination). FunctorMap.tla (every action = one visible operation of the code; pipe capacity of "
                "multiprocessing.Queue modelled) is model-checked exhaustively (order, completeness, clean end, deadlock freedom, "
                "termination; negative controls join-before-collect and a shared reorder buffer) and bound to the code step by step in "
                "both directions. distinct = distinct (scenario, schedule) executions")
    ctx.assumptions += ["shim fidelity: documented blocking semantics of multiprocessing.Queue / Process", "bounded exploration of schedules"]
    rnd = random.Random(ctx.seed * 7919 + 5)
    # design level: the implementation-shaped model (every action = one visible operation), exhaustively, with negative controls
    from adapters import mapconf
    mapconf.design_legs(ctx, quick)
    real_leg(ctx, quick, rnd)
    h = Harness()
    scens = scenarios(rnd, quick)
    probe = h.execute(scens[0], S.scripted_chooser([]))
    pexc = next((t.exc for t in probe.tasks if t.exc is not None), None)
    if isinstance(pexc, (ImportError, NotImplementedError, AttributeError, TypeError)):
        # the code uses something the shims do not offer (the real-process leg above ran the same kind of scenario without
        # trouble): coverage degrades to the real-process leg, no alarm is raised for a limit of the machinery
        ctx.note("controlled execution not possible (%r); only the real-process leg ran" % (pexc,))
        ctx.extra["controlled_legs"] = "not-run"
        return
    # the model is bound to the code step by step, in both directions (evidence only, never an alarm)
    try:
        mapconf.conformance(ctx, h, random.Random(ctx.seed * 7919 + 51), quick, JUDGE)
    except tlc.MachineryError:
        raise
    except Exception as e:
        ctx.extra["conformance_with_FunctorMap_tla"] = {"status": "not-run", "why": "%s: %s" % (type(e).__name__, str(e)[:200])}
    worlds, ws = poolsim.explore_all(h, scens, ctx.seed * 7919 + 5, 400 if quick else 15000, ctx)
    steps = sum(w.steps for w in worlds)
    outcomes = {}
    for w in worlds:
        outcomes[w.outcome] = outcomes.get(w.outcome, 0) + 1
    ctx.extra["executions"] = {"count": len(worlds), "visible_ops": steps, "outcomes": outcomes}
    poolsim.judge_worlds(worlds, ws, ctx, "C05")
    w = worlds[len(worlds) // 2]
    ctx.sample({"scenario": ws[len(worlds) // 2], "schedule": w.schedule[:40], "events": [e["op"] for e in w.events][:30]})


def replay_witness(ctx, witness):
    return poolsim.replay_witness(ctx, witness, harness_factory=Harness)
