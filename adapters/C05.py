"""C05 - FunctorMap and mul_p_map return map(f, data) in input order (controlled execution of pools.py, maps.py, workers.py)."""
import random
import time

from vlib import simworld as S
from adapters import poolsim
from adapters.poolsim import f, value, decode

JUDGE = {"r": 1, "t": 1, "l": 0}
POOLS = "/repo/windpyutils/parallel/pools.py"
MAPS = "/repo/windpyutils/parallel/maps.py"
WORKERS = "/repo/windpyutils/parallel/workers.py"


class Harness:
    shared = ()

    def main_fn(self, scen):
        def main():
            w = S.W
            w.event(op="cfg", **scen["judge"])
            S.CPU_COUNT[0] = scen.get("cpu", 2)
            S.PIPE_CAP[0] = scen.get("pipe", 0)
            if scen["pool"] == "functormap":
                mod = S.load(POOLS, "pools_sim")
                fm = mod.FunctorMap(f, scen["nw"])
                w.constructed = True
                with fm:
                    for ci, call in enumerate(scen["calls"]):
                        c = ci + 1
                        w.event(op="call_begin", c=c, n=call["n"], chunk=call["chunk"], ord=1)
                        data = [value(c, i) for i in range(call["n"])]
                        it = iter(data) if call.get("lazy") else data
                        for y in fm(it, call["chunk"]):
                            cc, ii = decode(y)
                            w.event(op="yield", c=cc, i=ii)
                        w.event(op="call_end")
            else:
                wmod = S.load(WORKERS, "workers_sim")
                mod = S.load(MAPS, "maps_sim", extra_modules={"windpyutils.parallel.workers": wmod})
                w.constructed = True
                for ci, call in enumerate(scen["calls"]):
                    c = ci + 1
                    w.event(op="call_begin", c=c, n=call["n"], chunk=1, ord=1)
                    data = [value(c, i) for i in range(call["n"])]
                    res = mod.mul_p_map(f, iter(data) if call.get("lazy") else data, scen["nw"])
                    if not isinstance(res, list):
                        w.event(op="yield", c=0, i=0)
                    for y in res:
                        cc, ii = decode(y)
                        w.event(op="yield", c=cc, i=ii)
                    w.event(op="call_end")
            alive = sum(1 for t in w.tasks if t.name.startswith("P") and not t.done)
            w.event(op="exit", alive=alive)
        return main

    def execute(self, scen, chooser, max_steps=4000):
        w = S.World(chooser, max_steps=max_steps)
        t0 = time.time()
        w.run(self.main_fn(scen))
        w.wall = time.time() - t0
        return w


def scenarios(rnd, quick):
    out = [
        dict(pool="functormap", nw=1, calls=[dict(n=2, chunk=1)]),
        dict(pool="functormap", nw=2, calls=[dict(n=3, chunk=1)]),
        dict(pool="functormap", nw=3, calls=[dict(n=2, chunk=1)]),                       # more workers than chunks
        dict(pool="functormap", nw=2, calls=[dict(n=0, chunk=1), dict(n=3, chunk=2)]),   # empty input, then chunked
        dict(pool="functormap", nw=2, calls=[dict(n=5, chunk=7)]),                       # chunk larger than the input
        dict(pool="functormap", nw=2, calls=[dict(n=3, chunk=1), dict(n=2, chunk=1)]),   # repeated calls are independent
        dict(pool="mulpmap", nw=1, cpu=1, calls=[dict(n=2)]),
        dict(pool="mulpmap", nw=2, cpu=2, calls=[dict(n=3)]),
        dict(pool="mulpmap", nw=3, cpu=1, calls=[dict(n=2)]),                            # work queue smaller than the workers
        dict(pool="mulpmap", nw=2, cpu=2, calls=[dict(n=0)]),
        dict(pool="mulpmap", nw=2, cpu=2, calls=[dict(n=2), dict(n=3)]),                 # class-level queues survive the call
        dict(pool="mulpmap", nw=2, cpu=2, calls=[dict(n=0), dict(n=3)]),                 # an empty call must not leave workers behind
        dict(pool="mulpmap", nw=1, cpu=1, calls=[dict(n=1), dict(n=0), dict(n=2)]),
        dict(pool="functormap", nw=2, calls=[dict(n=0, chunk=2), dict(n=0, chunk=1), dict(n=3, chunk=1)]),
        # results larger than the pipe buffer: a worker cannot exit before its results were read
        dict(pool="mulpmap", nw=2, cpu=2, pipe=1, calls=[dict(n=4)]),
        dict(pool="mulpmap", nw=1, cpu=1, pipe=1, calls=[dict(n=3), dict(n=2)]),
        dict(pool="functormap", nw=2, pipe=1, calls=[dict(n=4, chunk=1), dict(n=2, chunk=1)]),
    ]
    for _ in range(3 if quick else 20):
        kind = rnd.choice(["functormap", "mulpmap"])
        calls = [dict(n=rnd.randint(0, 6), chunk=rnd.randint(1, 3), lazy=rnd.random() < 0.4) for _ in range(rnd.randint(1, 3))]
        out.append(dict(pool=kind, nw=rnd.randint(1, 3), cpu=rnd.randint(1, 3), pipe=rnd.choice([0, 0, 1, 2]), calls=calls))
    for i, s in enumerate(out):
        s["judge"] = JUDGE
        s["name"] = "p%d" % i
    return out


def run(ctx):
    quick = ctx.tier == "quick"
    ctx.rule = ("the real pools.py (FunctorMap) and maps.py + workers.py (mul_p_map with its class-level queues, the modules are "
                "re-executed for every controlled run) under the deterministic scheduler; inputs of 0-6 elements (lists and iterators), "
                "chunk sizes 1-7, 1-3 workers incl. more workers than chunks and work queues smaller than the number of workers, "
                "sequences of calls; schedules by preemption-bounded DFS + random/PCT walks; each execution validated by TLC against "
                "PoolObs.tla (results + termination). distinct = distinct (scenario, schedule) executions")
    ctx.assumptions += ["shim fidelity: documented blocking semantics of multiprocessing.Queue / Process", "bounded exploration of schedules"]
    rnd = random.Random(ctx.seed * 7919 + 5)
    h = Harness()
    scens = scenarios(rnd, quick)
    worlds, ws = poolsim.explore_all(h, scens, ctx.seed * 7919 + 5, 400 if quick else 15000, ctx)
    steps = sum(w.steps for w in worlds)
    outcomes = {}
    for w in worlds:
        outcomes[w.outcome] = outcomes.get(w.outcome, 0) + 1
    ctx.extra["executions"] = {"count": len(worlds), "visible_ops": steps, "outcomes": outcomes}
    poolsim.judge_worlds(worlds, ws, ctx, "C05")
    w = worlds[len(worlds) // 2]
    ctx.sample({"scenario": ws[len(worlds) // 2], "schedule": w.schedule[:40], "events": [e["op"] for e in w.events][:30]})
