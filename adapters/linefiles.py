"""Shared harness for the line-file properties C11, C12, C13: concretisation of line symbols,
file construction, variants, adapters for LineFile.tla and MutableLineFile.tla."""
import importlib
import os
import shutil
import tempfile
from dataclasses import dataclass

from vlib import graphwalk, tlc
from vlib.graphwalk import Unexpected
from vlib.graphwalk import wrap, Skip

NONE = 99

# symbol -> concrete line text.  1 = empty line; 4 = 2-, 3- and 4-byte UTF-8; 5 = carriage return inside;
# 6 = ends in a carriage return; 7 = longer than the I/O buffer (8192); 8, 9 = edit symbols
TABLE = {1: "", 2: "a", 3: "  pad \t ", 4: "žluťoučký € \U0001d11e", 5: "x\ry", 6: "end\r",
         7: "L" * 9000 + "€", 8: "b", 9: "c c"}


def text_of(sym, plain=False):
    """Concrete text of a symbol. Large symbols (trace files) are numbered lines with decorations."""
    if sym in TABLE:
        t = TABLE[sym]
        if plain and ("\r" in t):
            raise AssertionError("symbol with a line break used where content must be break-free")
        return t
    base = "line-%d" % sym
    k = sym % 5
    if plain:
        k = sym % 3 if sym % 3 != 2 else 4
    if k == 1:
        return base + " é€\U0001d11e"
    if k == 2:
        return base + "\rmid"
    if k == 3:
        return base + "\r"
    if k == 4:
        return "   " + base + "  "
    return base


def files_mod():
    import windpyutils.files as f
    importlib.reload(f)
    return f


_RAW = {}


def make_raw_record(f):
    if id(f) in _RAW:
        return _RAW[id(f)][1]

    @dataclass
    class RawRecord(f.Record):
        text: str

        @classmethod
        def load(cls, s):
            return cls(s)

        def save(self):
            return self.text
    _RAW[id(f)] = (f, RawRecord)
    return RawRecord


def variants(f, mutable_only=False, plain_only=False):
    """name -> (constructor(path, index) , unwrap(value) -> text, wrap(text) -> value, is_plain, is_mmap)"""
    raw = make_raw_record(f)
    out = {}

    def line(cls):
        return (lambda p, idx=None: cls(p, idx)), (lambda v: v), (lambda t: t)

    def rec(cls):
        return (lambda p, idx=None: cls(p, raw, idx)), (lambda v: _raw_text(v, raw)), (lambda t: raw(t))
    if not mutable_only:
        out["RandomLineAccessFile"] = line(f.RandomLineAccessFile) + (True, False)
        out["MemoryMappedRandomLineAccessFile"] = line(f.MemoryMappedRandomLineAccessFile) + (True, True)
    out["MutableRandomLineAccessFile"] = line(f.MutableRandomLineAccessFile) + (True, False)
    out["MutableMemoryMappedRandomLineAccessFile"] = line(f.MutableMemoryMappedRandomLineAccessFile) + (True, True)
    if not plain_only:
        if not mutable_only:
            out["RecordFile"] = rec(f.RecordFile) + (False, False)
            out["MemoryMappedRecordFile"] = rec(f.MemoryMappedRecordFile) + (False, True)
        out["MutableRecordFile"] = rec(f.MutableRecordFile) + (False, False)
        out["MutableMemoryMappedRecordFile"] = rec(f.MutableMemoryMappedRecordFile) + (False, True)
    return out


def _raw_text(v, raw):
    if not isinstance(v, raw):
        raise Unexpected("a record file returned %r instead of a record" % (type(v).__name__,))
    return v.text


def file_bytes(texts, term):
    s = "\n".join(texts) + ("\n" if term and texts else "")
    return s.encode("utf-8")


def offsets(texts):
    out, pos = [], 0
    for t in texts:
        out.append(pos)
        pos += len(t.encode("utf-8")) + 1
    return out


class LineFileAdapter:
    """LineFile.tla against one variant."""

    def __init__(self, variant, spec, plain_syms=False):
        self.name = variant
        self.make, self.unwrap, self.wrapv, self.plain, self.mmap = spec
        self.plain_syms = plain_syms

    def new_world(self):
        os.makedirs(tlc.WORK, exist_ok=True)
        return {"dir": tempfile.mkdtemp(prefix="lf_", dir=tlc.WORK), "f": None, "its": [], "conf": [], "decode": {}, "args": None}

    def close(self, w):
        try:
            if w["f"] is not None:
                w["f"].close()
        except Exception:
            pass
        shutil.rmtree(w["dir"], ignore_errors=True)

    def sym(self, w, text):
        if text not in w["decode"]:
            raise Unexpected("%r is not a line of the file" % (text[:40],))
        return w["decode"][text]

    def obs(self, w):
        f = w["f"]
        if f is None:
            return {"built": False, "conf": [], "n": 0, "lines": []}
        # content is read through a second, fresh object so that observing never moves this object's cursor
        path, idx = w["args"]
        g = self.make(path, list(idx) if isinstance(idx, list) else idx)
        g.open()
        try:
            lines = [self.sym(w, self.unwrap(g[i])) for i in range(len(g))]
        finally:
            g.close()
        return {"built": True, "conf": w["conf"], "n": len(f), "lines": lines}

    @wrap
    def apply(self, w, op):
        n, f = op["op"], w["f"]
        if n == "new":
            texts = [text_of(s, self.plain_syms) for s in op["lines"]]
            data = file_bytes(texts, op["term"])
            if not data and self.mmap:
                raise Skip("the OS cannot memory-map an empty file")
            path = os.path.join(w["dir"], "src.txt")
            with open(path, "wb") as fh:
                fh.write(data)
            w["decode"] = {t: s for s, t in zip(op["lines"], texts)}
            offs = offsets(texts)
            if op["src"] == "built":
                idx = None
            else:
                sel = [offs[i - 1] for i in op["idx"]]
                if op["src"] == "list":
                    idx = sel
                else:
                    idx = os.path.join(w["dir"], "index.txt")
                    with open(idx, "w") as fh:
                        for o in sel:
                            fh.write("%d\n" % o)
            w["args"] = (path, idx)
            w["f"] = self.make(path, list(idx) if isinstance(idx, list) else idx)
            w["f"].open()
            w["conf"] = [op["lines"], op["term"], op["idx"], op["src"]]
            w["src_bytes"] = data
            return []
        if n == "reopen":
            w["reopens"] = w.get("reopens", 0) + 1
            if w["reopens"] % 2:
                f.close()
                f.open()
            else:
                f.__exit__(None, None, None)
                if f.__enter__() is not f:
                    raise Unexpected("__enter__ did not return the file object")
            return []
        if n == "len":
            return [len(f)]
        if n == "get":
            try:
                return [self.sym(w, self.unwrap(f[op["i"]]))]
            except IndexError:
                return []
        if n == "slice":
            a, b, c = (None if x == NONE else x for x in (op["a"], op["b"], op["c"]))
            return [self.sym(w, self.unwrap(x)) for x in f[a:b:c]]
        if n == "many":
            sel = list(op["is"])
            w["manys"] = w.get("manys", 0) + 1
            kind = w["manys"] % 3          # a list, a tuple, or a one-shot iterator ("index iterables select like a list")
            return [self.sym(w, self.unwrap(x)) for x in f[sel if kind == 0 else (tuple(sel) if kind == 1 else iter(sel))]]
        if n == "list":
            return [self.sym(w, self.unwrap(x)) for x in f]
        if n == "iter_new":
            w["its"].append(iter(f))
            return [len(w["its"])]
        if n == "iter_next":
            try:
                return [self.sym(w, self.unwrap(next(w["its"][op["j"] - 1])))]
            except StopIteration:
                return []


ENDINGS = {1: "\n", 2: "\r\n", 3: "|"}


class MutableAdapter:
    """MutableLineFile.tla against one mutable variant. `codec` maps symbol <-> (value stored, line text)."""

    def __init__(self, variant, spec, reopen_specs, to_value=None, from_value=None, to_line=None):
        self.name = variant
        self.make, self.unwrap, self.wrapv, self.plain, self.mmap = spec
        self.reopen_specs = reopen_specs
        # defaults: symbols are break-free texts
        self.to_value = to_value or (lambda s: self.wrapv(text_of(s, True)))
        self.from_value = from_value or (lambda v: self._sym_of_text(self.unwrap(v)))
        self.to_line = to_line or (lambda s: text_of(s, True))
        self._rev = {}

    def _sym_of_text(self, t):
        if not self._rev:
            for s in list(TABLE) + list(range(100, 400)):
                try:
                    self._rev[text_of(s, True)] = s
                except AssertionError:
                    pass
        if t not in self._rev:
            raise Unexpected("%r is not a line that was ever put in" % (t[:40],))
        return self._rev[t]

    def new_world(self):
        os.makedirs(tlc.WORK, exist_ok=True)
        return {"dir": tempfile.mkdtemp(prefix="mf_", dir=tlc.WORK), "f": None, "src": None, "saves": 0}

    def close(self, w):
        try:
            if w["f"] is not None:
                w["f"].close()
        except Exception:
            pass
        shutil.rmtree(w["dir"], ignore_errors=True)

    def obs(self, w):
        f = w["f"]
        if f is None:
            return {"built": False, "plain": 0, "lines": [], "dirty": 2}
        with open(w["path"], "rb") as fh:
            if fh.read() != w["src"]:
                raise Unexpected("the source file's bytes changed")
        lines = [self.from_value(f[i]) for i in range(len(f))]
        d = (1 if f.dirty else 0) if self.plain else 2
        return {"built": True, "plain": 1 if self.plain else 0, "lines": lines, "dirty": d}

    @wrap
    def apply(self, w, op):
        n, f = op["op"], w["f"]
        if n == "new":
            if bool(op["plain"]) != self.plain:
                raise Skip("other family of variants")
            texts = [self.to_line(s) for s in op["lines"]]
            # the source file ends with a line break or not (alternating; an unterminated empty last line would not be a line)
            w["news"] = getattr(self, "_news", 0)
            self._news = w["news"] + 1
            term = 0 if (texts and texts[-1] != "" and (len(texts) + sum(op["lines"])) % 2) else 1
            data = file_bytes(texts, term)
            if not data and self.mmap:
                raise Skip("the OS cannot memory-map an empty file")
            w["path"] = os.path.join(w["dir"], "src.txt")
            with open(w["path"], "wb") as fh:
                fh.write(data)
            w["src"] = data
            w["f"] = self.make(w["path"])
            w["f"].open()
            return []
        try:
            if n == "setitem":
                f[op["i"]] = self.to_value(op["s"]); return []
            if n == "delitem":
                del f[op["i"]]; return []
            if n == "pop":
                v = f.pop() if op["i"] == NONE else f.pop(op["i"])
                return [self.from_value(v)]
            if n == "get":
                return [self.from_value(f[op["i"]])]
        except IndexError:
            return [-1]
        if n == "insert":
            f.insert(op["i"], self.to_value(op["s"])); return []
        if n == "append":
            f.append(self.to_value(op["s"])); return []
        if n in ("extend", "iadd"):
            # what is added comes as a generator, a list, or ANOTHER opened line file of the same variant (over its own source file)
            # that holds exactly these lines - a line file is a sequence of lines like any other
            w["adds"] = w.get("adds", 0) + 1
            kind = (w["adds"] + len(op["ss"])) % 3
            other = None
            if kind == 2 and op["ss"] and not (self.mmap and not any(self.to_line(x) for x in op["ss"])):
                opath = os.path.join(w["dir"], "other%d.txt" % w["adds"])
                with open(opath, "wb") as fh:
                    fh.write(file_bytes([self.to_line(x) for x in op["ss"]], 1))
                other = self.make(opath)
                other.open()
                arg = other
            elif kind == 1:
                arg = [self.to_value(x) for x in op["ss"]]
            else:
                arg = (self.to_value(x) for x in op["ss"])
            try:
                if n == "extend":
                    f.extend(arg)
                else:
                    if kind == 0:
                        arg = list(arg)
                    f += arg
                    if f is not w["f"]:
                        raise Unexpected("+= did not return the file object")
            finally:
                if other is not None:
                    other.close()
            return []
        if n == "remove":
            try:
                f.remove(self.to_value(op["s"])); return []
            except ValueError:
                return [-1]
        if n == "index":
            try:
                return [f.index(self.to_value(op["s"]))]
            except ValueError:
                return [-1]
        if n == "reverse":
            f.reverse(); return []
        if n == "len":
            return [len(f)]
        if n == "slice":
            a, b, c = (None if x == NONE else x for x in (op["a"], op["b"], op["c"]))
            return [self.from_value(x) for x in f[a:b:c]]
        if n == "list":
            return [self.from_value(x) for x in f]
        if n == "save":
            return self._save(w, f, op["ending"])

    def _save(self, w, f, e):
        ending = ENDINGS[e]
        w["saves"] += 1
        out = os.path.join(w["dir"], "saved_%d.txt" % w["saves"])
        if w["saves"] % 2:
            f.save(out, ending) if e != 1 or w["saves"] % 3 else f.save(out)
        else:
            with open(out, "w", newline="") as fh:
                f.save(fh, ending)
        with open(out, "rb") as fh:
            data = fh.read().decode("utf-8")
        if data and not data.endswith(ending):
            raise Unexpected("the saved file does not end with the line ending")
        parts = data.split(ending)[:-1] if data else []
        got = [self._line_sym(p) for p in parts]
        if e == 1:
            # reopening the saved file gives the same list (buffered and memory-mapped)
            for name, spec in self.reopen_specs.items():
                if not data and spec[4]:
                    continue
                g = spec[0](out)
                g.open()
                try:
                    again = [self.from_value(g[i]) for i in range(len(g))]
                finally:
                    g.close()
                if again != got:
                    raise Unexpected("reopening the saved file with %s gives %s, saved %s" % (name, again, got))
        return got

    def _line_sym(self, text):
        return self._sym_of_text(text)
