"""C10 - SpanSet operators against their membership-based definitions (case replay)."""
import importlib
import os
import random

from vlib import cases, model, tlc
from adapters.C19 import compare, safe

SPEC = os.path.join(tlc.SPECS, "fun", "SpanSet.tla")
RELS = '{"exact", "partof", "includes", "overlaps"}'


def mod():
    import windpyutils.structures.span_set as m
    importlib.reload(m)
    return m


def build(m, s, form, probes=None):
    """form 0: iterable of pairs, form 1: two sequences; with `probes` the set additionally has a copy that was given another
    relation (the idiom of the repository's tests: X = A.copy(); X.eq_relation = ...) and that copy has answered membership
    queries before the set under test is used - a sibling must not influence it"""
    ss = build0(m, s, form)
    if probes is not None:
        others = [m.SpanSetExactEqRelation, m.SpanSetPartOfEqRelation, m.SpanSetIncludesEqRelation, m.SpanSetOverlapsEqRelation]
        for k, other in enumerate(others):
            sib = ss.copy()
            sib.eq_relation = other()
            for p in probes:
                p in sib
    return ss


def build0(m, s, form):
    rel = {"exact": m.SpanSetExactEqRelation, "partof": m.SpanSetPartOfEqRelation, "includes": m.SpanSetIncludesEqRelation,
           "overlaps": m.SpanSetOverlapsEqRelation}[s["rel"]]()
    spans = [tuple(x) for x in s["spans"]]
    if form == 0:
        return m.SpanSet(iter(spans), eq_relation=rel)
    return m.SpanSet([a for a, _ in spans], [b for _, b in spans], eq_relation=rel)


def once_sorted(ss):
    """the result's own iteration: each span once (repeats would show), order not part of the property"""
    return sorted([list(x) for x in ss])


def observe(m, c, form):
    probes = None
    if form >= 2:
        probes = [tuple(x) for x in c["a"]["spans"]] + [tuple(x) for x in c["b"]["spans"]]
    A, B = build(m, c["a"], form % 2, probes), build(m, c["b"], (form + 1) % 2, probes)
    return {"stored_a": [list(x) for x in A],
            "and": once_sorted(A & B), "or": once_sorted(A | B), "sub": once_sorted(A - B), "xor": once_sorted(A ^ B),
            "le": int(A <= B), "lt": int(A < B), "eq": int(A == B), "ne": int(A != B), "ge": int(A >= B), "gt": int(A > B),
            "isdisjoint": int(A.isdisjoint(B)), "issubset": int(A.issubset(B)), "issuperset": int(A.issuperset(B))}


def norm(exp):
    out = dict(exp)
    for k in ("and", "or", "sub", "xor"):
        out[k] = sorted([list(x) for x in exp[k]])
    return out


def run(ctx):
    quick = ctx.tier == "quick"
    m = mod()
    ctx.rule = ("TLC enumerates every pair of span collections (sequences with repeats, nested, overlapping, touching, degenerate spans over "
                "points 0..MaxPoint) for all 4 x 4 relation combinations and evaluates the membership-based definitions of construction, "
                "&, |, -, ^, <=, <, ==, !=, >=, >, isdisjoint, issubset, issuperset; the real SpanSet is built both from an iterable of "
                "pairs and from two sequences and every operator result is compared (constructive results as 'each span once', order "
                "free); a seeded second pass uses longer collections over a wider universe, the definition evaluated by TLC")
    ctx.assumptions += ["integer end points; spans with start <= end", "pure functions: exploration level"]
    k = {"MaxPoint": 3, "MaxLenA": 2, "MaxLenB": 1 if quick else 2, "Rels": RELS}
    n = [0]

    def one(c, exp):
        n[0] += 1
        compare(ctx, "SpanSet", c, norm(exp), safe(lambda: observe(m, c, n[0] % 4)))
    cases.enumerate_cases(SPEC, model.constants_block(k), ctx, "spanset", one, timeout=2400)
    ctx.exhaustive = True
    rnd = random.Random(ctx.seed * 7919 + 10)
    rels = ["exact", "partof", "includes", "overlaps"]

    def rspans():
        out = []
        for _ in range(rnd.randint(0, 6)):
            a = rnd.randint(0, 10)
            out.append([a, rnd.randint(a, min(10, a + rnd.choice([0, 1, 3, 10])))])
        return out
    ins = [{"a": {"rel": rnd.choice(rels), "spans": rspans()}, "b": {"rel": rnd.choice(rels), "spans": rspans()}}
           for _ in range(300 if quick else 5000)]
    big = dict(k, MaxPoint=10)
    for i, (c, exp) in enumerate(zip(ins, cases.evaluate(SPEC, model.constants_block(big), ins, ctx, "spanset_big"))):
        compare(ctx, "SpanSet", c, norm(exp), safe(lambda: observe(m, c, i % 4)))
    ctx.extra["bounds"] = k
