"""C12 - mutable line files act as a list of lines; save writes it; source untouched."""
import os
import random

from vlib import graphwalk, model, tlc, tracecheck
from adapters import linefiles as lf
from adapters.C06 import split_failed
from adapters.C11 import record

SPEC = os.path.join(tlc.SPECS, "adt", "MutableLineFile.tla")
INVS = []
PROPS = ["DirtyRule", "SaveWritesContent", "ErrKeeps"]
MUT = {"append", "insert", "delitem"}


def edit_ops(rnd, plain, length, init_syms, edit_syms, read_heavy=False):
    """read_heavy: a longer file, mostly reads of neighbouring lines and saves with an occasional edit (the access pattern of a
    program that walks through a file) - recorded with sparse observations, so that nothing else touches the object in between"""
    lines = [rnd.choice(init_syms) for _ in range(rnd.randint(6, 12) if read_heavy else rnd.randint(0, 6))]
    ops = [{"op": "new", "lines": lines, "plain": plain}]
    n = len(lines)
    kinds = ["setitem", "delitem", "insert", "append", "extend", "iadd", "pop", "remove", "reverse", "len", "get", "slice",
             "list", "save", "index"]
    if read_heavy:
        kinds = ["get"] * 10 + ["save"] * 4 + ["pop", "setitem", "delitem", "insert", "len", "slice"]
    prev = 0
    for _ in range(length):
        k = rnd.choice(kinds)
        i = rnd.randint(-n - 1, n)
        if read_heavy and n > 0:
            i = rnd.choice([prev, prev + 1, prev + 1, prev - 1, 0, i])
            i = i if -n <= i < n else 0
            if k == "get":
                prev = i % n
        s = rnd.choice(edit_syms + init_syms)
        if k == "setitem":
            ops.append({"op": k, "i": i, "s": s})
        elif k in ("delitem", "get"):
            ops.append({"op": k, "i": i})
            if k == "delitem" and -n <= i < n:
                n -= 1
        elif k == "pop":
            i = rnd.choice([i, lf.NONE])
            ops.append({"op": k, "i": i})
            if (i == lf.NONE and n > 0) or (i != lf.NONE and -n <= i < n):
                n -= 1
        elif k == "insert":
            ops.append({"op": k, "i": i, "s": s}); n += 1
        elif k == "append":
            ops.append({"op": k, "s": s}); n += 1
        elif k in ("extend", "iadd"):
            ss = [rnd.choice(edit_syms) for _ in range(rnd.randint(0, 3))]
            ops.append({"op": k, "ss": ss}); n += len(ss)
        elif k in ("remove", "index"):
            ops.append({"op": k, "s": s})
            n = -1  # unknown now; recomputed below
        elif k == "slice":
            ops.append({"op": k, "a": rnd.choice([lf.NONE, i]), "b": rnd.choice([lf.NONE, rnd.randint(-n - 1, n)]),
                        "c": rnd.choice([lf.NONE, 1, 2, -1, -2])})
        elif k == "save":
            ops.append({"op": k, "ending": rnd.choice([1, 2, 3])})
        else:
            ops.append({"op": k})
        if n < 0:
            # 'remove' may or may not have removed: keep index choices valid by re-deriving an upper bound
            n = sum(1 for o in ops if o["op"] in ("insert", "append")) + len(lines) + 6
    return ops


def run(ctx, name="MutableLineFile", plain_only=True, adapters_fn=None, init_syms="{2,3}", edit_syms="{8,9}"):
    quick = ctx.tier == "quick"
    f = lf.files_mod()
    ctx.rule = ("TLC enumerates every edit history (item assignment, deletion, insert, append, extend, +=, pop, remove, reverse) and "
                "read (index, slices over a grid, iteration, save with three line endings) on files that start with 0-2 lines, up "
                "to the length bound; every mutable variant is driven through every (state, operation) pair, the saved file is "
                "read back (split at the ending) and reopened with the buffered and the memory-mapped variant, and the source "
                "file's bytes are compared after every step; random 120-operation histories are validated by TLC")
    ctx.assumptions += ["line content without line breaks (carriage returns belong to C11)",
                        "dirty is specified for the plain line variants only"]
    consts = {"InitSyms": init_syms, "EditSyms": edit_syms, "MaxLen": 3 if quick else 4, "MaxInit": 3, "SliceMode": '"grid"',
              "Variant": '"ok"'}
    model.mc(SPEC, consts, ctx, name, invariants=INVS, properties=PROPS)
    model.mc(SPEC, dict(consts, Variant='"stale"'), ctx, name + "_neg", invariants=INVS, properties=PROPS, expect_violation=True)
    g, _ = graphwalk.emit_graph(SPEC, model.cfg_text(consts, view="View", action_constraint="Emit"), ctx, name)
    ads = adapters_fn(f) if adapters_fn else default_adapters(f)
    for ad in ads:
        st = graphwalk.walk(g, ad, ctx, name + "/" + ad.name, sig_fn=lambda *a, n=ad.name: {"variant": n}, op_timeout=10.0)
        ctx.note("walk %s" % st)
    ctx.exhaustive = True
    rnd = random.Random(ctx.seed * 7919 + 12)
    traces = []
    isyms = [int(x) for x in init_syms.strip("{}").split(",")]
    esyms = [int(x) for x in edit_syms.strip("{}").split(",")]
    for i in range(24 if quick else 240):
        ad = ads[i % len(ads)]
        # every second round of the variants is recorded with sparse observations
        sp = (i // len(ads)) % 2 == 1
        t = record(ad, edit_ops(rnd, 1 if ad.plain else 0, 120, isyms, esyms, read_heavy=sp), sparse=rnd if sp else None)
        if t is not None:
            traces.append(t)
    good = split_failed(traces, ctx, name)
    tconst = dict(consts, MaxLen=100000, SliceMode='"none"')
    tracecheck.check_traces(SPEC, model.constants_block(tconst), good, ctx, name, MUT, timeout=600)


def default_adapters(f):
    vs = lf.variants(f, mutable_only=True)
    ro = lf.variants(f)
    out = []
    for name, spec in vs.items():
        # reopen with the read-only buffered and memory-mapped variant of the same family
        fam = {k: v for k, v in ro.items() if v[3] == spec[3] and not k.startswith("Mutable")}
        out.append(lf.MutableAdapter(name, spec, fam))
    return out
