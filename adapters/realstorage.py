"""Real-process executions of TextFileStorage (no shims) observed through the events of StorageObs.tla: the fidelity
check of the storage shims. Writers and readers are forked processes working on the inherited storage object."""
import json
import multiprocessing
import os
import select
import shutil
import signal
import sys
import tempfile
import time

from vlib import tlc
from adapters.C14 import text_of, token_of


def _child(scen, wfd, d):
    from vlib import tlc as _t
    sys.path.insert(0, _t.REPO)
    import importlib
    import windpyutils.parallel.storage as st
    importlib.reload(st)
    seq = multiprocessing.Value("i", 0)

    def ev(**kw):
        with seq.get_lock():
            seq.value += 1
            os.write(wfd, (json.dumps([seq.value, kw]) + "\n").encode())
    storage = st.TextFileStorage(d, number_of_data=scen.get("presize"))

    def writer(script):
        storage.open()
        try:
            for g, tok in script:
                ev(op="store_begin", g=g, t=tok)
                try:
                    storage[g] = text_of(tok)
                    res = 1
                except ValueError:
                    res = 0
                ev(op="store_end", g=g, t=tok, res=res)
                time.sleep(0.002)
        finally:
            storage.close()

    def reader(ri, script):
        storage.reader_only = True
        try:
            for k, g in enumerate(script):
                rid = ri * 1000 + k
                ev(op="read_begin", r=rid, g=g)
                try:
                    res = token_of(storage[g])
                except IndexError:
                    res = -1
                ev(op="read_end", r=rid, g=g, res=res)
        finally:
            storage.close()
    kids = []
    for sc in scen["writers"]:
        p = multiprocessing.Process(target=writer, args=(sc,))
        p.start()
        kids.append(p)
    for i, sc in enumerate(scen["readers"]):
        p = multiprocessing.Process(target=reader, args=(i + 1, sc))
        p.start()
        kids.append(p)
    for p in kids:
        p.join()
    ev(op="len", n=len(storage))
    ev(op="contig", b=1 if storage.is_contiguous() else 0)
    storage.reader_only = True
    with storage:
        ev(op="iter", ts=[token_of(x) for x in storage])
    storage.flush()
    ev(op="flush", left=len([f for f in os.listdir(d)]), n=len(storage))


def run_scenario(scen, watchdog=60.0):
    os.makedirs(tlc.WORK, exist_ok=True)
    d = tempfile.mkdtemp(prefix="c14real_", dir=tlc.WORK)
    r, w = os.pipe()
    pid = os.fork()
    if pid == 0:
        code = 0
        try:
            os.setsid()
            os.close(r)
            _child(scen, w, d)
        except BaseException as e:      # noqa
            os.write(w, (json.dumps([10 ** 9, {"op": "harness_exc", "what": repr(e)[:200]}]) + "\n").encode())
            code = 1
        finally:
            os._exit(code)
    os.close(w)
    buf, events, finished = b"", [], False
    deadline = time.time() + watchdog
    while time.time() < deadline:
        rd, _, _ = select.select([r], [], [], 0.3)
        if rd:
            chunk = os.read(r, 1 << 16)
            if chunk:
                buf += chunk
                while b"\n" in buf:
                    line, buf = buf.split(b"\n", 1)
                    events.append(json.loads(line))
                continue
        done, _ = os.waitpid(pid, os.WNOHANG)
        if done:
            finished = True
            break
    for fn in (lambda: os.killpg(pid, signal.SIGKILL),):
        try:
            fn()
        except OSError:
            pass
    if not finished:
        try:
            os.waitpid(pid, 0)
        except OSError:
            pass
    os.close(r)
    shutil.rmtree(d, ignore_errors=True)
    events.sort(key=lambda e: e[0])
    return [e[1] for e in events], finished


def scenarios(quick, rnd):
    out = []
    for k in range(4 if quick else 24):
        nw = rnd.randint(1, 4)
        ids = list(range(rnd.randint(4, 30)))
        rnd.shuffle(ids)
        tok = [0]
        writers = [[] for _ in range(nw)]
        for j, g in enumerate(ids):
            tok[0] += 1
            writers[j % nw].append((g if rnd.random() < 0.9 else g + 3, tok[0]))      # some gaps
        if rnd.random() < 0.5 and ids:
            tok[0] += 1
            writers[0].append((ids[0], tok[0]))                                      # stored twice
        readers = [[rnd.choice(ids) for _ in range(40)] for _ in range(rnd.randint(1, 3))]
        out.append(dict(writers=writers, readers=readers, presize=rnd.choice([None, None, 10]), name="realst%d" % k))
    return out


def to_trace(events):
    tr, stored = [], 0
    for e in events:
        if e["op"] == "harness_exc":
            continue
        if e["op"] == "store_end" and e["res"] == 1:
            stored += 1
        if e["op"] == "flush":
            stored = 0
        tr.append({"op": e, "ret": [], "st": {"stored": stored}})
    return tr
