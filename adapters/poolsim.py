"""Controlled execution of the real own_proc_pools.py (C01 - C04): scenarios, instrumented worker, observer
events, exploration strategies.  See DESIGN.md section 2.4."""
import json
import os
import random
import time

from vlib import simworld as S
from vlib import tlc, tracecheck, model

OBS = os.path.join(tlc.SPECS, "pool", "PoolObs.tla")
SRC = tlc.REPO + "/windpyutils/parallel/own_proc_pools.py"


NONE_MARK = -7          # what the functor returns for a None element


def f(x):
    return NONE_MARK if x is None else 2 * x + 1


def value(c, i):
    return 1000 * c + i


def decode(y):
    """yielded value -> (call, index) ; unknown -> (0, 0)"""
    if isinstance(y, int) and y % 2 == 1:
        x = (y - 1) // 2
        if x >= 1000:
            return x // 1000, x % 1000
    return 0, 0


class Harness:
    def __init__(self):
        self.mod = S.load(SRC, "opp_sim")
        self.Pool = S.instrument(self.mod.FunctorPool)
        self.FPool = S.instrument(self.mod.FactoryFunctorPool)
        mod = self.mod

        class Wk(mod.FunctorWorker):
            """the module's own worker class with begin / functor / end reporting to the observer"""

            def __init__(self, scen, quota):
                if quota:
                    super().__init__(max_chunks_per_worker=quota)
                else:
                    super().__init__()
                self._scen = scen
                self._q = quota or 0
                # the observer identifies a worker by the order of its creation, not by the pool's `wid` (the properties do not
                # say that worker ids are never reused)
                self._uid = getattr(S.W, "_wk_created", 0)
                S.W._wk_created = self._uid + 1

            def _user_code(self):
                # user code takes time: a scheduling point inside begin / the functor / end (not for step-level conformance runs)
                if self._scen.get("pauses", True):
                    S.vop("user.code", self, lambda: True, lambda: None)

            def begin(self):
                S.W.event(op="wbegin", w=self._uid, q=self._q)
                self._user_code()
                fl = self._scen.get("fault")
                if fl and fl["where"] == "begin" and fl["w"] == self._uid:
                    S.W.event(op="fault")
                    raise RuntimeError("injected fault in begin")
                S.W.event(op="wready", w=self._uid)

            def __call__(self, x):
                if x is None:               # a legal element: the functor maps it like any other value
                    self._user_code()
                    return f(x)
                c, i = x // 1000, x % 1000
                ch = self._scen["calls"][c - 1]["chunk"] if 1 <= c <= len(self._scen["calls"]) else 1
                S.W.event(op="witem", w=self._uid, c=c, i=i, chunk=ch)
                fl = self._scen.get("fault")
                if fl and fl["where"] == "item" and fl["w"] == self._uid and fl["c"] == c and fl["i"] == i:
                    S.W.event(op="fault")
                    raise RuntimeError("injected fault in functor")
                self._user_code()
                return f(x)

            def end(self):
                S.W.event(op="wend", w=self._uid)
                self._user_code()
        self.Wk = Wk
        self.shared = None

    # ------------------------------------------------------------------ one execution
    def main_fn(self, scen):
        mod, Wk = self.mod, self.Wk
        Pool, FPool = self.Pool, self.FPool

        def data_of(c, call):
            items = [value(c, i) for i in range(call["n"])]
            if call.get("nones"):
                # every second element is None (inputs are arbitrary values; None and other falsy values are ordinary elements)
                items = [None if i % 2 else x for i, x in enumerate(items)]
            if call.get("lazy"):
                def gen():
                    for x in items:
                        yield x
                return gen()
            return items

        def main():
            w = S.W
            w.event(op="cfg", **scen["judge"])
            kw = {}
            if "wq" in scen:
                kw["work_queue_maxsize"] = scen["wq"]
            if "rq" in scen:
                kw["results_queue_maxsize"] = scen["rq"]
            if scen["pool"] == "factory":
                class F(mod.FunctorWorkerFactory):
                    def create(self_inner):
                        return Wk(scen, scen.get("quota"))
                pool = FPool(scen["nw"], F(), None, **kw)
            else:
                pool = Pool([Wk(scen, None) for _ in range(scen["nw"])], None, **kw)
            S.constructed(pool)
            w.pool = pool
            with pool:
                if scen.get("uar") == "start":
                    pool.until_all_ready()
                    w.event(op="all_ready", ws=[p._uid for p in list.__iter__(pool.procs)])
                for ci, call in enumerate(scen["calls"]):
                    c = ci + 1
                    w.event(op="call_begin", c=c, n=call["n"], chunk=call["chunk"], ord=1 if call["ordered"] else 0)
                    meth = pool.imap if call["ordered"] else pool.imap_unordered
                    got = 0
                    gen_obj = meth(data_of(c, call), call["chunk"])
                    # stop_at: the consumer stops after that many results and closes the generator - an early stop (abandon_after,
                    # growth leg X02) or "zipped": exactly as many results as elements are taken and StopIteration is never asked for
                    stop_at = call["n"] if call.get("zipped") else call.get("abandon_after")
                    for y in (gen_obj if stop_at != 0 else ()):
                        if y == NONE_MARK and call.get("nones") and call["ordered"] and got % 2 == 1:
                            cc, ii = c, got         # the result of a None element: identified by its position (ordered calls)
                        else:
                            cc, ii = decode(y)
                        got += 1
                        w.event(op="yield", c=cc, i=ii)
                        if scen.get("uar") == "during" and got in (1, 2):
                            # the consumer waits for readiness between two results, while workers may be retiring and being
                            # replaced: every worker that was in a slot when the call was made must have completed begin() when
                            # it returns (a slot read later holds that worker or, if it retired, its replacement)
                            snapshot = [p._uid for p in list.__iter__(pool.procs)]
                            pool.until_all_ready()
                            w.event(op="all_ready", ws=snapshot)
                        if stop_at == got:
                            break
                    if stop_at is not None:
                        gen_obj.close()
                        if got < call["n"]:
                            w.event(op="abandon", c=c, got=got)
                            continue
                    w.event(op="call_end")
                    if scen.get("uar") == "between":
                        pool.until_all_ready()
                        w.event(op="all_ready", ws=[p._uid for p in list.__iter__(pool.procs)])
            alive = sum(1 for t in w.tasks if t.name.startswith("P") and not t.done)
            w.event(op="exit", alive=alive)
        return main

    def learn(self, scen, rnd, runs=6):
        names = set()
        for _ in range(runs):
            w = S.World(S.random_chooser(random.Random(rnd.random())), learn=True, shared_names=names)
            w.run(self.main_fn(scen))
            names |= w.learned
        return names

    def execute(self, scen, chooser, max_steps=4000):
        w = S.World(chooser, max_steps=max_steps, shared_names=self.shared)
        t0 = time.time()
        w.run(self.main_fn(scen))
        w.wall = time.time() - t0
        return w


class Rec:
    """What is kept of an execution (picklable: explorations run in forked children)."""

    def __init__(self, w):
        self.events = [dict(e) for e in w.events]
        self.outcome = w.outcome
        self.schedule = list(w.schedule)
        self.blocked = getattr(w, "blocked", None)
        self.steps = w.steps
        exc = next((t.exc for t in w.tasks if t.name == "main" and t.exc is not None), None)
        self.main_exc = None if exc is None else repr(exc)[:200]
        self.any_exc = next((repr(t.exc)[:200] for t in w.tasks if t.exc is not None), None)
        self.alive_procs = sum(1 for t in w.tasks if t.name.startswith("P") and not t.done)
        self.shared = sorted(getattr(w, "shared_names", None) or [])      # the instrumented attributes: part of what a schedule means


def summarize(w):
    return w if isinstance(w, Rec) else Rec(w)


def to_trace(w):
    """observer events of an execution -> trace for PoolObs (events that are not scheduling points are totally
    ordered by the scheduler, one task runs at a time)."""
    w = summarize(w)
    evs = [dict(e) for e in w.events]
    main_exc = w.main_exc
    left = any(e["op"] == "exit" for e in evs)
    if w.outcome != "ok" and not left:
        evs.append({"op": "hang"})
    elif w.outcome != "ok" and left:
        # the context was left but some task never finishes: report the processes still running
        for e in evs:
            if e["op"] == "exit":
                e["alive"] = max(e["alive"], w.alive_procs)
    tr = []
    phase, calls, got = "init", 0, 0
    for e in evs:
        e.pop("task", None)
        op = e["op"]
        if op == "cfg":
            phase = "idle"
        elif op == "call_begin":
            phase, calls, got = "call", calls + 1, 0
        elif op == "yield":
            got += 1
        elif op in ("call_end", "abandon"):
            phase = "idle"
        elif op == "hang":
            phase = "hung"
        elif op == "exit":
            phase = "left"
        tr.append({"op": e, "ret": [], "st": {"phase": phase, "calls": calls, "got": got}})
    return tr, main_exc


# ---------------------------------------------------------------------------------------- exploration
def explore(h, scen, rnd, budget, ctx, est_len=80, dfs_share=0.4, max_steps=4000):
    """Bounded-preemption DFS (stateless, by re-execution) + random walks + PCT walks. Yields worlds."""
    n = 0
    # 1. systematic: preemption bound 0, 1, 2 ... each bound gets a share of the DFS budget (bound 0 alone - which task runs
    #    when the running one blocks - is already a large space; one and two preemptions are where the races are)
    dfs_budget = int(budget * dfs_share)
    frontier = [([], 0)]          # (script prefix, preemptions used)
    bound = 0
    pending_next = []
    seen_scripts = set()
    per_bound = max(1, dfs_budget // 3)
    used_in_bound = 0
    while n < dfs_budget:
        if not frontier or used_in_bound >= per_bound:
            bound += 1
            used_in_bound = 0
            if bound > 2 or not pending_next:
                break
            # breadth first over the preemption points: earliest scripts first
            pending_next.sort(key=len)
            frontier, pending_next = pending_next[::-1], []
        prefix, used = frontier.pop()
        w = h.execute(scen, S.scripted_chooser(prefix), max_steps)
        n += 1
        used_in_bound += 1
        yield w
        # children: at every step at or after the prefix, every alternative
        for i, (chosen, enabled, last_enabled) in enumerate(w.choices):
            if i < len(prefix):
                continue
            for alt in enabled:
                if alt == chosen:
                    continue
                # switching away from an enabled running task is a preemption
                cost = 1 if last_enabled else 0
                script = tuple(c[0] for c in w.choices[:i]) + (alt,)
                if script in seen_scripts:
                    continue
                seen_scripts.add(script)
                if used + cost <= bound:
                    frontier.append((list(script), used + cost))
                elif used + cost == bound + 1 and len(pending_next) < 100000:
                    pending_next.append((list(script), used + cost))
    ctx.extra.setdefault("exploration", []).append({"scenario": scen.get("name"), "dfs_runs": n, "preemption_bound_reached": bound})
    # 2. random walks and PCT walks
    while n < budget:
        r = random.Random(rnd.random())
        if n % 2:
            ch = S.random_chooser(r)
        else:
            ch = S.pct_chooser(r, depth=r.randint(1, 3), est_len=est_len)
        yield h.execute(scen, ch, max_steps)
        n += 1


def judge_worlds(worlds, scens, ctx, name, pid_sig=None):
    """Validate the observer traces with TLC; report rejections. worlds/scens are parallel lists."""
    traces, keep = [], []
    for w, scen in zip(worlds, scens):
        w = summarize(w)
        if w.outcome == "steplimit":
            # the execution did not finish within the step budget of the harness: nothing can be concluded from it (under an
            # unfair schedule a polling loop runs for ever although the call would end) - counted, never judged
            ctx.extra["inconclusive_step_limit"] = ctx.extra.get("inconclusive_step_limit", 0) + 1
            continue
        tr, main_exc = to_trace(w)
        if main_exc is not None and not any(e["op"]["op"] == "fault" for e in tr):
            # the consumer saw an exception: the call did not return its results
            tr.append({"op": {"op": "yield", "c": 0, "i": 0}, "ret": [], "st": tr[-1]["st"] if tr else {}})
        traces.append(tr)
        keep.append((w, scen, main_exc))
    consts = model.constants_block({"MaxN": 3, "MaxWorkers": 2})
    verdicts = tracecheck.validate(OBS, consts, traces, ctx, name)
    bad = 0
    for (w, scen, main_exc), tr, (matched, total) in zip(keep, traces, verdicts):
        ctx.traces += 1
        ctx.case((name, json.dumps(scen, sort_keys=True), tuple(w.schedule)))
        if matched != total:
            bad += 1
            ev = tr[matched]["op"]
            what = ev["op"]
            wq = scen.get("wq", 1.0)
            ended = sum(1 for t in tr if t["op"]["op"] == "call_end")
            sig = {"kind": "schedule", "scenario": scen.get("name"), "event": what, "pool": scen["pool"],
                   "wq_below_workers": isinstance(wq, int) and not isinstance(wq, bool) and 0 < wq < scen.get("nw", 0),
                   "phase": "exit" if ended == len(scen.get("calls", [])) else "call"}
            if pid_sig:
                sig.update(pid_sig(scen, ev, w))
            desc = ("%s: scenario %s: the execution under schedule of %d steps is rejected by the observer specification at event %d %s "
                    "(outcome %s%s%s)" % (name, json.dumps(scen, sort_keys=True), len(w.schedule), matched, json.dumps(ev), w.outcome,
                                          ", blocked " + json.dumps(getattr(w, "blocked", None)) if w.outcome == "deadlock" else "",
                                          ", consumer raised %s" % (main_exc,) if main_exc is not None else ""))
            ctx.violation(sig, desc, {"engine": "simworld", "scenario": scen, "schedule": w.schedule, "shared": getattr(w, "shared", []),
                                      "events": [t["op"] for t in tr][:200], "rejected_at": matched})
    return bad


def known_replays(h, ctx):
    """Deterministic re-execution of the schedules recorded with open known findings (KNOWN_FINDINGS.json).  A recorded schedule
    depends on the harness (which operations are scheduling points); when it no longer reproduces the finding, the finding's
    scenario is searched with a fixed seed, so that a finding that is still there is still reported as KNOWN-FINDING - and one that
    is gone (repaired code) stays silent."""
    worlds, scens = [], []
    for e in ctx.known:
        rp = e.get("replay")
        if e.get("status") == "open" and rp:
            scen = dict(rp["scenario"])
            scen["judge"] = dict(scen.get("judge", {}), **ctx.extra.get("judge_override", {}))
            hh = h
            if rp.get("shared"):
                hh = Harness.__new__(Harness)
                hh.__dict__.update(h.__dict__)
                hh.shared = set(rp["shared"])
            w = hh.execute(scen, S.scripted_chooser(rp["schedule"]))
            how = "recorded schedule"
            if w.outcome == "ok":
                rnd = random.Random(20261003)
                tried = 0
                for cand in explore(hh, scen, rnd, 4000, _Quiet()):
                    tried += 1
                    if cand.outcome != "ok":
                        w, how = cand, "search of the finding's scenario (%d executions; the recorded schedule no longer reproduces it)" % tried
                        break
            ctx.extra.setdefault("known_finding_replays", []).append({"scenario": scen.get("name"), "outcome": w.outcome, "how": how})
            worlds.append(w)
            scens.append(scen)
    return worlds, scens


class _Quiet:
    def __init__(self):
        self.extra = {}


def real_leg(ctx, judge, name, quick, rnd):
    """The same observer specification applied to executions with REAL processes (fidelity check of the shims)."""
    from adapters import realrun
    scens = realrun.scenarios(judge, quick, rnd)
    traces, meta = [], []
    for s in scens:
        ev, fin, secs = realrun.run_scenario(s, 60.0)
        if not fin:
            ev, fin, secs = realrun.run_scenario(s, 120.0)      # a watchdog expiry is re-run once before it is believed
        tr, exc = realrun.to_trace(ev, fin)
        if exc is not None:
            raise tlc.MachineryError("realrun %s: the scenario process failed: %s" % (s["name"], exc))
        traces.append(tr)
        meta.append((s, fin, secs))
    consts = model.constants_block({"MaxN": 3, "MaxWorkers": 2})
    verdicts = tracecheck.validate(OBS, consts, traces, ctx, name + "_real")
    for (s, fin, secs), tr, (matched, total) in zip(meta, traces, verdicts):
        ctx.traces += 1
        ctx.case((name, "real", json.dumps(s, sort_keys=True)))
        if matched != total:
            ev = tr[matched]["op"]
            ctx.violation({"kind": "realrun", "scenario": s["name"], "event": ev["op"], "pool": s["pool"]},
                          "%s (real processes): scenario %s is rejected by the observer specification at event %d %s%s" % (
                              name, json.dumps(s, sort_keys=True), matched, json.dumps(ev), "" if fin else " (watchdog expired twice)"),
                          {"engine": "realrun", "scenario": s, "events": [t["op"] for t in tr][:300], "rejected_at": matched})
    ctx.extra["real_process_executions"] = {"count": len(traces), "seconds": round(sum(m[2] for m in meta), 1)}


_PAR = {}


def _explore_one(i):
    h, scens, seed, budget, kw = _PAR["args"]
    import random as _r

    class _C:                     # minimal stand-in for the context inside the child
        extra = {}
    c = _C()
    c.extra = {}
    rnd = _r.Random(seed * 1000003 + i)
    out = [Rec(w) for w in explore(h, scens[i], rnd, budget, c, **kw)]
    return out, c.extra.get("exploration", [])


def explore_all(h, scens, seed, budget, ctx, procs=None, **kw):
    """Explore every scenario in its own forked child (the scenarios are independent); returns (records, scenarios)."""
    import multiprocessing
    _PAR["args"] = (h, scens, seed, budget, kw)
    procs = procs or min(len(scens), os.cpu_count() or 4)
    with multiprocessing.get_context("fork").Pool(procs) as pool:
        results = pool.map(_explore_one, range(len(scens)), chunksize=1)
    recs, ws = [], []
    for s, (rs, info) in zip(scens, results):
        recs += rs
        ws += [s] * len(rs)
        ctx.extra.setdefault("exploration", []).extend(info)
    return recs, ws


def replay_witness(ctx, witness, harness_factory=None, name=None):
    """--replay: the recorded scenario under the recorded schedule, judged again. True = rejected again, False = accepted now,
    None = this witness cannot be re-executed here."""
    scen, schedule = witness.get("scenario"), witness.get("schedule")
    if not scen or schedule is None or scen.get("pool") not in ("functor", "factory", "functormap", "mulpmap"):
        return None
    h = (harness_factory or Harness)()
    if hasattr(h, "learn"):
        h.shared = set(witness["shared"]) if witness.get("shared") else h.learn(scen, random.Random(1))
    # a recorded schedule starts with the initial run of "main", which is not a choice of the scheduler
    w = h.execute(scen, S.scripted_chooser(schedule[1:] if schedule[:1] == ["main"] else schedule))
    before = len(ctx.violations)
    judge_worlds([w], [scen], ctx, name or ctx.pid)
    return len(ctx.violations) > before
