"""C15 - Buffer, PrintBuffer (reorder buffers) and CircularBuffer."""
import importlib
import io
import itertools
import os
import random

from vlib import graphwalk, model, tlc, tracecheck
from vlib.graphwalk import Unexpected
from adapters.C06 import split_failed
from adapters.C09 import record

RB = os.path.join(tlc.SPECS, "adt", "ReorderBuffer.tla")
PB = os.path.join(tlc.SPECS, "adt", "PrintBuffer.tla")
CB = os.path.join(tlc.SPECS, "adt", "CircularBuffer.tla")


def mods():
    import windpyutils.buffers as b
    import windpyutils.structures.circular_buffer as c
    importlib.reload(b)
    importlib.reload(c)
    return b, c


wrap = graphwalk.wrap


def serial(v, blank=None, blank_value=None):
    """the payload of serial `blank` (if any) is a falsy value: an empty line / zero is an item like any other"""
    if blank is not None and type(v) is type(blank_value) and v == blank_value:
        return blank
    if not (isinstance(v, str) and v.startswith("item")):
        raise Unexpected("an item that was never put came out: %r" % (v,))
    return int(v[4:])


class BufferAdapter:
    def __init__(self, b, blank=None, blank_value=0):
        self.b, self.blank, self.blank_value = b, blank, blank_value

    def payload(self, i):
        return self.blank_value if i == self.blank else "item%d" % i

    def new_world(self):
        return {"b": None}

    def obs(self, w):
        b = w["b"]
        if b is None:
            return {"built": False, "wf": 0, "len": 0}
        return {"built": True, "wf": b.waiting_for(), "len": len(b)}

    @wrap
    def apply(self, w, op):
        n, b = op["op"], w["b"]
        if n == "new":
            w["b"] = self.b.Buffer(); return []
        if n == "put":
            r = b(op["i"], self.payload(op["i"]))
            if r is not b:
                raise Unexpected("put does not return the buffer")
            return []
        if n == "drain":
            return [serial(x, self.blank, self.blank_value) for x in b]
        if n == "flush":
            b.flush(); return []
        if n == "waiting_for":
            return [b.waiting_for()]
        if n == "len":
            return [len(b)]


class PrintAdapter:
    def __init__(self, b, blank=None):
        self.b, self.blank = b, blank

    def new_world(self):
        return {"b": None, "out": None, "pos": 0}

    def obs(self, w):
        b = w["b"]
        if b is None:
            return {"built": False, "wf": 0, "len": 0}
        return {"built": True, "wf": b.waiting_for, "len": len(b)}

    def _new_output(self, w):
        text = w["out"].getvalue()
        new = text[w["pos"]:]
        w["pos"] = len(text)
        if new and not new.endswith("|"):
            raise Unexpected("output does not end with the configured end string: %r" % new)
        return [serial(x, self.blank, "") for x in new.split("|")[:-1]]

    @wrap
    def apply(self, w, op):
        n, b = op["op"], w["b"]
        if n == "new":
            w["out"] = io.StringIO()
            w["b"] = self.b.PrintBuffer(w["out"], end="|"); return []
        if n == "print":
            r = b.print(op["i"], "" if op["i"] == self.blank else "item%d" % op["i"])
            out = self._new_output(w)
            if r is not True and r is not False:
                raise Unexpected("print() returned %r" % (r,))
            return [1 if r else 0] + out
        if n == "flush":
            b.flush(); return self._new_output(w)
        if n == "clear":
            b.clear()
            out = self._new_output(w)
            if out:
                raise Unexpected("clear() printed %r" % out)
            return []
        if n == "waiting_for":
            return [b.waiting_for]
        if n == "len":
            return [len(b)]


class CircAdapter:
    def __init__(self, c):
        self.c = c

    def new_world(self):
        return {"c": None, "n": 0}

    def obs(self, w):
        c = w["c"]
        if c is None:
            return {"cap": 0, "items": [], "len": 0}
        return {"cap": c.max_size, "items": [c[i] for i in range(len(c))], "len": len(c)}

    @wrap
    def apply(self, w, op):
        n, c = op["op"], w["c"]
        if n == "new":
            w["c"] = self.c.CircularBuffer(op["cap"]); return []
        if n == "put":
            w["n"] += 1
            c.put(w["n"]); return [w["n"]]
        if n == "clear":
            c.clear(); return []
        if n == "get":
            try:
                return [c[op["i"]]]
            except IndexError:
                return []
        if n == "len":
            return [len(c)]
        if n == "iter":
            return list(c)
        if n == "max_size":
            return [c.max_size]


def reorder_ops(rnd, n, printer):
    ops = [{"op": "new"}]
    perm = list(range(n))
    rnd.shuffle(perm)
    wf, held = 0, set()
    for i in perm:
        if printer:
            # a flush at a random point prints what is held back and continues after the largest serial
            if held and rnd.random() < 0.03:
                ops.append({"op": "flush"})
                wf, held = max(held) + 1, set()
            if i < wf:
                continue
            if i == wf:
                wf += 1
                while wf in held:
                    held.discard(wf)
                    wf += 1
            else:
                held.add(i)
        ops.append({"op": "print" if printer else "put", "i": i})
        r = rnd.random()
        if r < 0.25 and not printer:
            ops.append({"op": "drain"})
        if r > 0.9:
            ops.append({"op": rnd.choice(["waiting_for", "len"])})
    ops.append({"op": "flush"} if printer else {"op": "drain"})
    ops += [{"op": "waiting_for"}, {"op": "len"}]
    return ops


def reversed_ops(n, printer):
    """the worst arrival order: every serial but the first is held back, then serial 0 releases one run of n - 1 items"""
    ops = [{"op": "new"}] + [{"op": "print" if printer else "put", "i": i} for i in range(n - 1, 0, -1)]
    ops += [{"op": "len"}, {"op": "print" if printer else "put", "i": 0}]
    ops += [{"op": "flush"} if printer else {"op": "drain"}, {"op": "waiting_for"}, {"op": "len"}]
    return ops


def circ_ops(rnd, length):
    ops = [{"op": "new", "cap": rnd.randint(1, 7)}]
    for _ in range(length):
        n = rnd.choice(["put"] * 8 + ["clear", "get", "get", "len", "iter"])
        ops.append({"op": n, "i": rnd.randint(-2, 9)} if n == "get" else {"op": n})
    return ops


def run(ctx):
    quick = ctx.tier == "quick"
    b, c = mods()
    ctx.rule = ("TLC enumerates every arrival order of serials 0..N-1 with a drain / flush / clear possible at every point (all "
                "reachable buffer states x all operations) and every put/clear/get sequence of the ring buffer for capacities 1..3; "
                "the real objects are driven through every (state, operation) pair; random permutations of 200 serials and ring "
                "histories are validated by TLC")
    ctx.assumptions += ["every serial is fed once (since the last flush / clear), as the property says",
                        "draining = exhausting the iterator (a partially consumed iterator is outside the property)"]
    N = 4 if quick else 5
    for name, spec, adapter, consts, neg, invs, props in (
        ("ReorderBuffer", RB, BufferAdapter(b), {"N": N, "MaxEpoch": 1, "Variant": '"ok"'}, {"Variant": '"skip"'},
         ["TypeOK"], ["EmitInOrder", "Counters"]),
        ("PrintBuffer", PB, PrintAdapter(b), {"N": N, "MaxEpoch": 1, "Variant": '"ok"'}, {"Variant": '"lifo"'},
         ["TypeOK"], ["PrintInOrder", "FlushAscending"]),
        ("CircularBuffer", CB, CircAdapter(c), {"Caps": "{1,2,3}", "MaxPuts": 5 if quick else 7, "Variant": '"ok"'},
         {"Variant": '"stale"'}, ["TypeOK", "Window"], ["RejectOutside"]),
    ):
        model.mc(spec, consts, ctx, name, invariants=invs, properties=props)
        model.mc(spec, dict(consts, **neg), ctx, name + "_neg", invariants=invs, properties=props, expect_violation=True)
        g, _ = graphwalk.emit_graph(spec, model.cfg_text(consts, view="View", action_constraint="Emit"), ctx, name)
        st = graphwalk.walk(g, adapter, ctx, name, paths_per_state=4, history_ops=("flush", "clear", "drain"))
        ctx.note("walk %s" % st)
        # the same graph with one serial carrying a falsy payload (an empty line, a zero): an item like any other
        if name != "CircularBuffer":
            for blank in range(N):
                alt = PrintAdapter(b, blank) if name == "PrintBuffer" else BufferAdapter(b, blank, (0, "", 0.0, ())[blank % 4])
                st = graphwalk.walk(g, alt, ctx, "%s(falsy payload at %d)" % (name, blank), paths_per_state=1)
    ctx.exhaustive = True
    # unbounded in depth: Apalache discharges an inductive invariant of the reorder buffer (and fails on the negative control)
    from vlib import apalache
    ind = os.path.join(tlc.SPECS, "adt", "ReorderBufferInd.tla")
    base = apalache.check(ind, "CInitOk", "Init", "IndInv", 0)
    step = apalache.check(ind, "CInitOk", "IndInit", "IndInv", 1)
    neg = apalache.check(ind, "CInitNeg", "IndInit", "IndInv", 1)
    ctx.extra["apalache_inductive_invariant"] = {"module": "ReorderBufferInd.tla", "N": 8, "init_implies_inv": base[0], "inductive_step": step[0],
                                                  "negative_control_violated": neg[1], "seconds": round(base[2] + step[2] + neg[2], 1)}
    if base[0] is None or step[0] is None:
        ctx.note("apalache not available or timed out: the inductive leg was skipped (%s)" % (step[3][:100],))
    elif not (base[0] and step[0]) or not neg[1]:
        raise tlc.MachineryError("Apalache: the inductive invariant of ReorderBufferInd does not go through: %s / %s / %s" % (base[3][-200:], step[3][-200:], neg[3][-200:]))
    cind = os.path.join(tlc.SPECS, "adt", "CircularBufferInd.tla")
    cbase = apalache.check(cind, "CInitOk", "Init", "IndInv", 0)
    cstep = apalache.check(cind, "CInitOk", "IndInit", "IndInv", 1)
    cneg = apalache.check(cind, "CInitNeg", "IndInit", "IndInv", 1)
    ctx.extra["apalache_inductive_invariant_ring"] = {"module": "CircularBufferInd.tla", "MaxC": 4, "init_implies_inv": cbase[0], "inductive_step": cstep[0],
                                                       "negative_control_violated": cneg[1], "seconds": round(cbase[2] + cstep[2] + cneg[2], 1)}
    if cbase[0] is None or cstep[0] is None:
        ctx.note("apalache not available or timed out: the inductive leg of the ring buffer was skipped (%s)" % (cstep[3][:100],))
    elif not (cbase[0] and cstep[0]) or not cneg[1]:
        raise tlc.MachineryError("Apalache: the inductive invariant of CircularBufferInd does not go through: %s / %s / %s" % (cbase[3][-200:], cstep[3][-200:], cneg[3][-200:]))
    rnd = random.Random(ctx.seed * 7919 + 15)
    n = 20 if quick else 600
    big = 200
    tr = split_failed([record(BufferAdapter(b, rnd.choice([None, rnd.randrange(big)]), rnd.choice([0, "", 0.0, ()])), reorder_ops(rnd, big, False)) for _ in range(n)], ctx, "ReorderBuffer")
    tracecheck.check_traces(RB, model.constants_block({"N": big, "MaxEpoch": 1, "Variant": '"ok"'}), tr, ctx, "ReorderBuffer", {"put"})
    # one long run released at once (longer than the interpreter's recursion limit)
    long_n = 1100
    from concurrent.futures import ThreadPoolExecutor
    jobs = []
    for nm, spec_file, ad, mut in (("ReorderBuffer", RB, BufferAdapter(b), "put"), ("PrintBuffer", PB, PrintAdapter(b), "print")):
        trl = split_failed([record(ad, reversed_ops(long_n, nm == "PrintBuffer"))], ctx, nm + "_long")
        jobs.append((spec_file, model.constants_block({"N": long_n, "MaxEpoch": 1, "Variant": '"ok"'}), trl, ctx, nm + "_long", {mut}))
    with ThreadPoolExecutor(max_workers=2) as ex:       # two JVMs side by side
        list(ex.map(lambda j: tracecheck.check_traces(*j, timeout=600), jobs))
    tr = split_failed([record(PrintAdapter(b, rnd.choice([None, rnd.randrange(big)])), reorder_ops(rnd, big, True)) for _ in range(n)], ctx, "PrintBuffer")
    tracecheck.check_traces(PB, model.constants_block({"N": big, "MaxEpoch": 1, "Variant": '"ok"'}), tr, ctx, "PrintBuffer", {"print"})
    tr = split_failed([record(CircAdapter(c), circ_ops(rnd, 150)) for _ in range(n)], ctx, "CircularBuffer")
    tracecheck.check_traces(CB, model.constants_block({"Caps": "{1}", "MaxPuts": 100000, "Variant": '"ok"'}), tr, ctx,
                            "CircularBuffer", {"put"})
