"""C08 - DoublyLinkedList: exhaustive model, graph walk, random and long-run trace validation."""
import importlib
import os
import random

from vlib import graphwalk, model, tlc, tracecheck
from vlib.graphwalk import Unexpected
from adapters.C06 import split_failed

SPEC = os.path.join(tlc.SPECS, "adt", "DLList.tla")
INVS = ["TypeOK", "LenIsCount"]
PROPS = ["MovesPermute"]
MUTATORS = {"append", "prepend", "remove", "pop_back", "pop_front"}


def list_module():
    import windpyutils.structures.lists as m
    importlib.reload(m)
    return m


class ListAdapter:
    def __init__(self, mod):
        self.mod = mod

    def new_world(self):
        self._worlds = getattr(self, "_worlds", 0) + 1       # the kind of iterable handed to extend varies from drive to drive
        return {"l": None, "node": {}, "ident": {}, "lazy_salt": self._worlds}

    def _register(self, w, node):
        n = len(w["node"]) + 1
        w["node"][n] = node
        w["ident"][id(node)] = n
        return n

    def _forward(self, w, extra=0):
        out, node, steps = [], w["l"].head, 0
        limit = 3 * (len(w["node"]) + 8 + extra)
        while node is not None:
            out.append(node)
            node = node.next_node
            steps += 1
            if steps > limit:
                raise Unexpected("forward links form a cycle or reach foreign nodes")
        return out

    def _backward(self, w):
        out, node, steps = [], w["l"].tail, 0
        limit = 3 * (len(w["node"]) + 8)
        while node is not None:
            out.append(node)
            node = node.prev_node
            steps += 1
            if steps > limit:
                raise Unexpected("backward links form a cycle or reach foreign nodes")
        return out

    def obs(self, w, light=False):
        l = w["l"]
        if l is None:
            return {"built": False, "made": 0, "fwd": [], "bwd": [], "len": 0, "pays": []}
        ident = w["ident"]
        try:
            fwd = [ident[id(n)] for n in self._forward(w)]
            bwd = [ident[id(n)] for n in self._backward(w)]
        except KeyError:
            raise Unexpected("a node that was never created by the list is linked")
        return {"built": True, "made": len(w["node"]), "fwd": fwd, "bwd": bwd, "len": len(l), "pays": list(l)}

    def _lazy(self, w, method, payloads):
        """the iterable is an iterator, a generator, or a generator that fails AFTER its last element (the caller catches that):
        what was produced before the failure belongs to the list, like with list.extend"""
        w["lazy"] = w.get("lazy", 0) + 1
        kind = (w["lazy"] + len(payloads) + w.get("lazy_salt", 0)) % 3
        if kind == 0:
            method(iter(payloads))
        elif kind == 1:
            method(x for x in list(payloads))
        else:
            class SourceFailed(Exception):
                pass

            def gen():
                for x in list(payloads):
                    yield x
                raise SourceFailed()
            try:
                method(gen())
            except SourceFailed:
                pass

    def apply(self, w, op):
        name = op["op"]
        l = w["l"]
        try:
            if name == "new":
                w["l"] = l = self.mod.DoublyLinkedList(list(op["ps"])) if op["ps"] else self.mod.DoublyLinkedList()
                for n in self._forward(w, len(op["ps"])):
                    self._register(w, n)
                return []
            if name in ("append", "prepend"):
                node = getattr(l, name)(op["p"])
                return [self._register(w, node)]
            if name == "extend":
                self._lazy(w, l.extend, op["ps"])
                new = [n for n in self._forward(w, len(op["ps"])) if id(n) not in w["ident"]]
                for n in new:
                    self._register(w, n)
                return []
            if name == "pre_extend":
                self._lazy(w, l.pre_extend, op["ps"])
                new = [n for n in self._forward(w, len(op["ps"])) if id(n) not in w["ident"]]
                for n in reversed(new):
                    self._register(w, n)
                return []
            if name == "remove":
                l.remove(w["node"][op["n"]])
                return []
            if name in ("pop_back", "pop_front"):
                try:
                    return [getattr(l, name)()]
                except IndexError:
                    return []
            if name in ("move_to_front", "move_to_back"):
                getattr(l, name)(w["node"][op["n"]])
                return []
            if name == "move_after":
                l.move_after(w["node"][op["n"]], w["node"][op["m"]])
                return []
            if name == "rotate":
                l.rotate(front_to_back=bool(op["f2b"]))
                return []
            if name == "len":
                return [len(l)]
            if name == "iter":
                return list(l)
            if name == "iter_nodes":
                return [w["ident"].get(id(n), -1) for n in l.iter_nodes()]
        except (graphwalk.Timeout, Unexpected):
            raise
        except Exception as e:
            raise Unexpected("%s raised %s: %s" % (name, type(e).__name__, str(e)[:80]))
        raise tlc.MachineryError("adapter: unknown op %r" % (op,))


def sig_fn(pre, op, ret, post):
    return {}


def record(adapter, ops_iter):
    """Run operations (a generator receiving the world) and record the trace."""
    w = adapter.new_world()
    tr = []
    for op in ops_iter(w):
        try:
            ret = graphwalk.guarded(lambda: adapter.apply(w, op), 5.0)
            st = graphwalk.guarded(lambda: graphwalk.safe_obs(adapter, w), 5.0)
        except (graphwalk.Timeout, Unexpected) as e:
            tr.append({"op": op, "ret": None, "st": None, "exc": type(e).__name__ + ":" + str(e)})
            break
        tr.append({"op": op, "ret": ret, "st": st})
    return tr


def random_ops(rnd, length, payloads, maxlive):
    def gen(w):
        init = [rnd.choice(payloads) for _ in range(rnd.randint(0, 3))]
        yield {"op": "new", "ps": init}
        for _ in range(length):
            live = [w["ident"][id(n)] for n in _safe_forward(w)]
            choices = ["append", "prepend", "extend", "pre_extend", "rotate", "rotate", "len", "iter", "iter_nodes",
                       "pop_back", "pop_front"]
            if live:
                choices += ["remove", "move_to_front", "move_to_back", "move_after"] * 3
            name = rnd.choice(choices)
            if len(live) >= maxlive and name in ("append", "prepend", "extend", "pre_extend"):
                name = rnd.choice(["remove", "pop_back", "pop_front"])
            if name in ("append", "prepend"):
                yield {"op": name, "p": rnd.choice(payloads)}
            elif name in ("extend", "pre_extend"):
                yield {"op": name, "ps": [rnd.choice(payloads) for _ in range(rnd.randint(0, 3))]}
            elif name in ("remove", "move_to_front", "move_to_back"):
                yield {"op": name, "n": rnd.choice(live)}
            elif name == "move_after":
                yield {"op": name, "n": rnd.choice(live), "m": rnd.choice(live)}
            elif name == "rotate":
                yield {"op": name, "f2b": rnd.randint(0, 1)}
            else:
                yield {"op": name}
    return gen


def _safe_forward(w):
    out, node, steps = [], w["l"].head, 0
    while node is not None and steps < 100000:
        if id(node) in w["ident"]:
            out.append(node)
        node = node.next_node
        steps += 1
    return out


def long_run_ops(rnd, n, payload, moves):
    """A long run of equal payloads, then moves deep inside the run (list length / payload clause)."""
    def gen(w):
        yield {"op": "new", "ps": []}
        yield {"op": "extend", "ps": [payload] * n}
        for _ in range(moves):
            a, b = rnd.randint(1, n), rnd.randint(1, n)
            name = rnd.choice(["move_after", "move_after", "move_to_front", "move_to_back", "rotate", "remove_readd"])
            if name == "move_after":
                yield {"op": name, "n": a, "m": b}
            elif name == "rotate":
                yield {"op": name, "f2b": rnd.randint(0, 1)}
            elif name == "remove_readd":
                yield {"op": "len"}
            else:
                yield {"op": name, "n": a}
        yield {"op": "len"}
    return gen


def run(ctx):
    quick = ctx.tier == "quick"
    consts = {"Payloads": "{7,8}", "MaxLive": 3 if quick else 4, "MaxMade": 5 if quick else 6, "MoveKeepsLen": "TRUE"}
    ctx.rule = ("TLC enumerates every reachable list (sequence of node identifiers over 2 payload values, so equal payloads "
                "are the rule) and every operation on every live node; the real list is driven through every (state, "
                "operation) pair with forward walk, backward walk, len() and iteration compared; random histories and long "
                "runs of equal payloads are recorded and judged by TLC; distinct = distinct (state, operation) pairs and traces")
    ctx.assumptions += ["node arguments are nodes currently linked in the list (as the property says)",
                        "links are read through the documented public attributes head/tail/prev_node/next_node"]
    model.mc(SPEC, consts, ctx, "DLList", invariants=INVS, properties=PROPS)
    neg = dict(consts, MoveKeepsLen="FALSE")
    model.mc(SPEC, neg, ctx, "DLList_neg", invariants=INVS, properties=PROPS, expect_violation=True)
    g, _ = graphwalk.emit_graph(SPEC, model.cfg_text(consts, view="View", action_constraint="Emit"), ctx, "DLList")
    adapter = ListAdapter(list_module())
    stats = graphwalk.walk(g, adapter, ctx, "DLList", sig_fn=sig_fn, paths_per_state=2)
    ctx.note("walk %s" % stats)
    ctx.exhaustive = True
    rnd = random.Random(ctx.seed * 7919 + 8)
    traces = [record(adapter, random_ops(rnd, 80 if quick else 400, [7, 8], 10)) for _ in range(40 if quick else 1500)]
    # long runs of one payload: "no operation fails because of list length or payload values"
    for n in ([1500] if quick else [1500, 4000]):
        traces.append(record(adapter, long_run_ops(rnd, n, 7, 12 if quick else 30)))
    good = split_failed(traces, ctx, "DLList", None)
    tconsts = dict(consts, MaxLive=100000, MaxMade=100000)
    tracecheck.check_traces(SPEC, model.constants_block(tconsts), good, ctx, "DLList", MUTATORS, sig_fn=sig_fn, timeout=1500)
