"""C13 - records survive save/load (codec, exploration level) and record files are sequences of records."""
import math
import os
import random
from dataclasses import dataclass

from vlib import cases, graphwalk, model, tlc
from vlib.graphwalk import Unexpected
from adapters import linefiles as lf
from adapters import C12

CODEC = os.path.join(tlc.SPECS, "fun", "RecordCodec.tla")
INTS = {1: 0, 2: -1, 3: 2 ** 31, 4: 10 ** 20}
FLOATS = {1: 0.0, 2: -0.1, 3: 1e-320, 4: 1.5e300}
TEXTS = {0: 'plain Plze\u0148', 1: ' lead, "q" \ttail ', 2: "it's \\ back \u6771\u4eac \u20ac", 3: ""}      # with multi-byte text


def record_classes(f):
    @dataclass
    class JRec(f.JsonRecord):
        n: int
        text: str
        extra: list

    @dataclass
    class CRec(f.CSVRecord):
        n: int
        text: str
        w: float

    @dataclass
    class TRec(f.TSVRecord):
        n: int
        text: str
        w: float
    @dataclass
    class CLast(f.CSVRecord):
        n: int
        w: float
        text: str

    @dataclass
    class TLast(f.TSVRecord):
        n: int
        w: float
        text: str
    return {"json": JRec, "csv": CRec, "tsv": TRec, "csv_strlast": CLast, "tsv_strlast": TLast}


LAST = {0: "trailing blanks  ", 1: "", 2: " \t", 3: "x\u20ac"}


def rec_of(kind, cls, s):
    if kind.endswith("strlast"):
        return cls(n=s, w=[0.5, -0.1, 1e-320, 3.0][s % 4], text=LAST[s % 4])
    if kind == "json":
        return cls(n=s, text=TEXTS[s % 4], extra=[s, {"k": TEXTS[(s + 1) % 4], "z": [None, True, 1.5]}])
    return cls(n=s, text=TEXTS[s % 4], w=[0.5, -0.1, 1e-320, 3.0][s % 4])


def file_adapters(f):
    classes = record_classes(f)
    out = []
    for kind, cls in classes.items():
        for vname, mk, mmap in (("MutableRecordFile", f.MutableRecordFile, False),
                                ("MutableMemoryMappedRecordFile", f.MutableMemoryMappedRecordFile, True)):
            spec = ((lambda p, idx=None, mk=mk, cls=cls: mk(p, cls, idx)), None, None, False, mmap)
            ro = {"RecordFile": ((lambda p, idx=None, cls=cls: f.RecordFile(p, cls, idx)), None, None, False, False),
                  "MemoryMappedRecordFile": ((lambda p, idx=None, cls=cls: f.MemoryMappedRecordFile(p, cls, idx)), None, None, False, True)}

            def from_value(v, kind=kind, cls=cls):
                if not isinstance(v, cls):
                    raise Unexpected("a %s instead of a record came out" % type(v).__name__)
                if not isinstance(v.n, int) or v != rec_of(kind, cls, v.n):
                    raise Unexpected("record %r differs from the one that was stored" % (v,))
                return v.n
            ad = lf.MutableAdapter(vname + "/" + kind, spec, ro,
                                   to_value=lambda s, kind=kind, cls=cls: rec_of(kind, cls, s),
                                   from_value=from_value,
                                   to_line=lambda s, kind=kind, cls=cls: rec_of(kind, cls, s).save().rstrip("\n"))
            ad._line_sym = lambda text, cls=cls, fv=from_value: fv(cls.load(text))
            out.append(ad)
    return out


# ---------------------------------------------------------------------------------------------- codec
def enc(x):
    """canonical text faithful to Python ==: 1 == 1.0 == True share an encoding"""
    if isinstance(x, (bool, int, float)):
        if isinstance(x, float) and (math.isinf(x) or math.isnan(x)):
            return "F" + repr(x)
        if x == int(x):
            return "#" + str(int(x))
        return "f" + repr(float(x))
    if isinstance(x, str):
        return "s" + str(len(x)) + ":" + x
    if x is None:
        return "n"
    if isinstance(x, (list, tuple)):
        return ("L" if isinstance(x, list) else "T") + "[" + ",".join(enc(i) for i in x) + "]"
    if isinstance(x, dict):
        return "D{" + ",".join(sorted(enc(k) + "=" + enc(v) for k, v in x.items())) + "}"
    return "?" + repr(x)


def cps(s):
    return [ord(c) for c in s]


JSON_TEMPLATES = [lambda a, b: a, lambda a, b: [a, b], lambda a, b: {"k": a}, lambda a, b: {"a": [a], "b": {"c": b}},
                  lambda a, b: [[a], {}, []], lambda a, b: {a if isinstance(a, str) else "key": b}]


def codec(ctx, f, quick):
    classes = record_classes(f)

    @dataclass
    class JAny(f.JsonRecord):
        a: object
        b: object
    results, info = [], []
    alphabet_csv = "{44, 9, 34, 39, 92, 32, 97, 233}"
    alphabet_json = "{44, 9, 34, 39, 92, 32, 97, 233, 10, 13, 8232, 128512}"
    doms = {}
    for fam, alpha in (("csv", alphabet_csv), ("json", alphabet_json)):
        consts = model.constants_block({"Alphabet": alpha, "MaxLen": 2 if (quick or fam == "json") else 3, "NumTokens": 4,
                                        "Product": "FALSE" if quick else ("TRUE" if fam == "csv" else "FALSE")})
        lst = []
        cases.enumerate_cases(CODEC, consts, ctx, "codec_domain_" + fam, lambda i, o, lst=lst: lst.append(i))
        doms[fam] = (lst, consts)
    # the string field first, in the middle and last (the last field is where terminator handling shows)
    orders = {}
    for kind, base in (("csv", f.CSVRecord), ("tsv", f.TSVRecord)):
        @dataclass
        class SFirst(base):
            text: str
            n: int
            w: float

        @dataclass
        class SLast(base):
            n: int
            w: float
            text: str

        @dataclass
        class SOnly(base):
            text: str
        orders[kind] = [classes[kind], SFirst, SLast, SOnly]
    for kind in ("csv", "tsv"):
        for k, c in enumerate(doms["csv"][0]):
            s = "".join(chr(x) for x in c["s"])
            for cls in (orders[kind] if not quick else [orders[kind][k % 4], orders[kind][(k + 2) % 4]]):
                if len(cls.field_names()) == 1:
                    r = cls(text=s)
                else:
                    r = cls(n=INTS[c["i"]], text=s, w=FLOATS[c["f"]])
                results.append(run_one(r, cls, cps("\r\n")))
                info.append((kind + ":" + cls.__name__, c))
    leaves = []
    for c in doms["json"][0]:
        s = "".join(chr(x) for x in c["s"])
        leaves.append((c, [s, INTS[c["i"]], FLOATS[c["f"]], bool(c["i"] % 2), None][len(leaves) % 5 if len(leaves) % 3 else 0]))
    for k, (c, leaf) in enumerate(leaves):
        other = leaves[(k * 7 + 3) % len(leaves)][1]
        val = JSON_TEMPLATES[k % len(JSON_TEMPLATES)](leaf, other)
        r = JAny(a=val, b=leaf)
        results.append(run_one(r, JAny, []))
        info.append(("json", c))
    # record classes that extend a concrete record class (used AFTER their base class was used): the added fields must survive
    @dataclass
    class JBase(f.JsonRecord):
        a: object
        b: object

    @dataclass
    class JDerived(JBase):
        c: object = None
        d: object = "dflt"

    @dataclass
    class CBase(f.CSVRecord):
        n: int
        text: str

    @dataclass
    class CDerived(CBase):
        w: float = 0.0
        more: str = ""

    @dataclass
    class TDerived(f.TSVRecord):
        n: int
        text: str

    @dataclass
    class TDerived2(TDerived):
        w: float = 0.0
    for k, (c, leaf) in enumerate(leaves[:60]):
        other = leaves[(k * 5 + 1) % len(leaves)][1]
        for r, cls in ((JBase(a=leaf, b=other), JBase), (JDerived(a=leaf, b=other, c=[leaf], d=other), JDerived)):
            results.append(run_one(r, cls, []))
            info.append(("json:" + cls.__name__, c))
    for k, c in enumerate(doms["csv"][0][:120]):
        s = "".join(chr(x) for x in c["s"])
        for r, cls, kind in ((CBase(n=INTS[c["i"]], text=s), CBase, "csv"), (CDerived(n=INTS[c["i"]], text=s, w=FLOATS[c["f"]], more=s[::-1]), CDerived, "csv"),
                             (TDerived(n=INTS[c["i"]], text=s), TDerived, "tsv"), (TDerived2(n=INTS[c["i"]], text=s, w=FLOATS[c["f"]]), TDerived2, "tsv")):
            results.append(run_one(r, cls, cps("\r\n")))
            info.append((kind + ":" + cls.__name__, c))
    verdicts = cases.judge(CODEC, doms["csv"][1], results, ctx, "codec_law")
    for (kind, c), res, ok in zip(info, results, verdicts):
        ctx.case(("codec", kind, str(c)))
        ctx.traces += 1
        if not ok or "exc" in res:
            line = "".join(chr(x) for x in res["line"])
            ctx.violation({"kind": "codec", "format": kind},
                          "%s record with fields %r: save() gave %r and load(save()) %s" % (
                              kind, res["shown"], line, res.get("exc") or "gave a different record / the line has a line break"),
                          {"engine": "cases", "format": kind, "case": c, "result": res})
    ctx.sample({"codec_case": info[len(info) // 3][1], "result": {k: v for k, v in results[len(info) // 3].items() if k != "shown"}})
    ctx.extra["codec_cases"] = len(results)


def run_one(r, cls, term):
    fields = [getattr(r, n) for n in cls.field_names()]
    out = {"rec": [cps(enc(v)) for v in fields], "term": term, "shown": repr(fields)[:120]}
    try:
        line = graphwalk.guarded(r.save, 5.0)
        out["line"] = cps(line)
        back = graphwalk.guarded(lambda: cls.load(line), 5.0)
        out["loaded"] = [cps(enc(getattr(back, n))) for n in cls.field_names()]
        if (back == r) != (out["loaded"] == out["rec"]):
            # the harness's flattening must agree with Python's == ; if not the case is judged by == alone
            out["loaded"] = out["rec"] if back == r else [cps("!=")]
    except Exception as e:
        out.setdefault("line", [])
        out["loaded"] = [cps("exception")]
        out["exc"] = "raised %s: %s" % (type(e).__name__, str(e)[:80])
    return out


def run(ctx):
    quick = ctx.tier == "quick"
    f = lf.files_mod()
    C12.run(ctx, name="RecordFile", adapters_fn=file_adapters)
    codec(ctx, f, quick)
    ctx.rule += ("; record files: the same specification with symbols standing for JSON / CSV / TSV records (fields with "
                 "delimiters, quotes, leading and trailing blanks, nested values); codec: TLC enumerates strings up to length 2-3 "
                 "over an alphabet of delimiter, tab, quotes, backslash, blank, ASCII and non-ASCII letters (JSON also line breaks "
                 "and U+2028) plus blank-padded patterns, with integer / float tokens, the real save/load run on every case "
                 "(thousands of calls per class in one process, so the shared writer buffer is exercised) and TLC judges "
                 "round-trip and single-line")
    ctx.assumptions += ["CSV/TSV fields: int, float, str without line breaks; JSON: strings, ints, finite floats, bools, None, nested lists/dicts",
                        "equality of records is Python == (1 == 1.0 == True)"]
