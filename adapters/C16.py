"""C16 - ImmutIntervalMap against its definition (case replay)."""
import importlib
import os

from vlib import cases, model, tlc
from adapters.C19 import compare, safe

SPEC = os.path.join(tlc.SPECS, "fun", "IntervalMap.tla")


def mod():
    import windpyutils.structures.span_set as s
    import windpyutils.structures.maps as m
    importlib.reload(s)
    importlib.reload(m)
    return m


def conc(x, flt):
    """abstract end point / probe x stands for x/2, so probes fall on ends and in gaps; floats or ints"""
    v = x / 2
    return v if (flt or v != int(v)) else int(v)


def observe(m, d, probes, flt, order=None):
    mapping = {(conc(s, flt), conc(e, flt)): 10 + i + 1 for i, (s, e) in enumerate(d)}
    try:
        im = m.ImmutIntervalMap(mapping)
    except KeyError:
        return {"valid": 0}
    look = {}
    # the probes are asked on ONE map object in the given order (ascending, descending, shuffled, with repeats): an
    # "immutable" map must answer each probe the same whatever was asked before
    for p in (order or probes):
        k = conc(p, not flt)
        try:
            v = im[k]
            inn = k in im
        except KeyError:
            v, inn = -1, k in im
        if inn != (v != -1):
            return {"exc": "'in' disagrees with lookup for key %r" % (k,)}
        if p in look and look[p] != v:
            return {"exc": "the same key %r was answered %r and then %r" % (k, look[p], v)}
        look[p] = v
    look = [look[p] for p in probes]
    # an immutable map is iterated as often as one likes: an abandoned iteration, a complete one, a nested one and one more
    it = iter(im)
    next(it, None)
    items = [[int(a * 2), int(b * 2), v] for (a, b), v in im]
    nested = [[int(a * 2), int(b * 2), v] for (a, b), v in im for _ in [x for x in im][:1]]
    again = [[int(a * 2), int(b * 2), v] for (a, b), v in im]
    if nested != items or again != items:
        return {"exc": "iterating the same map again gives %r (nested: %r) after %r" % (again, nested, items)}
    return {"valid": 1, "len": len(im), "items": items, "look": look}


def run(ctx):
    quick = ctx.tier == "quick"
    m = mod()
    ctx.rule = ("TLC enumerates every dictionary of up to 3 distinct intervals (in every insertion order; invalid start > end, touching, nested, "
                "degenerate single-point ones included) over 4-5 end points and evaluates validity, len, ascending items and the lookup of "
                "every probe (probes lie on interval ends and in the gaps); the real ImmutIntervalMap must raise KeyError exactly for the "
                "invalid dictionaries and agree on every probe, 'in', len and iteration")
    ctx.assumptions += ["end points and keys are multiples of 0.5 given as ints or floats", "pure functions: exploration level"]
    ends = [0, 2, 4, 6, 8] if quick else [0, 2, 4, 6, 8, 10]
    probes = list(range(-1, max(ends) + 2))
    k = {"Ends": model.tla_set(ends), "MaxIntervals": 3, "MaxProbe": max(ends) + 1}
    n = [0]

    import random as _random
    ornd = _random.Random(ctx.seed * 7919 + 16)

    def one(d, exp):
        n[0] += 1
        kind = n[0] % 4
        if kind == 0:
            order = list(probes)
        elif kind == 1:
            order = list(reversed(probes))
        else:
            order = list(probes) + [ornd.choice(probes) for _ in range(len(probes))]
            ornd.shuffle(order)
        compare(ctx, "ImmutIntervalMap", d, exp, safe(lambda: observe(m, d, probes, n[0] % 2 == 0, order)))
        if kind >= 2 and exp.get("valid"):
            # hit / miss / hit patterns: a second object probed in another shuffled order
            order2 = list(probes) * 2
            ornd.shuffle(order2)
            compare(ctx, "ImmutIntervalMap(order)", d, exp, safe(lambda: observe(m, d, probes, n[0] % 2 == 1, order2)))
    cases.enumerate_cases(SPEC, model.constants_block(k), ctx, "intervalmap", one, timeout=2400)
    ctx.exhaustive = True
    ctx.extra["bounds"] = k
