"""X01 - growth beyond the listed properties: further parts of the library specified in TLA+ and walked the same way
(RoundSequence, AttributeDrivenDictionary, Observable, MapAccessFile, MockedRand, Singleton/Logger). Not a listed property: evidence/X01.json is informational."""
import importlib
import os

from vlib import graphwalk, model, tlc
from vlib.graphwalk import Unexpected, wrap

D = os.path.join(tlc.SPECS, "extra")
KEYS = {1: "a", 2: "b", 3: "x1", 4: "1x", 5: "class", 6: "None", 7: "a b"}


class RoundAdapter:
    def __init__(self, g):
        self.g = g

    def new_world(self):
        return {"r": None, "s": []}

    def obs(self, w):
        return {"built": w["r"] is not None, "seq": w["s"]}

    @wrap
    def apply(self, w, op):
        n = op["op"]
        if n == "new":
            w["s"] = list(op["s"])
            w["r"] = self.g.RoundSequence(tuple(op["s"]) if len(op["s"]) % 2 else list(op["s"]))
            return []
        if n == "next":
            try:
                return [next(w["r"])]
            except StopIteration:
                return []
        if n == "rest":
            return list(iter(w["r"]))


class AttrAdapter:
    def __init__(self, cls):
        self.cls = cls

    def new_world(self):
        return {"d": None}

    def obs(self, w):
        d = w["d"]
        if d is None:
            return {"built": False, "keys": [], "vals": []}
        inv = {v: k for k, v in KEYS.items()}
        items = sorted((inv[k], v) for k, v in dict.items(d))
        return {"built": True, "keys": [k for k, _ in items], "vals": [v for _, v in items]}

    @wrap
    def apply(self, w, op):
        n, d = op["op"], w["d"]
        k = KEYS.get(op.get("k"))
        if n == "new":
            w["d"] = self.cls()
            return []
        try:
            if n == "setitem":
                d[k] = op["v"]; return []
            if n == "setattr":
                setattr(d, k, op["v"]); return []
            if n == "getitem":
                return [d[k]]
            if n == "getattr":
                return [getattr(d, k)]
            if n == "delitem":
                del d[k]; return []
        except (KeyError, AttributeError):
            return [-1]
        if n == "contains":
            return [1 if k in d else 0]
        if n == "len":
            return [len(d)]
        if n == "vars":
            inv = {v: kk for kk, v in KEYS.items()}
            v = vars(d)
            if v is not d:
                raise Unexpected("vars(obj) is not the mapping itself")
            return sorted(inv[x] for x in v)


class ObsAdapter:
    def __init__(self, mod):
        self.mod = mod

    def new_world(self):
        return {"o": None, "called": []}

    def obs(self, w):
        o = w["o"]
        if o is None:
            return {"built": False, "reg": [[], []]}
        reg = o.observers
        return {"built": True, "reg": [sorted(f.ident for f in reg.get(t, ())) for t in ("T1", "T2")]}

    @wrap
    def apply(self, w, op):
        n = op["op"]
        mod = self.mod
        if n == "new":
            class A(mod.Observable):
                @mod.Observable.event("T1")
                def one(self):
                    pass

                @mod.Observable.event("T2", True)
                def two(self, x):
                    pass
            w["o"] = A()
            w["fns"] = {}
            for i in (1, 2, 3):
                def fn(*a, i=i, w=w):
                    w["called"].append((i, a))
                fn.ident = i
                w["fns"][i] = fn
            return []
        o = w["o"]
        tag = "T%d" % op["t"] if "t" in op else None
        if n == "register":
            o.register_observer(tag, w["fns"][op["o"]]); return []
        if n == "unregister":
            o.unregister_observer(tag, w["fns"][op["o"]]); return []
        if n == "clear":
            o.clear_observers(); return []
        if n == "fire":
            w["called"] = []
            if tag == "T1":
                o.one()
                want = ()
            else:
                o.two(42)
                want = (42,)
            if any(a != want for _, a in w["called"]):
                raise Unexpected("observers got arguments %r" % (w["called"],))
            ids = [i for i, _ in w["called"]]
            if len(ids) != len(set(ids)):
                raise Unexpected("an observer was called twice")
            return sorted(ids)


class MapFileAdapter:
    """files.MapAccessFile over a real file; keys 1..3 are "k1".. (dict / str index) or the ints themselves (int index)"""
    LINES = {1: "first line", 2: "", 3: "third \u017elu\u0165 \u20ac line"}

    def __init__(self, f):
        self.f = f

    def new_world(self):
        os.makedirs(tlc.WORK, exist_ok=True)
        import tempfile
        return {"dir": tempfile.mkdtemp(prefix="mapf_", dir=tlc.WORK), "m": None, "src": 0, "off": {}}

    def close(self, w):
        import shutil
        try:
            if w["m"] is not None:
                w["m"].close()
        except Exception:
            pass
        shutil.rmtree(w["dir"], ignore_errors=True)

    def key(self, w, k):
        return k if w["src"] == 3 else "k%d" % k

    def obs(self, w):
        m = w["m"]
        if m is None:
            return {"phase": "none", "n": 0, "src": 0}
        return {"phase": "open" if m.file is not None else "closed", "n": len(m), "src": w["src"]}

    @wrap
    def apply(self, w, op):
        n, m = op["op"], w["m"]
        if n == "new":
            path = os.path.join(w["dir"], "data.txt")
            pos = 0
            with open(path, "wb") as fh:
                for i in (1, 2, 3):
                    w["off"][i] = pos
                    b = (self.LINES[i] + "\n").encode("utf-8")
                    fh.write(b)
                    pos += len(b)
            w["src"] = op["src"]
            pairs = [(self.key(w, k), w["off"][line]) for k, line in op["ps"]]
            if op["src"] == 1:
                w["m"] = self.f.MapAccessFile(path, dict(pairs))
            else:
                ipath = os.path.join(w["dir"], "data.index")
                with open(ipath, "w", newline="") as fh:
                    fh.write("key\tfile_line_offset\n")
                    for k, o in pairs:
                        fh.write("%s\t%d\n" % (k, o))
                w["m"] = self.f.MapAccessFile(path, ipath, key_type=int if op["src"] == 3 else str)
            return []
        if n == "open":
            if m.open() is not m:
                raise Unexpected("open() does not return the object")
            return []
        if n == "close":
            m.close(); return []
        if n == "len":
            return [len(m)]
        if n == "get":
            try:
                line = m[self.key(w, op["k"])]
            except KeyError:
                return []
            except RuntimeError:
                return [-1]
            inv = {v + "\n": k for k, v in self.LINES.items()}
            if line not in inv:
                raise Unexpected("a line that is not in the file came out: %r" % (line[:40],))
            return [inv[line]]


class MockAdapter:
    """mocking.MockedRand / MockedRandInt; float steps and results in quarters (exact floats)"""

    def __init__(self, mod):
        self.mod = mod

    def new_world(self):
        return {"m": None, "kind": "none", "mode": "none", "seq": [], "step": 0}

    def obs(self, w):
        return {"built": w["m"] is not None, "kind": w["kind"], "mode": w["mode"], "seq": w["seq"], "step": w["step"]}

    @wrap
    def apply(self, w, op):
        n = op["op"]
        if n in ("newseq", "newstep"):
            fl = op["kind"] == "float"
            cls = self.mod.MockedRand if fl else self.mod.MockedRandInt
            if n == "newseq":
                vals = [x / 4.0 for x in op["s"]] if fl else list(op["s"])
                w["m"] = cls(tuple(vals) if len(vals) % 2 else vals)
                w["seq"], w["mode"] = list(op["s"]), "seq"
            else:
                w["m"] = cls(op["k"] / 4.0 if fl else op["k"])
                w["step"], w["mode"] = op["k"], "step"
            w["kind"] = op["kind"]
            return []
        if n == "call":
            v = w["m"]() if op["how"] == "call" else w["m"].sample()
            if w["kind"] == "float":
                q = v * 4
                if q != int(q):
                    raise Unexpected("value %r is not a multiple of 1/4" % (v,))
                return [int(q)]
            if isinstance(v, bool) or not isinstance(v, int):
                raise Unexpected("MockedRandInt returned %r" % (v,))
            return [v]


class SingletonAdapter:
    """design_patterns.Singleton with fresh classes per world, logger.Logger re-obtained for every operation.
    Logger is process-wide state: the harness forgets its instance when a new world starts."""

    def __init__(self, dp, lg):
        self.dp, self.lg = dp, lg

    def new_world(self):
        dp = self.dp
        dp.Singleton._clsInstances.pop(self.lg.Logger, None)
        w = {"cls": {}, "seen": [], "called": [], "fns": {}}

        def mk(i):
            class S(metaclass=dp.Singleton):
                def __init__(self, a):
                    self.a = a
            S.__name__ = "S%d" % i
            return S
        for i in (1, 2):
            w["cls"][i] = mk(i)
        for i in (1, 2, 3):
            def fn(*a, i=i, w=w):
                w["called"].append((i, a))
            w["fns"][i] = fn
        return w

    def close(self, w):
        for c in w["cls"].values():
            self.dp.Singleton._clsInstances.pop(c, None)
        self.dp.Singleton._clsInstances.pop(self.lg.Logger, None)

    def number(self, w, o):
        for i, x in enumerate(w["seen"]):
            if x is o:
                return i + 1
        w["seen"].append(o)
        return len(w["seen"])

    def obs(self, w):
        reg = self.dp.Singleton._clsInstances
        inst = []
        for i in (1, 2):
            o = reg.get(w["cls"][i])
            inst.append([] if o is None else [self.number(w, o), o.a])
        lgr = reg.get(self.lg.Logger)
        ids = [] if lgr is None else sorted(i for i, f in w["fns"].items() if f in lgr.observers.get("LOG", ()))
        return {"inst": inst, "reg": ids}

    @wrap
    def apply(self, w, op):
        n = op["op"]
        if n == "make":
            o = w["cls"][op["c"]](op["a"])
            if type(o) is not w["cls"][op["c"]]:
                raise Unexpected("construction returned an object of %r" % (type(o),))
            return [self.number(w, o), o.a]
        L = self.lg.Logger()
        if L is not self.lg.Logger():
            raise Unexpected("two Logger() calls gave two objects")
        if n == "register":
            L.register_observer("LOG", w["fns"][op["o"]]); return []
        if n == "unregister":
            L.unregister_observer("LOG", w["fns"][op["o"]]); return []
        if n == "log":
            w["called"] = []
            txt = "text %d" % op["t"]
            L.log(txt)
            if any(a != (txt,) for _, a in w["called"]):
                raise Unexpected("observers got %r" % (w["called"],))
            ids = [i for i, _ in w["called"]]
            if len(ids) != len(set(ids)):
                raise Unexpected("an observer was called twice")
            return sorted(ids)


def build_tree(par, abstract, names=None):
    """classes for a tree given as parent list (par[i-1] = parent of node i), abstract node set and names"""
    import abc
    cls = {}
    for i in range(len(par) + 1):
        if i in abstract:
            ns = {"f": abc.abstractmethod(lambda self: None)}
        else:
            ns = {"f": lambda self: None}
        base = (abc.ABC,) if i == 0 else (cls[par[i - 1]],)
        cls[i] = abc.ABCMeta("N%d" % i if names is None else "K%d" % names[i], base, ns)
    return cls


def class_tree(ctx, cu):
    from vlib import cases
    from adapters.C19 import compare, safe
    spec = os.path.join(D, "ClassTree.tla")

    def sub(c, exp):
        cls = build_tree(c["par"], set(c["abs"]))
        inv = {v: k for k, v in cls.items()}
        got = safe(lambda: [inv[x] for x in cu.subclasses(cls[c["r"]], abstract_ok=bool(c["ok"]))])
        compare(ctx, "subclasses", c, exp, got)
    n1 = cases.enumerate_cases(spec, model.constants_block({"N": 4, "Names": "{1,2}"}), ctx, "subclasses", sub, "DomainSub", "DefSub")

    def name(c, exp):
        cls = build_tree(c["par"], set(c["abs"]), list(c["names"]))
        inv = {v: k for k, v in cls.items()}

        def call():
            try:
                return [inv[cu.sub_cls_from_its_name(cls[c["r"]], "K%d" % c["name"], abstract_ok=bool(c["ok"]))]]
            except ValueError:
                return []
        compare(ctx, "sub_cls_from_its_name", c, exp, safe(call))
    n2 = cases.enumerate_cases(spec, model.constants_block({"N": 3, "Names": "{1,2}"}), ctx, "sub_cls_from_its_name", name, "DomainName", "DefName")
    ctx.note("ClassTree: %d + %d cases" % (n1, n2))


def run(ctx):
    import windpyutils.generic as g
    import windpyutils.structures.data_classes as dc
    import windpyutils.design_patterns as dp
    import windpyutils.files as fl
    import windpyutils.mocking as mk
    import windpyutils.logger as lg
    import windpyutils.class_utils as cu
    for m in (g, dc, dp, fl, mk, lg, cu):
        importlib.reload(m)
    ctx.rule = "growth beyond the listed properties: TLC's complete transition relation of six further specifications (RoundSequence, AttributeDrivenDictionary, Observable, MapAccessFile, MockedRand / MockedRandInt, Singleton + Logger) walked on the real classes"
    jobs = (
        ("RoundSequence", os.path.join(D, "RoundSequence.tla"), {"Elems": "{1,2,3}", "MaxLen": 3}, [], ["Cyclic"], RoundAdapter(g)),
        ("AttrDict", os.path.join(D, "AttrDict.tla"), {"Keys": "{1,2,3,4,5,6,7}", "Valid": "{1,2,3}", "Vals": "{10,20}"}, [], ["ItemAssignmentValidates"],
         AttrAdapter(dc.AttributeDrivenDictionary)),
        ("Observable", os.path.join(D, "Observable.tla"), {"Tags": "{1,2}", "Observers": "{1,2,3}"}, [], ["FireCallsRegistered"], ObsAdapter(dp)),
        ("MapFile", os.path.join(D, "MapFile.tla"), {"Keys": "{1,2,3}", "NLines": 3}, [], ["ReadsFollowTheMapping"], MapFileAdapter(fl)),
        ("MockedRand", os.path.join(D, "MockedRand.tla"), {"Elems": "{0,1,3}", "MaxLen": 3, "Steps": "{0,1,2,3,5}", "MaxCalls": 7}, ["Periodic"],
         ["Deterministic", "IntStepIsMultiple", "FractionInRange"], MockAdapter(mk)),
        ("SingletonLogger", os.path.join(D, "SingletonLogger.tla"), {"NCls": 2, "Args": "{10,20}", "Observers": "{1,2,3}", "Texts": "{1,2}"}, ["Distinct"],
         ["OneInstance", "LogReachesRegistered"], SingletonAdapter(dp, lg)),
    )
    for name, spec, consts, invs, props, ad in jobs:
        model.mc(spec, consts, ctx, name, invariants=invs, properties=props)
        gr, _ = graphwalk.emit_graph(spec, model.cfg_text(consts, view="View", action_constraint="Emit"), ctx, name)
        st = graphwalk.walk(gr, ad, ctx, name, paths_per_state=2)
        ctx.note("walk %s" % st)
    class_tree(ctx, cu)
    ctx.exhaustive = True
