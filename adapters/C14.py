"""C14 - TextFileStorage: what is stored under an id is what any process reads back (controlled execution)."""
import json
import os
import random
import time

from vlib import model, simworld as S, tlc, tracecheck
from adapters import poolsim

SRC = tlc.REPO + "/windpyutils/parallel/storage.py"
OBS = os.path.join(tlc.SPECS, "storage", "StorageObs.tla")
IMPL = os.path.join(tlc.SPECS, "storage", "MC_TextFileStorage.tla")
DECOR = ["", " žž€", "  ", "\t|", " \U0001d11e x"]


def text_of(tok):
    return "text-%d%s" % (tok, DECOR[tok % len(DECOR)])


def token_of(s):
    if s == "":
        return -2
    if s.startswith("text-"):
        head = s[5:].split(DECOR[1][0])[0]
        digits = ""
        for ch in s[5:]:
            if ch.isdigit():
                digits += ch
            else:
                break
        if digits and text_of(int(digits)) == s:
            return int(digits)
    return -3


class Harness:
    def __init__(self):
        self.mod = S.load(SRC, "storage_sim", extra_modules={"os": S.make_os_shim(), "io": S.make_io_shim()}, inject={"open": S.sim_open})

    def main_fn(self, scen):
        mod = self.mod

        def main():
            w = S.W
            st0 = mod.TextFileStorage("/sim", number_of_data=scen.get("presize"))
            w.constructed = True

            def writer(script):
                def fn():
                    st = S.fork_copy(st0)
                    st.open()
                    try:
                        for g, tok in script:
                            if g < 0:            # close and re-open the writer's file between two stores (append mode)
                                st.close()
                                st.open()
                                continue
                            w.event(op="store_begin", g=g, t=tok)
                            try:
                                st[g] = text_of(tok)
                                res = 1
                            except ValueError:
                                res = 0
                            w.event(op="store_end", g=g, t=tok, res=res)
                    finally:
                        st.close()
                return fn

            def reader(ri, script):
                def fn():
                    st = S.fork_copy(st0)
                    st.reader_only = True
                    st.open()
                    try:
                        for k, g in enumerate(script):
                            rid = ri * 100 + k
                            w.event(op="read_begin", r=rid, g=g)
                            try:
                                res = token_of(st[g])
                            except IndexError:
                                res = -1
                            w.event(op="read_end", r=rid, g=g, res=res)
                    finally:
                        st.close()
                return fn
            procs = [S.SimProc(target=writer(sc)) for sc in scen["writers"]]
            procs += [S.SimProc(target=reader(i + 1, sc)) for i, sc in enumerate(scen["readers"])]
            for p in procs:
                p.start()
            for p in procs:
                p.join()
            # quiescent observers in the parent
            w.event(op="len", n=len(st0))
            w.event(op="contig", b=1 if st0.is_contiguous() else 0)
            st0.reader_only = True
            with st0:
                w.event(op="iter", ts=[token_of(x) for x in st0])
                ids = sorted(set(g for sc in scen["writers"] for g, _ in sc if g >= 0) | {0, 7})
                for k, g in enumerate(ids):
                    w.event(op="read_begin", r=9000 + k, g=g)
                    try:
                        res = token_of(st0[g])
                    except IndexError:
                        res = -1
                    w.event(op="read_end", r=9000 + k, g=g, res=res)
            st0.flush()
            w.event(op="flush", left=len(w.fs), n=len(st0))
            w.event(op="len", n=len(st0))
            if scen.get("writers2"):
                # a second generation after the flush: new writer processes store again and the SAME parent object, which read
                # (and was closed) in the first generation, reads again
                st0.reader_only = False
                procs2 = [S.SimProc(target=writer(sc)) for sc in scen["writers2"]]
                for p in procs2:
                    p.start()
                for p in procs2:
                    p.join()
                w.event(op="len", n=len(st0))
                st0.reader_only = True
                with st0:
                    w.event(op="iter", ts=[token_of(x) for x in st0])
                    ids2 = sorted(set(g for sc in scen["writers2"] for g, _ in sc if g >= 0) | {0})
                    for k, g in enumerate(ids2):
                        w.event(op="read_begin", r=9500 + k, g=g)
                        try:
                            res = token_of(st0[g])
                        except IndexError:
                            res = -1
                        w.event(op="read_end", r=9500 + k, g=g, res=res)
        return main

    def execute(self, scen, chooser, max_steps=6000):
        w = S.World(chooser, max_steps=max_steps)
        t0 = time.time()
        w.run(self.main_fn(scen))
        w.wall = time.time() - t0
        return w


def to_trace(w):
    tr, stored = [], 0
    for e in w.events:
        e = dict(e)
        e.pop("task", None)
        if e["op"] == "store_end" and e["res"] == 1:
            stored += 1
        if e["op"] == "flush":
            stored = 0
        tr.append({"op": e, "ret": [], "st": {"stored": stored}})
    return tr


def scenarios(rnd, quick):
    out = [
        dict(writers=[[(0, 1)]], readers=[[0, 0]]),
        dict(writers=[[(0, 1), (1, 2)], [(2, 3), (3, 4)]], readers=[[0, 2], [3, 1]]),
        dict(writers=[[(2, 1), (0, 2)], [(1, 3), (3, 4)]], readers=[[2, 0, 1]]),            # gaps, reversed arrival
        dict(writers=[[(0, 1)], [(0, 2)]], readers=[[0, 0]]),                                # storing twice under one id
        dict(writers=[[(3, 1)], [(1, 2)]], readers=[[3, 1, 0]], presize=5),                  # pre-sized index, gaps stay
        dict(writers=[[(5, 1), (0, 2)]], readers=[[5, 4]]),                                  # ids above a gap
        # pre-sized index with fewer ids stored than it has room for: contiguous (reversed arrival), complete, and nothing stored
        dict(writers=[[(1, 1), (0, 2)], [(2, 3)]], readers=[[2, 5]], presize=8),
        dict(writers=[[(2, 1)], [(1, 2), (0, 3)]], readers=[[0]], presize=3),
        dict(writers=[[]], readers=[[0]], presize=4),
        dict(writers=[[(1, 1), (1, 2)], [(0, 3)]], readers=[[1]]),                           # the same writer stores twice
        dict(writers=[[(0, 1), (-1, 0), (2, 2), (-1, 0), (1, 3)], [(3, 4)]], readers=[[0, 2, 1]]),   # close / re-open between stores
        # flush and refill: the same ids again with new texts, read by an object that already read the first generation
        dict(writers=[[(0, 1), (1, 2)]], readers=[[0]], writers2=[[(1, 11), (0, 12)]]),
        dict(writers=[[(0, 1)], [(1, 2)]], readers=[], writers2=[[(0, 21)], [(2, 22), (1, 23)]]),
    ]
    for _ in range(3 if quick else 20):
        nw = rnd.randint(1, 3)
        tok = [0]

        def script():
            sc = []
            for _ in range(rnd.randint(1, 3)):
                tok[0] += 1
                sc.append((rnd.randint(0, 5), tok[0]))
            return sc
        out.append(dict(writers=[script() for _ in range(nw)],
                        readers=[[rnd.randint(0, 6) for _ in range(rnd.randint(1, 3))] for _ in range(rnd.randint(0, 2))],
                        presize=rnd.choice([None, None, 3, 8])))
    for i, s in enumerate(out):
        s["name"] = "st%d" % i
        s["pool"] = "storage"
    return out


def run(ctx):
    quick = ctx.tier == "quick"
    ctx.rule = ("the real storage.py under the deterministic scheduler: writer and reader processes run on fork-like copies of one "
                "TextFileStorage (manager lists, shared counters, the RLock and the files are scheduler-controlled shims; a flushed line "
                "reaches its file in two writes so that a partial line is observable); scenarios assign ids to writers in every flavour "
                "(gaps, reversed arrival, pre-sized index, the same id stored twice by one or two writers) with readers running "
                "concurrently; after all processes joined the parent checks len, is_contiguous, iteration, every id and flush; schedules "
                "by preemption-bounded DFS + random/PCT walks; each execution validated by TLC against StorageObs.tla")
    ctx.assumptions += ["single-line texts without carriage returns", "shim fidelity: a manager-list / Value access is one atomic round trip",
                        "bounded exploration of schedules"]
    # 1. design level: the implementation-shaped model, every interleaving of writers and readers (TLC), with the
    #    pinned tree's publish-then-write order as the negative control
    invs = ["ReadOK", "CountOK", "WfOK", "DupOK", "IterAll"]
    configs = [("<-ScriptsB", "{11}", 2, 0)] if quick else [("<-ScriptsA", "{11, 12}", 2, 0), ("<-ScriptsB", "{11, 12}", 2, 0),
                                                           ("<-ScriptsC", "{11}", 2, 5)]
    for scr, readers, nreads, presize in configs:
        consts = {"Scripts": scr, "Readers": readers, "Probe": "{0, 1, 3}", "NReads": nreads, "PreSize": presize, "PublishFirst": "FALSE"}
        model.mc(IMPL, consts, ctx, "TextFileStorage" + scr[2:], invariants=invs, properties=["Termination"], view=None, deadlock=False,
                 workers=8, timeout=1500, coverage=True)
    model.coverage_summary(ctx)
    neg = {"Scripts": "<-ScriptsB", "Readers": "{11}", "Probe": "{0, 1, 3}", "NReads": 2, "PreSize": 0, "PublishFirst": "TRUE"}
    model.mc(IMPL, neg, ctx, "TextFileStorage_neg", invariants=invs, view=None, workers=8, expect_violation=True)
    # 2. the observer specification can reject (negative control on its closed model)
    model.mc(OBS, {"MaxId": 1}, ctx, "StorageObs_neg", properties=["NeverIndexError"], view="View", expect_violation=True,
             extra="CONSTRAINT ObsSmall")
    rnd = random.Random(ctx.seed * 7919 + 14)
    scens = scenarios(rnd, quick)
    controlled = True
    try:
        h = Harness()
        probe = h.execute(scens[0], S.scripted_chooser([]))
        pexc = next((t.exc for t in probe.tasks if t.exc is not None), None)
        if isinstance(pexc, (ImportError, NotImplementedError, AttributeError, TypeError)):
            raise pexc
    except Exception as e:
        ctx.note("controlled execution not possible (%r); only the real-process leg runs" % (e,))
        ctx.extra["controlled_legs"] = "not-run"
        controlled = False
    if controlled:
        # the implementation-shaped model is bound to the code step by step, in both directions (evidence only, never an alarm)
        from adapters import storageconf
        try:
            storageconf.conformance(ctx, h, random.Random(ctx.seed * 7919 + 141), quick)
        except tlc.MachineryError:
            raise
        except Exception as e:      # the code no longer runs under this harness the way the model expects: a note, not an alarm
            ctx.extra["conformance_with_TextFileStorage_tla"] = {"status": "not-run", "why": "%s: %s" % (type(e).__name__, str(e)[:200])}
        worlds, ws = poolsim.explore_all(h, scens, ctx.seed * 7919 + 14, 400 if quick else 15000, ctx, est_len=120)
        steps = sum(w.steps for w in worlds)
        outcomes = {}
        for w in worlds:
            outcomes[w.outcome] = outcomes.get(w.outcome, 0) + 1
        ctx.extra["executions"] = {"count": len(worlds), "visible_ops": steps, "outcomes": outcomes}
        traces = [to_trace(w) for w in worlds]
        verdicts = tracecheck.validate(OBS, model.constants_block({"MaxId": 1}), traces, ctx, "C14")
        for w, s, tr, (matched, total) in zip(worlds, ws, traces, verdicts):
            ctx.traces += 1
            ctx.case(("C14", json.dumps(s, sort_keys=True), tuple(w.schedule)))
            exc = w.any_exc
            if w.outcome == "steplimit":
                ctx.extra["inconclusive_step_limit"] = ctx.extra.get("inconclusive_step_limit", 0) + 1
                continue
            if matched != total or w.outcome != "ok" or exc is not None:
                ev = tr[matched]["op"] if matched < total else None
                sig = {"kind": "schedule", "scenario": s["name"], "event": ev and ev["op"], "outcome": w.outcome}
                desc = ("C14: scenario %s: execution (schedule of %d steps, outcome %s%s) is rejected by the observer specification at event %d %s"
                        % (json.dumps(s, sort_keys=True), len(w.schedule), w.outcome, ", a process raised %s" % (exc,) if exc else "", matched,
                           json.dumps(ev)))
                ctx.violation(sig, desc, {"engine": "simworld", "scenario": s, "schedule": w.schedule,
                                          "events": [t["op"] for t in tr][:200], "rejected_at": matched})
        w = worlds[len(worlds) // 2]
        ctx.sample({"scenario": ws[len(worlds) // 2], "schedule": w.schedule[:40], "events": [dict(e) for e in w.events][:20]})
    # fidelity of the shims: the same observer specification applied to executions with REAL processes and files
    from adapters import realstorage
    rtraces, rmeta = [], []
    for s in realstorage.scenarios(quick, rnd):
        ev, fin = realstorage.run_scenario(s)
        exc = next((e for e in ev if e["op"] == "harness_exc"), None)
        if exc is not None or not fin:
            ev, fin = realstorage.run_scenario(s, 120.0)
            exc = next((e for e in ev if e["op"] == "harness_exc"), None)
        rtraces.append(realstorage.to_trace(ev))
        rmeta.append((s, fin, exc))
    rv = tracecheck.validate(OBS, model.constants_block({"MaxId": 1}), rtraces, ctx, "C14_real")
    for (s, fin, exc), tr, (matched, total) in zip(rmeta, rtraces, rv):
        ctx.traces += 1
        ctx.case(("C14real", json.dumps(s, sort_keys=True)))
        if matched != total or not fin or exc is not None:
            evx = tr[matched]["op"] if matched < total else None
            ctx.violation({"kind": "realrun", "event": evx and evx["op"], "finished": fin},
                          "C14 (real processes): scenario %s: rejected at event %d %s%s%s" % (
                              s["name"], matched, json.dumps(evx), "" if fin else " (did not finish)", " %s" % exc if exc else ""),
                          {"engine": "realrun", "scenario": s, "events": [t["op"] for t in tr][:300], "rejected_at": matched})
    ctx.extra["real_process_executions"] = {"count": len(rtraces), "events": sum(len(t) for t in rtraces)}


def replay_witness(ctx, witness):
    """--replay: the recorded scenario under the recorded schedule, judged by StorageObs.tla again."""
    scen, schedule = witness.get("scenario"), witness.get("schedule")
    if not scen or schedule is None or scen.get("pool") != "storage":
        return None
    h = Harness()
    w = poolsim.Rec(h.execute(scen, S.scripted_chooser(schedule[1:] if schedule[:1] == ["main"] else schedule)))
    tr = to_trace(w)
    matched, total = tracecheck.validate(OBS, model.constants_block({"MaxId": 1}), [tr], ctx, "C14_replay")[0]
    if matched != total or w.outcome != "ok" or w.any_exc is not None:
        ev = tr[matched]["op"] if matched < total else None
        ctx.violation({"kind": "schedule", "scenario": scen.get("name"), "event": ev and ev["op"], "outcome": w.outcome},
                      "C14 (replay): scenario %s under the recorded schedule is rejected by the observer specification at event %d %s (outcome %s)"
                      % (json.dumps(scen, sort_keys=True), matched, json.dumps(ev), w.outcome),
                      {"engine": "simworld", "scenario": scen, "schedule": w.schedule, "rejected_at": matched})
        return True
    return False
