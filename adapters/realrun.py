"""realrun - the pools with REAL processes, threads and queues (no shims), observed through the same events as the
controlled executions and judged by the same observer specification (PoolObs.tla).  It is the fidelity check of the
shims (DESIGN.md section 2.4) and the place where a hang is a wall-clock fact: every scenario runs in its own session
under a generous watchdog and is killed as a whole when it expires.

Events are totally ordered by a sequence number taken from a shared counter under its lock at the moment of the event
(never by wall-clock time) and travel to the driver as single atomic pipe writes.
"""
import json
import multiprocessing
import os
import select
import signal
import sys
import time

from adapters.poolsim import f, value, decode


class ConsumerExc(Exception):
    pass


def consumer_exc_as_yield(e):
    """an exception the consumer got from the library = a 'result' that is no element's value (rejected by the results clause)"""
    return {"op": "yield", "c": 0, "i": 0} if e.get("op") == "consumer_exc" else e


def _child(scen, wfd):
    from vlib import tlc as _t
    sys.path.insert(0, _t.REPO)
    import importlib
    import windpyutils.buffers
    import windpyutils.parallel.own_proc_pools as opp
    importlib.reload(windpyutils.buffers)
    importlib.reload(opp)
    seq = multiprocessing.Value("i", 0)

    def ev(**kw):
        with seq.get_lock():
            seq.value += 1
            n = seq.value
            os.write(wfd, (json.dumps([n, kw]) + "\n").encode())

    uids = []

    class Wk(opp.FunctorWorker):
        def __init__(self, quota):
            if quota:
                super().__init__(max_chunks_per_worker=quota)
            else:
                super().__init__()
            self._q = quota or 0
            self._uid = len(uids)            # creation order (the parent creates every worker), see poolsim.Wk
            uids.append(self._uid)

        def begin(self):
            ev(op="wbegin", w=self._uid, q=self._q)
            time.sleep(scen.get("begin_sleep", 0))
            ev(op="wready", w=self._uid)

        def __call__(self, x):
            c, i = x // 1000, x % 1000
            ch = scen["calls"][c - 1]["chunk"] if 1 <= c <= len(scen["calls"]) else 1
            ev(op="witem", w=self._uid, c=c, i=i, chunk=ch)
            time.sleep(scen.get("work_sleep", 0) * ((i % 3) + 1))
            return f(x)

        def end(self):
            ev(op="wend", w=self._uid)
            time.sleep(scen.get("end_sleep", 0))

    def data_of(c, call):
        items = [value(c, i) for i in range(call["n"])]
        if not call.get("lazy"):
            return items

        def gen():
            for x in items:
                time.sleep(call.get("item_sleep", 0))
                yield x
            time.sleep(call.get("stop_sleep", 0))      # StopIteration arrives late
        return gen()
    ev(op="cfg", **scen["judge"])
    kw = {}
    if "wq" in scen:
        kw["work_queue_maxsize"] = scen["wq"]
    if "rq" in scen:
        kw["results_queue_maxsize"] = scen["rq"]
    created = []
    if scen["pool"] == "factory":
        class F(opp.FunctorWorkerFactory):
            def create(self):
                w = Wk(scen.get("quota"))
                created.append(w)
                return w
        pool = opp.FactoryFunctorPool(scen["nw"], F(), None, **kw)
    else:
        created = [Wk(None) for _ in range(scen["nw"])]
        pool = opp.FunctorPool(created, None, **kw)
    try:
        with pool:
            if scen.get("uar") == "start":
                pool.until_all_ready()
                ev(op="all_ready", ws=[p._uid for p in pool.procs])
            for ci, call in enumerate(scen["calls"]):
                c = ci + 1
                ev(op="call_begin", c=c, n=call["n"], chunk=call["chunk"], ord=1 if call["ordered"] else 0)
                meth = pool.imap if call["ordered"] else pool.imap_unordered
                try:
                    for y in meth(data_of(c, call), call["chunk"]):
                        cc, ii = decode(y)
                        ev(op="yield", c=cc, i=ii)
                        time.sleep(call.get("consume_sleep", 0))
                except Exception as e:
                    # the library raised into the consumer: an observation (the call did not deliver its results), not a harness failure
                    ev(op="consumer_exc", what=repr(e)[:200])
                    raise ConsumerExc()
                ev(op="call_end")
    except ConsumerExc:
        pass
    procs = list(pool.procs) + [w for w in created if w not in pool.procs]
    alive = sum(1 for p in procs if p.is_alive())
    ev(op="exit", alive=alive)


def run_scenario(scen, watchdog=60.0):
    """Returns (events in order, finished?, seconds)."""
    r, w = os.pipe()
    t0 = time.time()
    pid = os.fork()
    if pid == 0:
        code = 0
        try:
            os.setsid()
            os.close(r)
            _child(scen, w)
        except BaseException as e:      # noqa
            try:
                os.write(w, (json.dumps([10 ** 9, {"op": "harness_exc", "what": repr(e)[:200]}]) + "\n").encode())
            except OSError:
                pass
            code = 1
        finally:
            os._exit(code)
    os.close(w)
    buf, events, finished = b"", [], False
    deadline = t0 + watchdog
    while True:
        left = deadline - time.time()
        if left <= 0:
            break
        rd, _, _ = select.select([r], [], [], min(left, 0.5))
        if rd:
            chunk = os.read(r, 65536)
            if chunk:
                buf += chunk
                while b"\n" in buf:
                    line, buf = buf.split(b"\n", 1)
                    events.append(json.loads(line))
                continue
        done, _ = os.waitpid(pid, os.WNOHANG)
        if done:
            finished = True
            # drain what is left
            while True:
                chunk = os.read(r, 65536) if select.select([r], [], [], 0.05)[0] else b""
                if not chunk:
                    break
                buf += chunk
                while b"\n" in buf:
                    line, buf = buf.split(b"\n", 1)
                    events.append(json.loads(line))
            break
    if not finished:
        for fn in (lambda: os.killpg(pid, signal.SIGKILL), lambda: os.kill(pid, signal.SIGKILL)):
            try:
                fn()
            except OSError:
                pass
        try:
            os.waitpid(pid, 0)
        except OSError:
            pass
    else:
        try:
            os.killpg(pid, signal.SIGKILL)      # stray manager / worker processes of the session
        except OSError:
            pass
    os.close(r)
    events.sort(key=lambda e: e[0])
    return [e[1] for e in events], finished, time.time() - t0


def to_trace(events, finished):
    evs = [dict(e) for e in events]
    exc = next((e for e in evs if e["op"] == "harness_exc"), None)
    evs = [consumer_exc_as_yield(e) for e in evs if e["op"] != "harness_exc"]
    if not any(e["op"] == "exit" for e in evs):
        evs.append({"op": "hang"})
    tr, phase, calls, got = [], "init", 0, 0
    for e in evs:
        op = e["op"]
        if op == "cfg":
            phase = "idle"
        elif op == "call_begin":
            phase, calls, got = "call", calls + 1, 0
        elif op == "yield":
            got += 1
        elif op == "call_end":
            phase = "idle"
        elif op == "hang":
            phase = "hung"
        elif op == "exit":
            phase = "left"
        tr.append({"op": e, "ret": [], "st": {"phase": phase, "calls": calls, "got": got}})
    return tr, exc


def scenarios(judge, quick, rnd):
    out = [
        dict(pool="functor", nw=2, calls=[dict(n=5, chunk=2, ordered=True)]),
        # the input signals exhaustion late: items and StopIteration after the results
        dict(pool="functor", nw=2, calls=[dict(n=3, chunk=1, ordered=True, lazy=True, item_sleep=0.02, stop_sleep=0.3)]),
        dict(pool="functor", nw=2, rq=1, work_sleep=0.02, calls=[dict(n=6, chunk=1, ordered=True, consume_sleep=0.03)]),
        dict(pool="functor", nw=2, calls=[dict(n=4, chunk=3, ordered=False), dict(n=0, chunk=1, ordered=True), dict(n=3, chunk=1, ordered=True)]),
        dict(pool="factory", nw=1, quota=2, calls=[dict(n=2, chunk=1, ordered=True)] * 4),
        dict(pool="factory", nw=2, quota=1, end_sleep=0.05, uar="start", calls=[dict(n=4, chunk=1, ordered=True, lazy=True, stop_sleep=0.2),
                                                                              dict(n=3, chunk=2, ordered=False)]),
    ]
    # a long history on one pool: more than 256 workers are created (worker ids beyond the small integers an interpreter shares,
    # ids that went through pickling), with an empty call in between
    out.append(dict(pool="factory", nw=2, quota=1, calls=[dict(n=130, chunk=1, ordered=True), dict(n=0, chunk=1, ordered=True),
                                                          dict(n=140, chunk=1, ordered=False)]))
    for _ in range(0 if quick else 24):
        nw = rnd.randint(1, 3)
        s = dict(pool=rnd.choice(["functor", "factory"]), nw=nw, work_sleep=rnd.choice([0, 0.005]),
                 calls=[dict(n=rnd.randint(0, 8), chunk=rnd.randint(1, 3), ordered=rnd.random() < 0.6, lazy=rnd.random() < 0.5,
                             item_sleep=rnd.choice([0, 0.01]), stop_sleep=rnd.choice([0, 0.1, 0.3]), consume_sleep=rnd.choice([0, 0.01]))
                        for _ in range(rnd.randint(1, 4))])
        if s["pool"] == "factory":
            s["quota"] = rnd.choice([1, 2, 3])
        if rnd.random() < 0.4:
            s["rq"] = rnd.choice([1, 2])
        out.append(s)
    for i, s in enumerate(out):
        s["calls"] = [dict(c) for c in s["calls"]]
        s["judge"] = judge
        s["name"] = "real%d" % i
    return out
