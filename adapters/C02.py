"""C02 - imap / imap_unordered always terminate on finite input."""
import random

from adapters import C01
from adapters import poolconf, poolsim

JUDGE = {"r": 0, "t": 1, "l": 0}


def run(ctx):
    quick = ctx.tier == "quick"
    ctx.rule = ("as C01 with the termination clause enforced: in the controlled world a deadlock is a state (no task enabled while the "
                "consumer generator or the exit of the context is unfinished) and is reported with the schedule that reached it; the input "
                "iterator being arbitrarily slow is the feeding thread being scheduled arbitrarily late; flow control is exercised by "
                "results_queue_maxsize=1 with workers finishing out of order. distinct = distinct (scenario, schedule) executions")
    # design level: exhaustive TLC runs of FunctorPool.tla and conformance of the real code with it
    try:
        hconf = poolsim.Harness()
    except Exception:
        hconf = None              # see run_family: controlled legs degrade, the exhaustive runs of the model still happen
    crnd = random.Random(ctx.seed * 7919 + 55)
    configs = [('C2', 1, 1, 0), ('C2', 2, 2, 1), ('C0', 1, 1, 0)] if quick else [('C2', 1, 1, 0), ('C2', 2, 2, 1), ('C0', 1, 1, 0), ('C3', 2, 1, 1), ('C3', 2, 2, 0), ('C3', 3, 3, 1)]
    if hconf is not None:
        hconf.shared = hconf.learn(poolconf.scen_for("C2", 1, 1, 0, JUDGE), crnd)
    poolconf.design_legs(ctx, configs, ['NoDeadlock'], True, ['NoDeadlock'], hconf, crnd, 30 if quick else 300, 30 if quick else 300, JUDGE)
    rnd = random.Random(ctx.seed * 7919 + 102)
    scens = C01.scenarios(rnd, quick, JUDGE)
    extra = [dict(pool="functor", nw=2, rq=1, calls=[dict(n=5, chunk=1, ordered=True, lazy=True)]),
             dict(pool="functor", nw=3, rq=1, wq=1, calls=[dict(n=6, chunk=2, ordered=True)]),
             dict(pool="functor", nw=1, calls=[dict(n=1, chunk=3, ordered=False, lazy=True)]),
             dict(pool="factory", nw=2, quota=1, calls=[dict(n=4, chunk=1, ordered=True, lazy=True)]),
             # every call terminates, also on a pool that was used before (empty input after a non-empty one and back)
             dict(pool="functor", nw=1, calls=[dict(n=2, chunk=1, ordered=True), dict(n=0, chunk=1, ordered=True)]),
             dict(pool="functor", nw=2, calls=[dict(n=1, chunk=1, ordered=False), dict(n=0, chunk=1, ordered=True, lazy=True),
                                               dict(n=2, chunk=2, ordered=True)]),
             dict(pool="factory", nw=1, quota=2, calls=[dict(n=3, chunk=1, ordered=True), dict(n=0, chunk=1, ordered=False),
                                                        dict(n=1, chunk=1, ordered=True)])]
    for i, s in enumerate(extra):
        s["judge"] = JUDGE
        s["name"] = "t%d" % i
    C01.run_family(ctx, scens + extra, 400 if quick else 15000, "C02")


def replay_witness(ctx, witness):
    from adapters import poolsim
    return poolsim.replay_witness(ctx, witness)
