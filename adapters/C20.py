"""C20 - TmpPool and FilePool leave nothing behind (real temporary directory, real with-statement)."""
import importlib
import os
import random
import shutil
import tempfile

from vlib import graphwalk, model, tlc, tracecheck
from vlib.graphwalk import Unexpected
from adapters.C06 import split_failed
from adapters.C15 import wrap

TP = os.path.join(tlc.SPECS, "adt", "TmpPool.tla")
FP = os.path.join(tlc.SPECS, "adt", "FilePool.tla")


def files_mod():
    import windpyutils.files as f
    importlib.reload(f)
    return f


class BodyError(Exception):
    pass


def body(cm):
    """A real with-statement whose body executes whatever it is sent; gen.throw raises inside the body."""
    with cm as entered:
        res = entered
        while True:
            fn = yield res
            if fn is None:
                break
            try:
                res = ("ok", fn())
            except Exception as e:      # handed back to the caller; the body itself goes on
                res = ("exc", e)


class TmpAdapter:
    def __init__(self, f):
        self.f = f

    def new_world(self):
        os.makedirs(tlc.WORK, exist_ok=True)
        return {"dir": tempfile.mkdtemp(prefix="c20_", dir=tlc.WORK), "pool": None, "gen": None, "phase": "none", "multi": 0,
                "ids": {}, "made": 0}

    def close(self, w):
        try:
            if w["gen"] is not None:
                w["gen"].close()
        except Exception:
            pass
        w["pool"] = None
        shutil.rmtree(w["dir"], ignore_errors=True)

    def _id(self, w, path, new=False):
        if path not in w["ids"]:
            if not new:
                raise Unexpected("the pool lists a path it never returned from create(): %r" % (path,))
            w["made"] += 1
            w["ids"][path] = w["made"]
        return w["ids"][path]

    def _call(self, w, fn):
        if w["phase"] == "inside":
            kind, val = w["gen"].send(fn)
            if kind == "exc":
                raise val
            return val
        return fn()

    def obs(self, w):
        pool = w["pool"]
        disk = sorted(w["ids"].get(os.path.join(w["dir"], n), -1) for n in os.listdir(w["dir"]))
        if -1 in disk:
            raise Unexpected("a file the pool never returned from create() is in the directory")
        listed = []
        if pool is not None and not (w["phase"] == "left" and w["multi"]):
            listed = self._call(w, lambda: [self._id(w, pool[i]) for i in range(len(pool))])
        return {"phase": w["phase"], "multi": w["multi"], "listed": listed, "disk": disk, "made": w["made"]}

    @wrap
    def apply(self, w, op):
        n, pool = op["op"], w["pool"]
        if n == "new":
            w["pool"] = self.f.TmpPool(d=w["dir"], multi_proc=bool(op["multi"]))
            w["multi"] = op["multi"]
            w["phase"] = "built"
            return []
        if n == "enter":
            w["gen"] = body(pool)
            entered = next(w["gen"])
            if entered is not pool:
                raise Unexpected("__enter__ did not return the pool")
            w["phase"] = "inside"
            return []
        if n == "create":
            p = self._call(w, pool.create)
            if p in w["ids"]:
                raise Unexpected("create() returned a path twice")
            if not os.path.isfile(p):
                raise Unexpected("create() returned a path that is not an existing file")
            return [self._id(w, p, new=True)]
        if n == "child_create":
            def in_child():
                r, wr = os.pipe()
                pid = os.fork()
                if pid == 0:
                    try:
                        os.close(r)
                        name = pool.create()
                        os.write(wr, name.encode())
                    finally:
                        os._exit(0)
                os.close(wr)
                data = b""
                while True:
                    chunk = os.read(r, 4096)
                    if not chunk:
                        break
                    data += chunk
                os.close(r)
                os.waitpid(pid, 0)
                return data.decode()
            p = self._call(w, in_child)
            if not p or p in w["ids"] or not os.path.isfile(p):
                raise Unexpected("a child's create() did not give a new existing file: %r" % (p,))
            return [self._id(w, p, new=True)]
        inv = {v: k for k, v in w["ids"].items()}
        if n == "remove":
            self._call(w, lambda: pool.remove(inv[op["p"]])); return []
        if n == "ext_delete":
            os.remove(inv[op["p"]]); return []
        if n == "flush":
            self._call(w, pool.flush); return []
        if n == "exit":
            try:
                w["gen"].send(None)
                raise Unexpected("the with-body did not finish")
            except StopIteration:
                pass
            w["gen"] = None
            w["phase"] = "left"
            return []
        if n == "exit_raise":
            try:
                w["gen"].throw(BodyError("raised in the with-body"))
                propagated = 0
            except BodyError:
                propagated = 1
            except StopIteration:
                propagated = 0
            w["gen"] = None
            w["phase"] = "left"
            return [propagated]
        if n == "len":
            return [self._call(w, lambda: len(pool))]
        if n == "getitem":
            return [self._id(w, self._call(w, lambda: pool[op["i"] - 1]))]


class FilePoolAdapter:
    MODES = {1: "r", 2: "w", 3: "a", 4: "rb", 5: "wb", 6: "ab"}

    def __init__(self, f):
        self.f = f

    def new_world(self):
        os.makedirs(tlc.WORK, exist_ok=True)
        d = tempfile.mkdtemp(prefix="c20f_", dir=tlc.WORK)
        paths = {}
        for i in range(1, 6):
            paths[i] = os.path.join(d, "f%d.txt" % i)
            with open(paths[i], "w") as fh:
                fh.write("content %d\n" % i)
        return {"dir": d, "paths": paths, "pool": None, "gen": None, "phase": "none", "files": [], "mode": 0, "handles": {}}

    def close(self, w):
        try:
            if w["gen"] is not None:
                w["gen"].close()
        except Exception:
            pass
        shutil.rmtree(w["dir"], ignore_errors=True)

    def _call(self, w, fn):
        if w["phase"] == "inside":
            kind, val = w["gen"].send(fn)
            if kind == "exc":
                raise val
            return val
        return fn()

    def obs(self, w):
        pool = w["pool"]
        if pool is not None and w["phase"] == "inside":
            # collect every handle the pool hands out, so that we can see whether it gets closed later
            for i in w["files"]:
                w["handles"][i] = self._call(w, lambda: pool[w["paths"][i]])
        opened = sorted(i for i, h in w["handles"].items() if not h.closed)
        return {"phase": w["phase"], "files": w["files"], "mode": w["mode"], "open": opened}

    @wrap
    def apply(self, w, op):
        n, pool = op["op"], w["pool"]
        if n == "new":
            fl = [w["paths"][i] for i in op["files"]]
            kind = (len(fl) + op["mode"]) % 3      # a list, a tuple, or a one-shot iterator (the signature says Iterable[str])
            w["pool"] = self.f.FilePool(fl if kind == 0 else (tuple(fl) if kind == 1 else iter(fl)), self.MODES[op["mode"]])
            w["oneshot"] = kind == 2
            w["files"], w["mode"], w["phase"] = list(op["files"]), op["mode"], "built"
            return []
        if n == "enter":
            if w["phase"] == "left" and w.get("oneshot"):
                raise graphwalk.Skip("a pool built from a one-shot iterator cannot be entered twice (not part of the property)")
            w["gen"] = body(pool)
            if next(w["gen"]) is not pool:
                raise Unexpected("__enter__ did not return the pool")
            w["phase"] = "inside"
            w["handles"] = {}
            return []
        if n == "exit":
            try:
                w["gen"].send(None)
            except StopIteration:
                pass
            w["gen"], w["phase"] = None, "left"
            return []
        if n == "exit_raise":
            try:
                w["gen"].throw(BodyError("raised in the with-body"))
                propagated = 0
            except BodyError:
                propagated = 1
            except StopIteration:
                propagated = 0
            w["gen"], w["phase"] = None, "left"
            return [propagated]
        if n == "getitem":
            try:
                h = self._call(w, lambda: pool[w["paths"][op["f"]]])
            except KeyError:
                return []
            if os.path.abspath(h.name) != os.path.abspath(w["paths"][op["f"]]) or h.mode != self.MODES[w["mode"]]:
                raise Unexpected("pool[path] is not a handle of that path in the requested mode")
            return [0 if h.closed else 1]
        if n == "close_one":
            self._call(w, lambda: pool[w["paths"][op["f"]]].close())
            return []
        if n == "len":
            return [self._call(w, lambda: len(pool))]
        if n == "iter":
            inv = {v: k for k, v in w["paths"].items()}
            return sorted(inv[p] for p in self._call(w, lambda: list(pool)))


def record(adapter, ops):
    w = adapter.new_world()
    tr = []
    try:
        for op in ops:
            try:
                ret = graphwalk.guarded(lambda: adapter.apply(w, op), 20.0)
                st = graphwalk.guarded(lambda: graphwalk.safe_obs(adapter, w), 20.0)
            except (graphwalk.Timeout, Unexpected) as e:
                tr.append({"op": op, "ret": None, "st": None, "exc": type(e).__name__ + ":" + str(e)})
                break
            tr.append({"op": op, "ret": ret, "st": st})
    finally:
        adapter.close(w)
    return tr


def tmp_ops(rnd, multi, length):
    ops = [{"op": "new", "multi": multi}]
    inside = False
    if multi or rnd.random() < 0.8:
        ops.append({"op": "enter"})
        inside = True
    live, made = [], 0
    for _ in range(length):
        n = rnd.choice(["create"] * 5 + ["remove", "remove", "ext_delete", "flush", "len", "getitem"] + (["child_create"] * 3 if multi else []))
        if n in ("create", "child_create"):
            made += 1
            live.append(made)
            ops.append({"op": n})
        elif n in ("remove", "ext_delete") and live:
            p = rnd.choice(live)
            if n == "remove":
                live.remove(p)
            elif p in [o.get("p") for o in ops if o["op"] == "ext_delete"]:
                continue
            ops.append({"op": n, "p": p})
        elif n == "flush":
            live = []
            ops.append({"op": n})
        elif n == "getitem" and live:
            ops.append({"op": n, "i": rnd.randint(1, len(live))})
        elif n == "len":
            ops.append({"op": n})
    if inside:
        ops.append({"op": rnd.choice(["exit", "exit_raise"])})
    else:
        ops.append({"op": "flush"})
    return ops


def run(ctx):
    quick = ctx.tier == "quick"
    f = files_mod()
    ctx.rule = ("TLC enumerates every sequence of create / remove / external delete / flush / exit / exit-by-exception (the "
                "exception is enabled in every state inside the context) up to the file bound, for single- and multi-process "
                "pools (with files created by forked children), and every FilePool over subsets of 3 files x 3 modes; the real "
                "classes run against a real temporary directory inside a real with-statement (exceptions thrown into the body); "
                "directory listing and handle.closed are compared after every step")
    ctx.assumptions += ["the pool's directory is private to the check", "the exception raised in the body is an ordinary Exception"]
    for name, multis, maxmade in (("TmpPool", "{0}", 3 if quick else 4), ("TmpPool_multi", "{1}", 2 if quick else 3)):
        consts = {"MaxMade": maxmade, "Multis": multis, "Variant": '"ok"'}
        invs = ["Distinct", "NothingLeftBehind", "ListedAreCreated"]
        model.mc(TP, consts, ctx, name, invariants=invs, properties=["AfterFlush"])
        model.mc(TP, dict(consts, Variant='"leak"'), ctx, name + "_neg", invariants=invs, properties=["AfterFlush"], expect_violation=True)
        g, _ = graphwalk.emit_graph(TP, model.cfg_text(consts, view="View", action_constraint="Emit"), ctx, name)
        st = graphwalk.walk(g, TmpAdapter(f), ctx, name, op_timeout=20.0, paths_per_state=3, history_ops=("flush", "remove", "ext_delete"))
        ctx.note("walk %s" % st)
    consts = {"NFiles": 2 if quick else 3, "Variant": '"ok"'}
    invs = ["AllClosedOutside"]
    model.mc(FP, consts, ctx, "FilePool", invariants=invs, properties=["AllOpenInside", "OnlyBodyCloses"])
    model.mc(FP, dict(consts, Variant='"leak"'), ctx, "FilePool_neg", invariants=invs, expect_violation=True)
    g, _ = graphwalk.emit_graph(FP, model.cfg_text(consts, view="View", action_constraint="Emit"), ctx, "FilePool")
    st = graphwalk.walk(g, FilePoolAdapter(f), ctx, "FilePool", op_timeout=10.0)
    ctx.note("walk %s" % st)
    ctx.exhaustive = True
    rnd = random.Random(ctx.seed * 7919 + 20)
    traces = [record(TmpAdapter(f), tmp_ops(rnd, 0, 40)) for _ in range(20 if quick else 200)]
    traces += [record(TmpAdapter(f), tmp_ops(rnd, 1, 15)) for _ in range(4 if quick else 30)]
    tr = split_failed(traces, ctx, "TmpPool")
    tracecheck.check_traces(TP, model.constants_block({"MaxMade": 1000, "Multis": "{0,1}", "Variant": '"ok"'}), tr, ctx, "TmpPool",
                            {"create", "remove", "child_create"})
