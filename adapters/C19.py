"""C19 - generic helpers against their TLA+ definitions (case replay, exploration level)."""
import importlib
import os
import random

from vlib import cases, model, tlc
from vlib.graphwalk import canon

SPEC = os.path.join(tlc.SPECS, "fun", "Helpers.tla")


def gen():
    import windpyutils.generic as g
    importlib.reload(g)
    return g


def safe(fn, seconds=10.0):
    """one call of the function under test, under a time and memory limit (a call that does not end is a result, not a hang)"""
    from vlib import graphwalk
    try:
        return graphwalk.guarded(fn, seconds)
    except graphwalk.Timeout:
        return {"exc": "does not terminate (no result within %.0f s, or unbounded allocation)" % seconds}
    except Exception as e:
        return {"exc": type(e).__name__ + ": " + str(e)[:60]}


def compare(ctx, what, inp, expected, got):
    ctx.case((what, canon(inp)))
    ctx.traces += 1
    if canon(expected) != canon(got):
        ctx.violation({"kind": "case", "fn": what},
                      "%s on %s: the definition gives %s, the library %s" % (what, canon(inp)[:200], canon(expected)[:200], canon(got)[:200]),
                      {"engine": "cases", "fn": what, "input": inp, "expected": expected, "got": got})
    elif len(ctx.samples) < 5 and ctx.evaluations % 997 == 3:
        ctx.sample({"fn": what, "input": inp, "expected": expected})


def run(ctx):
    quick = ctx.tier == "quick"
    g = gen()
    k = {"MaxSort": 5 if quick else 7, "MaxHay": 6 if quick else 8, "MaxNeedle": 2 if quick else 3, "MaxMulti": 3 if quick else 5,
         "MaxN": 9, "MaxB": 10}
    consts = model.constants_block(k)
    ctx.rule = ("TLC enumerates the complete bounded domain of each helper (all 3999 integers; all sequences over a small alphabet up to "
                "the length bound with reverse flag; all needle/haystack pairs; all pairs for multiset equality; all (n, batch_size)) and "
                "evaluates a definition written differently from the library's algorithm; the real function is run on every case and "
                "must return the same value. distinct = distinct (function, input) cases")
    ctx.assumptions += ["alphabets of 2-3 symbols stand for arbitrary comparable elements",
                        "pure functions: a weak fit for a state machine, claimed at exploration level"]
    ctx.exhaustive = True

    def roman(n, exp):
        got = safe(lambda: g.int_2_roman(n))
        back = safe(lambda: g.roman_2_int(exp))
        compare(ctx, "int_2_roman", n, exp, got)
        compare(ctx, "roman_2_int", exp, n, back)
    cases.enumerate_cases(SPEC, consts, ctx, "roman", roman, "DomainRoman", "DefRoman")

    def sort(c, exp):
        elems = list(c["s"]) if len(c["s"]) % 2 else tuple(c["s"])
        compare(ctx, "arg_sort", c, exp, safe(lambda: g.arg_sort(elems, reverse=bool(c["rev"]))))
    cases.enumerate_cases(SPEC, consts, ctx, "arg_sort", sort, "DomainSort", "DefSort")

    def sub(c, exp):
        a, b = list(c["a"]), list(c["b"])
        compare(ctx, "sub_seq", c, exp["found"], safe(lambda: 1 if g.sub_seq(a, b) else 0))
        try:
            got = [list(x) for x in g.search_sub_seq(a, b)]
        except ValueError:
            got = [-1]
        except Exception as e:
            got = {"exc": type(e).__name__}
        compare(ctx, "search_sub_seq", c, exp["spans"], got)
        if a and b:   # also as tuples / strings
            sa, sb = "".join("ab"[x] for x in a), "".join("ab"[x] for x in b)
            compare(ctx, "sub_seq(str)", c, exp["found"], safe(lambda: 1 if g.sub_seq(sa, sb) else 0))
    cases.enumerate_cases(SPEC, consts, ctx, "sub_seq", sub, "DomainSub", "DefSub")

    def multi(c, exp):
        compare(ctx, "compare_pos_in_iterables", c, exp, safe(lambda: 1 if g.compare_pos_in_iterables(iter(c["a"]), list(c["b"])) else 0))
        # every kind of argument, the same objects used again, and one object on both sides
        la, lb = list(c["a"]), list(c["b"])
        ta = tuple(la)
        compare(ctx, "compare_pos_in_iterables(list,list)", c, exp, safe(lambda: 1 if g.compare_pos_in_iterables(la, lb) else 0))
        if lb == list(c["b"]):      # (an implementation that consumes its argument is not judged on the changed list)
            compare(ctx, "compare_pos_in_iterables(tuple,list) again on the same objects", c, exp,
                    safe(lambda: 1 if g.compare_pos_in_iterables(ta, lb) else 0))
        compare(ctx, "compare_pos_in_iterables(l,l)", c["b"], 1, safe(lambda: 1 if g.compare_pos_in_iterables(lb, lb) else 0))
    cases.enumerate_cases(SPEC, consts, ctx, "multiset", multi, "DomainMulti", "DefMulti")

    def batch(c, exp):
        n, b = c["n"], c["b"]
        data = list(range(n))
        def batcher():
            bt = g.Batcher(data, b)
            return {"len": len(bt), "batches": [list(bt[i]) for i in range(len(bt))]}
        compare(ctx, "Batcher", c, exp, safe(batcher))
        compare(ctx, "BatcherIter", c, exp["batches"], safe(lambda: [list(x) for x in g.BatcherIter(iter(data), b)]))
        # tuple inputs are batched in lock-step
        def lock():
            bt = g.Batcher((data, [x + 100 for x in data]), b)
            return [[list(bt[i][0]), [y - 100 for y in bt[i][1]]] for i in range(len(bt))]
        compare(ctx, "Batcher(tuple)", c, [[x, x] for x in exp["batches"]], safe(lock))
        compare(ctx, "BatcherIter(tuple)", c, [[x, x] for x in exp["batches"]],
                safe(lambda: [[list(p[0]), [y - 100 for y in p[1]]] for p in g.BatcherIter((iter(data), [x + 100 for x in data]), b)]))
        # iterables of different lengths: documented to stop with the shortest, still in lock-step
        for extra_first, extra_second in ((0, 1), (2, 0), (0, b + 1)):
            def uneq():
                first = iter(data + [900 + j for j in range(extra_first)])
                second = [x + 100 for x in data] + [1000 + j for j in range(extra_second)]
                third = iter([x + 200 for x in data] + [2000])
                return [[list(p[0]), [y - 100 for y in p[1]], [y - 200 for y in p[2]]] for p in g.BatcherIter((first, second, third), b)]
            compare(ctx, "BatcherIter(tuple, unequal +%d/+%d)" % (extra_first, extra_second), c, [[x, x, x] for x in exp["batches"]], safe(uneq))
        # indexing past the end is rejected
        def past():
            try:
                g.Batcher(data, b)[exp["len"]]
                return 0
            except IndexError:
                return 1
        compare(ctx, "Batcher[len]", c, 1, safe(past))
    cases.enumerate_cases(SPEC, consts, ctx, "batcher", batch, "DomainBatch", "DefBatch")

    # second pass: larger random inputs, the definition evaluated by TLC on exactly those
    rnd = random.Random(ctx.seed * 7919 + 19)
    ins = [{"s": [rnd.randint(0, 5) for _ in range(rnd.randint(6, 14))], "rev": rnd.randint(0, 1)} for _ in range(100 if quick else 5000)]
    ctx.exhaustive = True
    for c, exp in zip(ins, cases.evaluate(SPEC, consts, ins, ctx, "arg_sort_big", "DefSort")):
        compare(ctx, "arg_sort", c, exp, safe(lambda: g.arg_sort(c["s"], reverse=bool(c["rev"]))))
    ins = [{"a": [rnd.randint(0, 1) for _ in range(rnd.randint(1, 3))], "b": [rnd.randint(0, 1) for _ in range(rnd.randint(5, 14))]}
           for _ in range(100 if quick else 1000)]
    for c, exp in zip(ins, cases.evaluate(SPEC, consts, ins, ctx, "sub_seq_big", "DefSub")):
        compare(ctx, "sub_seq", c, exp["found"], safe(lambda: 1 if g.sub_seq(c["a"], c["b"]) else 0))
        compare(ctx, "search_sub_seq", c, exp["spans"], safe(lambda: [list(x) for x in g.search_sub_seq(c["a"], c["b"])]))
    ctx.extra["bounds"] = k
