"""storageconf - step-level conformance between specs/storage/TextFileStorage.tla (one label per visible operation of
storage.py) and the real code under the deterministic scheduler, in both directions:

  spec -> code: behaviours simulated by TLC are replayed as schedules of the real processes; the kind of every visible
                operation is compared step by step and the reads / ValueErrors the processes saw must be the model's;
  code -> spec: recorded executions (random schedules) are validated by TLC against the model step by step
                (ReplayTextFileStorage.tla), including the outcomes.

Loss of conformance is reported in the evidence ("diverged"), never as a violation: it says the model no longer describes
the code, not that the property is broken (DESIGN.md section 1)."""
import json
import os
import random
import re
import shutil

from vlib import model, simworld as S, tlc

REPLAY = os.path.join(tlc.SPECS, "storage", "ReplayTextFileStorage.tla")
# name -> (writer scripts (as in MC_TextFileStorage.tla), reader ids, reads per reader, presize)
CONFIGS = {
    "ScriptsB": ({1: [1, 0], 2: [1]}, [11], 2, 0),
    "ScriptsA": ({1: [2, 0], 2: [1, 3]}, [11, 12], 2, 0),
    "ScriptsC": ({1: [3], 2: [0, 3]}, [11], 2, 5),
}
PROBE = [0, 1, 3]
_ACT = re.compile(r'^/\\ act = <<(-?\d+), "(\w+)", "(\w+)">>')
_WANT = re.compile(r'^/\\ want = \((.*)\)')
_REC = re.compile(r'\[([^\[\]]*?(?:<<[^<>]*>>)?[^\[\]]*?)\]')


def consts_of(name):
    scripts, readers, nreads, presize = CONFIGS[name]
    return {"Scripts": "<-" + name, "Readers": "{%s}" % ", ".join(map(str, readers)), "Probe": "{%s}" % ", ".join(map(str, PROBE)),
            "NReads": nreads, "PreSize": presize, "PublishFirst": "FALSE"}


def scen_of(name, reader_scripts):
    scripts, readers, nreads, presize = CONFIGS[name]
    tok, writers, tokmap = 0, [], {}
    for w in sorted(scripts):
        sc = []
        for g in scripts[w]:
            tok += 1
            sc.append((g, tok))
            tokmap[tok] = (w, g)
        writers.append(sc)
    s = dict(writers=writers, readers=[list(reader_scripts[r]) for r in readers], name="conf_" + name, pool="storage")
    if presize:
        s["presize"] = presize
    return s, tokmap


def _fields(text):
    out = {}
    for m in re.finditer(r'(\w+) \|-> (<<[^<>]*>>|TRUE|FALSE|-?\d+)', text):
        out[m.group(1)] = m.group(2)
    return out


def _parse_outcome(line_reads, line_dups):
    reads, dups = set(), set()
    for m in _REC.finditer(line_reads):
        f = _fields(m.group(1))
        if f.get("err") == "TRUE":
            reads.add((int(f["g"]), -1, -1))
        else:
            nums = [int(x) for x in re.findall(r'-?\d+', f.get("res", ""))]
            reads.add((int(f["g"]), nums[0], nums[1]) if len(nums) == 2 else (int(f["g"]), -2, -2))
    for m in _REC.finditer(line_dups):
        f = _fields(m.group(1))
        dups.add((int(f["w"]), int(f["g"])))
    return reads, dups


def simulate(name, num, seed, ctx):
    """TLC -simulate: list of behaviours {steps: [(actor, label, kind-relevant next)], wants: {reader: [ids]}, reads, dups}."""
    wd = tlc.newdir("simst_" + name)
    try:
        cfg = model.cfg_text(consts_of(name), spec="SpecA")
        res = tlc.run(REPLAY, cfg, tag="simrun_st_" + name, workers=1, timeout=600, extra_text={"traces.json": "[]"},
                      simulate="file=%s/tr,num=%d" % (wd, num), depth=400, seed=seed)
        ctx.add_tlc("simulate:storage_" + name, res, count=False)
        out = []
        for f in sorted(os.listdir(wd)):
            if not f.startswith("tr_"):
                continue
            steps, wants, cur_want, reads_l, dups_l, pcs = [], {}, {}, "", "", ""
            pending = None
            # TLC breaks long values over several lines: join continuation lines to the conjunct they belong to
            joined = []
            for raw in open(os.path.join(wd, f)):
                if joined and raw.strip() and not raw.startswith(("/\\", "STATE_", "\\*", "=", "-")):
                    joined[-1] = joined[-1].rstrip("\n") + " " + raw.strip() + "\n"
                else:
                    joined.append(raw)
            for line in joined:
                if line.startswith("STATE_"):
                    pending = {}
                m = _ACT.match(line)
                if m and m.group(2) != "init":
                    pending["act"] = (int(m.group(1)), m.group(2), m.group(3))
                m = _WANT.match(line)
                if m:
                    pending["want"] = {int(a): int(b) for a, b in re.findall(r'(\d+) :> (-?\d+)', m.group(1))}
                if line.startswith("/\\ reads = "):
                    reads_l = line
                if line.startswith("/\\ dups = "):
                    dups_l = line
                if line.startswith("/\\ pc = "):
                    pcs = line
                if line.startswith("/\\ wf = ") and pending is not None and "act" in pending:   # last variable of a state
                    a = pending["act"]
                    steps.append(a)
                    if a[1] == "RAcq" and a[2] != "Done":
                        wants.setdefault(a[0], []).append(pending["want"][a[0]])
                    pending = None
            complete = pcs.count('"Done"') == len(CONFIGS[name][0]) + len(CONFIGS[name][1])
            if steps and complete:
                reads, dups = _parse_outcome(reads_l, dups_l)
                out.append({"steps": steps, "wants": wants, "reads": reads, "dups": dups})
        if not out:
            raise tlc.MachineryError("storage simulation %s produced no complete behaviour: %s" % (name, res.errors[:2]))
        return out
    finally:
        shutil.rmtree(wd, ignore_errors=True)


KIND = {}


def kind_of(label, nxt):
    if nxt == "Done" and label in ("WAcq", "RAcq"):
        return "exit"
    if not KIND:
        text = open(REPLAY).read()
        for m in re.finditer(r'lab (?:\\in \{([^}]*)\}|= ("\w+")) -> "([\w.\-]+)"', text):
            for lab in re.findall(r'"(\w+)"', m.group(1) or m.group(2)):
                KIND[lab] = m.group(3)
    return KIND.get(label, "local")


def actor_names(w):
    return [t.name for t in w.tasks if t.name.startswith("P")]


def actor_of(name, procs, nwriters, readers):
    i = procs.index(name)
    return i + 1 if i < nwriters else readers[i - nwriters]


def outcome_of(w, tokmap, procs, nwriters, readers):
    reads, dups = set(), set()
    for e in w.events:
        if e.get("task") not in procs:
            continue
        if e["op"] == "read_end":
            if e["res"] == -1:
                reads.add((e["g"], -1, -1))
            elif e["res"] in tokmap:
                reads.add((e["g"],) + tokmap[e["res"]])
            else:
                reads.add((e["g"], -2, -2))
        if e["op"] == "store_end" and e["res"] == 0:
            dups.add((actor_of(e["task"], procs, nwriters, readers), e["g"]))
    return reads, dups


def replay(h, name, beh):
    """spec -> code: drive the real processes along the behaviour."""
    scripts, readers, nreads, presize = CONFIGS[name]
    rs = {r: (beh["wants"].get(r, []) + [0] * nreads)[:nreads] for r in readers}
    scen, tokmap = scen_of(name, rs)
    nw = len(scripts)
    order = sorted(scripts) + readers
    steps = [s for s in beh["steps"] if kind_of(s[1], s[2]) != "exit"]
    script = [order.index(a) for a, _, _ in steps]
    state = {"pos": 0, "prelude": 0, "div": None}

    def choose(en, world, last):
        procs = [t for t in world.tasks if t.name.startswith("P")]
        main = [t for t in en if t.name == "main"]
        if len(procs) < len(order) and main:
            state["prelude"] += 1            # the parent creates the storage and starts the processes (not part of the model)
            return main[0]
        if state["pos"] < len(script) and state["div"] is None:
            t = procs[script[state["pos"]]] if script[state["pos"]] < len(procs) else None
            if t is not None and t in en:
                state["pos"] += 1
                return t
            state["div"] = (state["pos"], steps[state["pos"]], [x.name for x in en])
        if last in en:
            return last
        return min(en, key=lambda t: t.index)
    w = S.World(choose)
    w.run(h.main_fn(scen))
    div = state["div"]
    n = state["pos"]
    mismatch = None
    for j in range(n):
        lab = steps[j]
        want, got = kind_of(lab[1], lab[2]), w.step_ops.get(state["prelude"] + j + 1, "task-start")
        if want != got:
            mismatch = (j, lab, want, got)
            break
    if div is None and n < len(script):
        div = (n, steps[n], "the execution ended")
    outcome = None
    if div is None and mismatch is None:
        procs = actor_names(w)
        got = outcome_of(w, tokmap, procs, nw, readers)
        if got != (beh["reads"], beh["dups"]):
            outcome = {"model": [sorted(beh["reads"]), sorted(beh["dups"])], "code": [sorted(got[0]), sorted(got[1])]}
    return w, div, mismatch, outcome, len(steps)


def record(h, name, rnd):
    """code -> spec: one execution under a random / PCT schedule -> trace for ReplayTextFileStorage."""
    scripts, readers, nreads, presize = CONFIGS[name]
    rs = {r: [rnd.choice(PROBE) for _ in range(nreads)] for r in readers}
    scen, tokmap = scen_of(name, rs)
    r = random.Random(rnd.random())
    ch = S.random_chooser(r) if r.random() < 0.5 else S.pct_chooser(r, depth=r.randint(1, 3), est_len=120)
    w = S.World(ch)
    w.run(h.main_fn(scen))
    procs = actor_names(w)
    nw = len(scripts)
    steps = []
    for j, (chosen, _, _) in enumerate(w.choices):
        if chosen in procs:
            steps.append({"a": actor_of(chosen, procs, nw, readers), "k": w.step_ops.get(j + 1, "task-start")})
    reads, dups = outcome_of(w, tokmap, procs, nw, readers)
    return {"steps": steps, "reads": sorted(map(list, reads)), "dups": sorted(map(list, dups))}, w


def validate(name, traces, ctx):
    cfg = "SPECIFICATION TSpec\nCONSTANTS\n%s\nCONSTRAINT Progress\nPOSTCONDITION Accepted\nCHECK_DEADLOCK FALSE\n" % model.constants_block(consts_of(name))
    results = {}

    def on_print(tag, payload):
        parts = [p.strip() for p in payload.split(",")]
        results[int(parts[0])] = (int(parts[1]), int(parts[2]))
    res = tlc.run(REPLAY, cfg, tag="conf_st_" + name, workers=1, timeout=900, dfs=True, extra_text={"traces.json": json.dumps(traces)},
                  print_tags=("RESULT",), on_print=on_print)
    ctx.add_tlc("conformance:storage_" + name, res)
    if len(results) != len(traces):
        raise tlc.MachineryError("storage conformance %s: no verdict for every trace: %s" % (name, res.errors[:3]))
    return [results[i + 1] for i in range(len(traces))]


def conformance(ctx, h, rnd, quick):
    """Both directions for every configuration; the result goes to the evidence."""
    out = {"spec_to_code": {"behaviours": 0, "followed": 0, "steps": 0, "first_divergence": None},
           "code_to_spec": {"executions": 0, "accepted": 0, "steps": 0, "first_rejection": None}}
    names = ["ScriptsB", "ScriptsC"] if quick else ["ScriptsB", "ScriptsC", "ScriptsA"]
    num = 25 if quick else 200
    for name in names:
        for beh in simulate(name, num, rnd.randint(1, 10 ** 6), ctx):
            w, div, mismatch, outcome, nsteps = replay(h, name, beh)
            s2c = out["spec_to_code"]
            s2c["behaviours"] += 1
            s2c["steps"] += nsteps
            if div is None and mismatch is None and outcome is None:
                s2c["followed"] += 1
            elif s2c["first_divergence"] is None:
                s2c["first_divergence"] = {"config": name, "script_diverged": div and [div[0], str(div[1]), div[2]],
                                           "kind_mismatch": mismatch and [mismatch[0], list(mismatch[1]), mismatch[2], mismatch[3]],
                                           "outcome": outcome}
        traces = [record(h, name, rnd)[0] for _ in range(num)]
        c2s = out["code_to_spec"]
        for tr, (matched, total) in zip(traces, validate(name, traces, ctx)):
            c2s["executions"] += 1
            c2s["steps"] += total
            if matched == total:
                c2s["accepted"] += 1
            elif c2s["first_rejection"] is None:
                c2s["first_rejection"] = {"config": name, "matched": matched, "of": total, "event": tr["steps"][matched] if matched < total else None,
                                          "reads": tr["reads"], "dups": tr["dups"]}
        # binding self-test: an execution with one read outcome falsified must be rejected
        good = next((t for t in traces if t["reads"]), None)
        if good is not None:
            bad = json.loads(json.dumps(good))
            bad["reads"][0] = [bad["reads"][0][0], 7, 7]
            v = validate(name, [bad], ctx)
            if v[0][0] == v[0][1] and c2s["accepted"] == c2s["executions"]:
                raise tlc.MachineryError("storage conformance %s: a falsified read outcome was accepted" % name)
            out.setdefault("selftest", []).append({"config": name, "matched": v[0][0], "of": v[0][1]})
    ok = out["spec_to_code"]["followed"] == out["spec_to_code"]["behaviours"] and out["code_to_spec"]["accepted"] == out["code_to_spec"]["executions"]
    out["status"] = "bound" if ok else "diverged"
    ctx.extra["conformance_with_TextFileStorage_tla"] = out
    if not ok:
        ctx.note("step-level conformance with TextFileStorage.tla is lost (see evidence): the model no longer describes the code; "
                 "this is not an alarm, the property-level verdict comes from StorageObs.tla")
    return out
