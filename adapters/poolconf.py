"""Conformance between the implementation-level model FunctorPool.tla and the real own_proc_pools.py:
spec -> code (behaviours simulated by TLC replayed as schedules of the real code, every step compared) and
code -> spec (recorded executions validated step by step against the model by TLC)."""
import json
import os
import re
import shutil

from vlib import simworld as S
from vlib import model, tlc

REPLAY = os.path.join(tlc.SPECS, "pool", "ReplayFunctorPool.tla")
FREPLAY = os.path.join(tlc.SPECS, "pool", "ReplayFactoryFunctorPool.tla")
FMC1 = os.path.join(tlc.SPECS, "pool", "MC_FactoryFunctorPool.tla")
MC = os.path.join(tlc.SPECS, "pool", "MC_FunctorPool.tla")
_ACT = re.compile(r'^/\\ act = <<(-?\d+), "(\w+)">>')
_KIND = None


def kinds(factory=False):
    """KindOf from the model text (label -> visible-operation kind)"""
    global _KIND
    if factory:
        return _kinds_of("FactoryFunctorPool.tla")
    if _KIND is None:
        _KIND = _kinds_of("FunctorPool.tla")
    return _KIND


_KCACHE = {}


def _kinds_of(fname):
    if fname not in _KCACHE:
        text = open(os.path.join(tlc.SPECS, "pool", fname)).read()
        body = text[text.index("KindOf(l) =="):]
        out = {}
        for m in re.finditer(r'l \\in \{([^}]*)\} -> "([\w.\-]+)"', body):
            for lab in re.findall(r'"(\w+)"', m.group(1)):
                out[lab] = m.group(2)
        _KCACHE[fname] = out
    return _KCACHE[fname]


def _unused_kinds():
    global _KIND
    if _KIND is None:
        text = open(os.path.join(tlc.SPECS, "pool", "FunctorPool.tla")).read()
        body = text[text.index("KindOf(l) =="):]
        _KIND = {}
        for m in re.finditer(r'l \\in \{([^}]*)\} -> "([\w.\-]+)"', body):
            for lab in re.findall(r'"(\w+)"', m.group(1)):
                _KIND[lab] = m.group(2)
    return _KIND


def model_consts(scen, calls_name):
    wq = scen.get("wq", 1.0)
    if isinstance(wq, float):
        wq = int(scen["nw"] * wq)
    return {"Calls": "<-" + calls_name, "NW": scen["nw"], "WorkCap": wq or 0, "ResCap": scen.get("rq") or 0, "Design": '"fixed"'}


def simulate(consts, num, depth, seed, ctx, name, replay_module=None):
    """TLC -simulate: returns a list of behaviours, each a list of (actor, label)."""
    wd = tlc.newdir("sim_" + name)
    try:
        cfg = model.cfg_text(consts, spec="SpecA")
        res = tlc.run(replay_module or REPLAY, cfg, tag="simrun_" + name, workers=1, timeout=600, extra_text={"traces.json": "[]"},
                      simulate="file=%s/tr,num=%d" % (wd, num), depth=depth, seed=seed)
        ctx.add_tlc("simulate:" + name, res, count=False)
        out = []
        for f in sorted(os.listdir(wd)):
            if not f.startswith("tr_"):
                continue
            beh = []
            for line in open(os.path.join(wd, f)):
                m = _ACT.match(line)
                if m and m.group(2) != "init":
                    beh.append((int(m.group(1)), m.group(2)))
            if beh:
                out.append(beh)
        if not out:
            raise tlc.MachineryError("simulation %s produced no behaviours: %s" % (name, res.errors[:2]))
        return out
    finally:
        shutil.rmtree(wd, ignore_errors=True)


def role_of(actor, label, feeder_calls, repl_calls=None):
    if actor == 0:
        return "main"
    if actor == 100:
        if label == "FWait":
            feeder_calls[0] += 1
        return ("feeder", max(1, feeder_calls[0]))
    if actor == 200:
        if label == "RWait":
            repl_calls[0] += 1
        return ("thread", "ReplaceWorkerThread", max(1, repl_calls[0]))
    return ("worker", actor)


def replay(h, scen, beh, factory=False):
    """Drive the real code along a model behaviour; compare the kind of every visible operation."""
    fc, rc = [0], [0]
    script = [role_of(a, lab, fc, rc) for a, lab in beh]
    w = S.World(S.role_chooser(script), shared_names=h.shared)
    w.run(h.main_fn(scen))
    div = getattr(w, "script_diverged", None)
    k = kinds(factory)
    mismatch = None
    n = len(beh) if div is None else div[0]
    for j in range(n):
        want = k.get(beh[j][1], "local")
        got = w.step_ops.get(j + 1, "task-start")
        if want != got:
            mismatch = (j, beh[j], want, got)
            break
    return w, div, mismatch


def step_trace(w):
    """Recorded execution -> [ {a: actor, k: kind} ] for validation against the model."""
    procs = [t.name for t in w.tasks if t.name.startswith("P")]
    out = []
    for j, (chosen, _, _) in enumerate(w.choices):
        if chosen == "main":
            a = 0
        elif chosen in procs:
            a = procs.index(chosen) + 1
        elif "ReplaceWorkerThread" in chosen:
            a = 200
        else:
            a = 100
        out.append({"a": a, "k": w.step_ops.get(j + 1, "task-start")})
    return out


def validate_steps(consts, traces, ctx, name, timeout=900, replay_module=None):
    cfg = "SPECIFICATION TSpec\nCONSTANTS\n%s\nCONSTRAINT Progress\nPOSTCONDITION Accepted\nCHECK_DEADLOCK FALSE\n" % model.constants_block(consts)
    results = {}

    def on_print(tag, payload):
        parts = [p.strip() for p in payload.split(",")]
        results[int(parts[0])] = (int(parts[1]), int(parts[2]))
    res = tlc.run(replay_module or REPLAY, cfg, tag="conf_" + name, workers=1, timeout=timeout, dfs=True, extra_text={"traces.json": json.dumps(traces)},
                  print_tags=("RESULT",), on_print=on_print)
    ctx.add_tlc("conformance:" + name, res)
    if len(results) != len(traces):
        raise tlc.MachineryError("conformance %s: no verdict for every trace: %s" % (name, res.errors[:3]))
    return [results[i + 1] for i in range(len(traces))]


CALLS = {"C2": [2], "C3": [3], "C222": [2, 2, 2], "C0": [0], "C21": [2, 1], "C102u": [1, 0, (2, False)], "C2u": [(2, False)], "C22": [2, 2]}


def scen_for(calls_name, nw, wq, rq, judge):
    calls = []
    for c in CALLS[calls_name]:
        n, ordered = (c, True) if isinstance(c, int) else c
        calls.append(dict(n=n, chunk=1, ordered=ordered))
    s = dict(pool="functor", nw=nw, calls=calls, judge=judge, name="conf_%s_%d_%s_%s" % (calls_name, nw, wq, rq), pauses=False)
    s["wq"] = wq if wq else None
    if rq:
        s["rq"] = rq
    return s


def design_legs(ctx, configs, invariants, liveness, neg_invariants, h, rnd, n_sim, n_rec, judge):
    """1. exhaustive TLC runs of the implementation-level model (every interleaving), negative control = the pinned design;
       2. conformance of the real code with that model in both directions on the same configurations."""
    conf = {"spec_to_code": {"behaviours": 0, "followed": 0, "steps": 0, "first_divergence": None},
            "code_to_spec": {"executions": 0, "accepted": 0, "steps": 0, "first_rejection": None}}
    for (calls, nw, wq, rq) in configs:
        consts = {"Calls": "<-" + calls, "NW": nw, "WorkCap": wq, "ResCap": rq, "Design": '"fixed"'}
        name = "FunctorPool_%s_w%d_q%d_r%d" % (calls, nw, wq, rq)
        model.mc(MC, consts, ctx, name, invariants=invariants, view=None, workers=16, timeout=1500, coverage=True)
        if liveness:
            model.mc(MC, consts, ctx, name + "_live", properties=["AllCallsEnd"], view=None, workers=16, timeout=1500, spec="FairSpec",
                     count=False)
        if h is None:
            continue
        scen = scen_for(calls, nw, wq, rq, judge)
        behs = simulate(consts, n_sim, 400, rnd.randint(1, 10 ** 6), ctx, name)
        for b in behs:
            w, div, mis = replay(h, scen, b)
            conf["spec_to_code"]["behaviours"] += 1
            conf["spec_to_code"]["steps"] += len(b)
            if div is None and mis is None and w.outcome == "ok":
                conf["spec_to_code"]["followed"] += 1
            elif conf["spec_to_code"]["first_divergence"] is None:
                conf["spec_to_code"]["first_divergence"] = {"config": name, "diverged": div, "mismatch": mis, "outcome": w.outcome}
        worlds = [h.execute(scen, S.random_chooser(__import__("random").Random(rnd.random()))) for _ in range(n_rec)]
        worlds = [w for w in worlds if w.outcome == "ok"]
        traces = [step_trace(w) for w in worlds]
        for w, tr, (m, t) in zip(worlds, traces, validate_steps(consts, traces, ctx, name)):
            conf["code_to_spec"]["executions"] += 1
            conf["code_to_spec"]["steps"] += t
            if m == t:
                conf["code_to_spec"]["accepted"] += 1
            elif conf["code_to_spec"]["first_rejection"] is None:
                conf["code_to_spec"]["first_rejection"] = {"config": name, "matched": m, "of": t, "step": tr[m], "schedule": w.schedule[:m + 2]}
    a, b = conf["spec_to_code"], conf["code_to_spec"]
    conf["status"] = "not-run" if h is None else ("bound" if a["followed"] == a["behaviours"] and b["accepted"] == b["executions"] else "diverged")
    ctx.extra["conformance_with_FunctorPool_tla"] = conf
    model.coverage_summary(ctx)
    if conf["status"] == "diverged":
        ctx.note("conformance with the implementation-level model is lost (not a violation by itself): %s" % json.dumps(conf)[:600])
    # negative control: the design of the pinned commit must violate
    for (calls, nw, wq, rq) in configs[:1]:
        neg = {"Calls": "<-" + calls, "NW": nw, "WorkCap": wq, "ResCap": rq, "Design": '"pinned"'}
        model.mc(MC, neg, ctx, "FunctorPool_pinned", invariants=neg_invariants, view=None, workers=16, expect_violation=True)
    return conf


FMC = os.path.join(tlc.SPECS, "pool", "MC_FactoryPool.tla")


def factory_design_legs(ctx, quick, invariants, neg_design, neg_invariants):
    """Exhaustive TLC runs of the design-level model of FactoryFunctorPool (quota, retirement, replace thread, several calls,
    exit), a negative control, and the configuration of the open known finding, which the model must exhibit too."""
    configs = [("C222", 1, 4, 1, 0, 2), ("C2", 2, 4, 2, 0, 1)] if quick else \
              [("C222", 1, 4, 1, 0, 2), ("C21", 2, 6, 2, 0, 1), ("C23u", 2, 6, 2, 1, 2), ("C202u", 2, 7, 0, 0, 1), ("C2", 2, 4, 2, 0, 1)]
    for calls, nw, maxwid, wq, rq, quota in configs:
        consts = {"Calls": "<-" + calls, "NW": nw, "MaxWid": maxwid, "WorkCap": wq, "ResCap": rq, "Quota": quota, "Design": '"fixed"'}
        model.mc(FMC, consts, ctx, "FactoryPool_%s_w%d_q%d_r%d_k%d" % (calls, nw, wq, rq, quota), invariants=invariants + ["WidBound"],
                 view=None, workers=16, timeout=2400)
    neg = {"Calls": "<-C222", "NW": 1, "MaxWid": 4, "WorkCap": 1, "ResCap": 0, "Quota": 2, "Design": '"%s"' % neg_design}
    model.mc(FMC, neg, ctx, "FactoryPool_" + neg_design, invariants=neg_invariants, view=None, workers=16, expect_violation=True)
    known = {"Calls": "<-C2", "NW": 2, "MaxWid": 4, "WorkCap": 1, "ResCap": 0, "Quota": 1, "Design": '"fixed"'}
    res = model.mc(FMC, known, ctx, "FactoryPool_known_finding_wq_below_workers", invariants=["NoDeadlock"], view=None, workers=16,
                   expect_violation=True)
    ctx.extra["model_exhibits_open_known_finding"] = {"config": "2 workers, quota 1, WorkCap 1", "violated": res.violated}


def factory_conformance(ctx, h, rnd, quick, judge):
    """FactoryFunctorPool.tla (one label per visible operation, with quota / retirement / replace thread): exhaustive TLC runs and
    step-level conformance of the real FactoryFunctorPool in both directions."""
    import random as _r
    # (the configuration with a bounded result queue is the one that takes the flow-control and blocking-put actions)
    configs = [("C2", 1, 4, 1, 0, 1), ("C2", 1, 3, 1, 0, 2), ("C2", 2, 5, 2, 1, 1)] if quick else \
              [("C2", 1, 4, 1, 0, 1), ("C2", 1, 3, 1, 0, 2), ("C2", 2, 5, 2, 1, 1), ("C21", 2, 6, 2, 0, 1), ("C222", 1, 5, 1, 0, 2), ("C3", 2, 6, 2, 1, 1)]
    n = 25 if quick else 200
    conf = {"spec_to_code": {"behaviours": 0, "followed": 0, "steps": 0, "first_divergence": None},
            "code_to_spec": {"executions": 0, "accepted": 0, "steps": 0, "first_rejection": None}}
    for calls, nw, maxwid, wq, rq, quota in configs:
        consts = {"Calls": "<-" + calls, "Quota": quota, "MaxWid": maxwid, "NW": nw, "WorkCap": wq, "ResCap": rq, "Design": '"fixed"'}
        name = "FactoryFunctorPool_%s_w%d_q%d_r%d_k%d" % (calls, nw, wq, rq, quota)
        model.mc(FMC1, consts, ctx, name, invariants=["CallOK", "NoBad", "NoDeadlock", "NoLeftovers", "QuotaKept", "NoneLeftRunning", "WidBound"],
                 view=None, workers=16, timeout=2400, coverage=True)
        # liveness: under weak fairness of every thread and process every call ends and the context is left
        model.mc(FMC1, consts, ctx, name + "_live", properties=["AllCallsEnd"], view=None, workers=16, timeout=2400, spec="FairSpec", count=False)
        if h is None:
            continue
        scen = scen_for(calls, nw, wq, rq, judge)
        scen.update(pool="factory", quota=quota)
        behs = simulate(consts, n, 600, rnd.randint(1, 10 ** 6), ctx, name, replay_module=FREPLAY)
        for b in behs:
            w, div, mis = replay(h, scen, b, factory=True)
            conf["spec_to_code"]["behaviours"] += 1
            conf["spec_to_code"]["steps"] += len(b)
            if div is None and mis is None and w.outcome == "ok":
                conf["spec_to_code"]["followed"] += 1
            elif conf["spec_to_code"]["first_divergence"] is None:
                conf["spec_to_code"]["first_divergence"] = {"config": name, "diverged": div, "mismatch": mis, "outcome": w.outcome}
        worlds = [h.execute(scen, S.random_chooser(_r.Random(rnd.random()))) for _ in range(n)]
        worlds = [w for w in worlds if w.outcome == "ok"]
        traces = [step_trace(w) for w in worlds]
        for w, tr, (m, t) in zip(worlds, traces, validate_steps(consts, traces, ctx, name, replay_module=FREPLAY)):
            conf["code_to_spec"]["executions"] += 1
            conf["code_to_spec"]["steps"] += t
            if m == t:
                conf["code_to_spec"]["accepted"] += 1
            elif conf["code_to_spec"]["first_rejection"] is None:
                conf["code_to_spec"]["first_rejection"] = {"config": name, "matched": m, "of": t, "step": tr[m], "schedule": w.schedule[:m + 2]}
    a, b = conf["spec_to_code"], conf["code_to_spec"]
    conf["status"] = "not-run" if h is None else ("bound" if a["followed"] == a["behaviours"] and b["accepted"] == b["executions"] else "diverged")
    model.coverage_summary(ctx)
    ctx.extra["conformance_with_FactoryFunctorPool_tla"] = conf
    if conf["status"] == "diverged":
        ctx.note("conformance with FactoryFunctorPool.tla is lost (not a violation by itself): %s" % json.dumps(conf)[:600])
    return conf
