"""C01 - ordered imap returns exactly map(f, data), once each, in input order (and imap_unordered the multiset)."""
import random

from vlib import model, tlc
from adapters import poolsim, poolconf

JUDGE = {"r": 1, "t": 0, "l": 0}
PID = "C01"


def scenarios(rnd, quick, judge, multi=False, factory=None):
    """seeded scenario family: inputs of 0-7 elements (lists and lazy generators), chunk sizes 1-3, 1-3 workers, queue bounds"""
    out = []
    fixed = [
        dict(pool="functor", nw=1, calls=[dict(n=2, chunk=1, ordered=True)]),
        dict(pool="functor", nw=2, calls=[dict(n=3, chunk=1, ordered=True)]),
        dict(pool="functor", nw=2, rq=1, calls=[dict(n=4, chunk=1, ordered=True)]),
        dict(pool="functor", nw=2, calls=[dict(n=4, chunk=2, ordered=False)]),
        dict(pool="functor", nw=1, calls=[dict(n=0, chunk=1, ordered=True)]),
        dict(pool="functor", nw=2, wq=1, calls=[dict(n=3, chunk=1, ordered=True, lazy=True)]),
        # a fully consumed call returns its results also on a pool that was used before (left-overs of the earlier call)
        dict(pool="functor", nw=1, calls=[dict(n=1, chunk=1, ordered=True, lazy=True), dict(n=3, chunk=1, ordered=True, lazy=True)]),
        dict(pool="functor", nw=2, calls=[dict(n=2, chunk=1, ordered=False), dict(n=0, chunk=1, ordered=True), dict(n=3, chunk=2, ordered=True)]),
        # None is an ordinary element of the input
        dict(pool="functor", nw=2, calls=[dict(n=5, chunk=2, ordered=True, nones=True)]),
        dict(pool="factory", nw=1, quota=2, calls=[dict(n=4, chunk=3, ordered=True, nones=True, lazy=True)]),
    ]
    for s in fixed:
        out.append(s)
    for _ in range(4 if quick else 24):
        nw = rnd.randint(1, 3)
        s = dict(pool=rnd.choice(["functor", "functor", "factory"]), nw=nw,
                 calls=[dict(n=rnd.randint(0, 7), chunk=rnd.randint(1, 3), ordered=rnd.random() < 0.7, lazy=rnd.random() < 0.4)])
        wq = rnd.choice([None, 1, 2, 0.5, 1.0, 2.0, "default"])
        if wq != "default":
            s["wq"] = wq
        rq = rnd.choice(["default", None, 1, 2])
        if rq != "default":
            s["rq"] = rq
        if s["pool"] == "factory":
            s["quota"] = rnd.choice([None, 1, 2, 3])
        out.append(s)
    for i, s in enumerate(out):
        s["judge"] = judge
        s["name"] = "s%d" % i
    return out


def run_family(ctx, scens, budget_per, name, sig=None):
    rnd = random.Random(ctx.seed * 7919 + 1)
    try:
        h = poolsim.Harness()
    except Exception as e:
        # the code uses something the shims do not offer: coverage degrades to the real-process leg, no alarm is raised for that
        ctx.note("controlled execution not possible (%s: %s); only the real-process leg runs" % (type(e).__name__, str(e)[:200]))
        ctx.extra["controlled_legs"] = "not-run"
        poolsim.real_leg(ctx, scens[0]["judge"], name, ctx.tier == "quick", rnd)
        return 0
    shared = set()
    for s in scens[:6]:
        shared |= h.learn(s, rnd)
    h.shared = shared
    ctx.extra["shared_attributes_learned"] = sorted(shared)
    worlds, ws = poolsim.explore_all(h, scens, ctx.seed * 7919 + 1, budget_per, ctx)
    ctx.extra["judge_override"] = scens[0]["judge"]
    kw, ks = poolsim.known_replays(h, ctx)
    worlds += [poolsim.Rec(w) for w in kw]
    ws += ks
    steps = sum(w.steps for w in worlds)
    outcomes = {}
    for w in worlds:
        outcomes[w.outcome] = outcomes.get(w.outcome, 0) + 1
    ctx.extra.setdefault("executions", {})[name] = {"count": len(worlds), "visible_ops": steps, "outcomes": outcomes}
    bad = poolsim.judge_worlds(worlds, ws, ctx, name, sig)
    poolsim.real_leg(ctx, scens[0]["judge"], name, ctx.tier == "quick", rnd)
    if worlds:
        w = worlds[len(worlds) // 2]
        ctx.sample({"scenario": ws[len(worlds) // 2], "schedule": w.schedule[:40], "events": [e["op"] for e in w.events][:30]})
    return bad


def run(ctx):
    quick = ctx.tier == "quick"
    ctx.rule = ("the real own_proc_pools.py runs under a deterministic scheduler (threading / multiprocessing / queue shims, shared pool "
                "attributes instrumented); for a seeded family of scenarios (0-7 elements as lists and lazy generators, chunk sizes 1-3, "
                "1-3 workers, work/result queue bounds, both pools, ordered and unordered) schedules are enumerated with a preemption-"
                "bounded depth-first search and sampled with random and PCT walks; every execution's observer events are validated by "
                "TLC against PoolObs.tla with the results clause enforced. distinct = distinct (scenario, schedule) executions")
    # design level: exhaustive TLC runs of FunctorPool.tla and conformance of the real code with it
    try:
        hconf = poolsim.Harness()
    except Exception:
        hconf = None              # see run_family: controlled legs degrade, the exhaustive runs of the model still happen
    crnd = random.Random(ctx.seed * 7919 + 55)
    configs = [('C2', 1, 1, 0), ('C3', 2, 2, 0), ('C2u', 2, 2, 0), ('C2', 2, 2, 1)] if quick else [('C2', 1, 1, 0), ('C3', 2, 2, 0), ('C3', 2, 2, 1), ('C2u', 2, 2, 0), ('C3', 3, 3, 0), ('C0', 2, 2, 0)]
    if hconf is not None:
        hconf.shared = hconf.learn(poolconf.scen_for("C2", 1, 1, 0, JUDGE), crnd)
    poolconf.design_legs(ctx, configs, ['CallOK', 'NoBad', 'NoLeftovers'], False, ['CallOK'], hconf, crnd, 30 if quick else 300, 30 if quick else 300, JUDGE)
    rnd = random.Random(ctx.seed * 7919 + 101)
    scens = scenarios(rnd, quick, JUDGE)
    run_family(ctx, scens, 400 if quick else 15000, "C01")


def replay_witness(ctx, witness):
    from adapters import poolsim
    return poolsim.replay_witness(ctx, witness)
