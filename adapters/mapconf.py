"""mapconf - step-level conformance between specs/pool/FunctorMap.tla (every action = one visible operation of pools.py /
maps.py + workers.py) and the real code under the deterministic scheduler, in both directions (C05):

  spec -> code: behaviours simulated by TLC are replayed as schedules of the real consumer and worker processes; the kind of
                every visible operation is compared step by step and what the caller received must be the model's `out`;
  code -> spec: recorded executions (random / PCT schedules) are validated by TLC step by step (ReplayFunctorMap.tla).

Loss of conformance is reported in the evidence ("diverged"), never as a violation (DESIGN.md section 1)."""
import json
import os
import random
import re
import shutil

from vlib import model, simworld as S, tlc

REPLAY = os.path.join(tlc.SPECS, "pool", "ReplayFunctorMap.tla")
MC = os.path.join(tlc.SPECS, "pool", "MC_FunctorMap.tla")
CALLS = {"K2": [2], "K3": [3], "K21": [2, 1], "K032": [0, 3, 2], "K202": [2, 0, 2], "K0": [0], "K22": [2, 2]}
_ACT = re.compile(r'^/\\ act = <<(-?\d+), "(\w+)">>')
KIND = {"MStart": "start", "MPut": "q.put", "MPutNew": "q.put", "MStop": "q.put", "WPut": "q.put", "MGetNB": "q.get_nb",
        "MGet": "q.get", "WGet": "q.get", "MJoin": "join", "WStart": "task-start"}


def consts_of(cfg, design="ok"):
    kind, nw, calls, wq, pipe = cfg
    return {"Kind": '"%s"' % kind, "NW": nw, "Calls": "<-" + calls, "WQCap": wq, "PipeCap": pipe, "Design": '"%s"' % design}


def scen_of(cfg, judge):
    kind, nw, calls, wq, pipe = cfg
    return dict(pool=kind, nw=nw, cpu=wq, pipe=pipe, calls=[dict(n=k, chunk=1) for k in CALLS[calls]], judge=judge,
                name="conf_%s_%d_%s_%d_%d" % cfg)


def simulate(cfg, num, seed, ctx):
    wd = tlc.newdir("simfm")
    try:
        res = tlc.run(REPLAY, model.cfg_text(consts_of(cfg), spec="SpecA"), tag="simrun_fm", workers=1, timeout=600,
                      extra_text={"traces.json": "[]"}, simulate="file=%s/tr,num=%d" % (wd, num), depth=400, seed=seed)
        ctx.add_tlc("simulate:FunctorMap_%s_%s" % (cfg[0], cfg[2]), res, count=False)
        out = []
        for f in sorted(os.listdir(wd)):
            if not f.startswith("tr_"):
                continue
            joined = []
            for raw in open(os.path.join(wd, f)):
                if joined and raw.strip() and not raw.startswith(("/\\", "STATE_", "\\*", "=", "-")):
                    joined[-1] = joined[-1].rstrip("\n") + " " + raw.strip() + "\n"
                else:
                    joined.append(raw)
            steps, outl, done = [], "", False
            for line in joined:
                m = _ACT.match(line)
                if m and m.group(2) != "init":
                    steps.append((int(m.group(1)), m.group(2)))
                if line.startswith("/\\ out = "):
                    outl = line
                if line.startswith("/\\ pc = "):
                    done = '0 :> "Done"' in line
            if steps and done:
                nums = [int(x) for x in re.findall(r'\d+', outl.split("=", 1)[1])]
                out.append({"steps": steps, "out": [(nums[k], nums[k + 1]) for k in range(0, len(nums), 2)]})
        if not out:
            raise tlc.MachineryError("FunctorMap simulation %s produced no complete behaviour: %s" % (cfg, res.errors[:2]))
        return out
    finally:
        shutil.rmtree(wd, ignore_errors=True)


def received(w):
    return [(e["c"], e["i"]) for e in w.events if e["op"] == "yield"]


def replay(h, cfg, beh, judge):
    scen = scen_of(cfg, judge)
    script = ["main" if a == 0 else ("worker", a) for a, _ in beh["steps"]]
    w = S.World(S.role_chooser(script))
    w.run(h.main_fn(scen))
    div = getattr(w, "script_diverged", None)
    n = len(script) if div is None else div[0]
    mismatch = None
    for j in range(n):
        want, got = KIND.get(beh["steps"][j][1], "local"), w.step_ops.get(j + 1, "task-start")
        if want != got:
            mismatch = (j, beh["steps"][j], want, got)
            break
    if div is None and mismatch is None and len(w.choices) != len(script):
        div = (len(script), "the code took %d visible operations, the behaviour has %d" % (len(w.choices), len(script)), [])
    outcome = None
    if div is None and mismatch is None and received(w) != beh["out"]:
        outcome = {"model": beh["out"], "code": received(w)}
    return w, div, mismatch, outcome


def record(h, cfg, rnd, judge):
    scen = scen_of(cfg, judge)
    r = random.Random(rnd.random())
    ch = S.random_chooser(r) if r.random() < 0.5 else S.pct_chooser(r, depth=r.randint(1, 3), est_len=60)
    w = S.World(ch)
    w.run(h.main_fn(scen))
    procs = [t.name for t in w.tasks if t.name.startswith("P")]
    steps = [{"a": 0 if chosen == "main" else procs.index(chosen) + 1, "k": w.step_ops.get(j + 1, "task-start")}
             for j, (chosen, _, _) in enumerate(w.choices)]
    return {"steps": steps, "out": [list(x) for x in received(w)]}, w


def validate(cfg, traces, ctx):
    text = "SPECIFICATION TSpec\nCONSTANTS\n%s\nCONSTRAINT Progress\nPOSTCONDITION Accepted\nCHECK_DEADLOCK FALSE\n" % model.constants_block(consts_of(cfg))
    results = {}

    def on_print(tag, payload):
        parts = [p.strip() for p in payload.split(",")]
        results[int(parts[0])] = (int(parts[1]), int(parts[2]))
    res = tlc.run(REPLAY, text, tag="conf_fm", workers=1, timeout=900, dfs=True, extra_text={"traces.json": json.dumps(traces)},
                  print_tags=("RESULT",), on_print=on_print)
    ctx.add_tlc("conformance:FunctorMap_%s_%s" % (cfg[0], cfg[2]), res)
    if len(results) != len(traces):
        raise tlc.MachineryError("FunctorMap conformance %s: no verdict for every trace: %s" % (cfg, res.errors[:3]))
    return [results[k + 1] for k in range(len(traces))]


QUICK = [("functormap", 2, "K21", 2, 0), ("functormap", 1, "K3", 1, 1), ("mulpmap", 2, "K21", 1, 0), ("mulpmap", 1, "K3", 1, 1)]
THOROUGH = QUICK + [("functormap", 2, "K032", 2, 1), ("functormap", 3, "K22", 3, 0), ("mulpmap", 2, "K202", 2, 1), ("mulpmap", 3, "K2", 1, 0),
                    ("mulpmap", 2, "K22", 2, 2)]
INVS = ["OutOK", "DoneOK", "CallsComplete"]


def design_legs(ctx, quick):
    """Exhaustive TLC runs of the model (invariants, deadlock freedom, termination under weak fairness) and its negative controls."""
    for cfg in (QUICK if quick else THOROUGH):
        model.mc(MC, consts_of(cfg), ctx, "FunctorMap_%s_%s_w%d_p%d" % (cfg[0], cfg[2], cfg[1], cfg[4]), invariants=INVS,
                 properties=["Termination"], view=None, deadlock=True, workers=8, timeout=1200, coverage=True)
    model.coverage_summary(ctx)
    model.mc(MC, consts_of(("mulpmap", 2, "K3", 2, 1), "joinfirst"), ctx, "FunctorMap_neg_joinfirst", invariants=INVS, view=None,
             deadlock=True, workers=8, expect_violation=True)
    model.mc(MC, consts_of(("functormap", 2, "K21", 2, 0), "sharedbuf"), ctx, "FunctorMap_neg_sharedbuf", invariants=INVS, view=None,
             deadlock=True, workers=8, expect_violation=True)


def conformance(ctx, h, rnd, quick, judge):
    out = {"spec_to_code": {"behaviours": 0, "followed": 0, "steps": 0, "first_divergence": None},
           "code_to_spec": {"executions": 0, "accepted": 0, "steps": 0, "first_rejection": None}}
    num = 25 if quick else 150
    for cfg in (QUICK if quick else THOROUGH):
        s2c, c2s = out["spec_to_code"], out["code_to_spec"]
        for beh in simulate(cfg, num, rnd.randint(1, 10 ** 6), ctx):
            w, div, mismatch, outcome = replay(h, cfg, beh, judge)
            s2c["behaviours"] += 1
            s2c["steps"] += len(beh["steps"])
            if div is None and mismatch is None and outcome is None:
                s2c["followed"] += 1
            elif s2c["first_divergence"] is None:
                s2c["first_divergence"] = {"config": list(cfg), "script_diverged": div and [div[0], str(div[1]), div[2]],
                                           "kind_mismatch": mismatch and [mismatch[0], list(mismatch[1]), mismatch[2], mismatch[3]],
                                           "outcome": outcome}
        traces = [record(h, cfg, rnd, judge)[0] for _ in range(num)]
        for tr, (matched, total) in zip(traces, validate(cfg, traces, ctx)):
            c2s["executions"] += 1
            c2s["steps"] += total
            if matched == total:
                c2s["accepted"] += 1
            elif c2s["first_rejection"] is None:
                c2s["first_rejection"] = {"config": list(cfg), "matched": matched, "of": total,
                                          "event": tr["steps"][matched] if matched < total else None, "out": tr["out"]}
        good = next((t for t in traces if len(t["out"]) >= 2), None)
        if good is not None:       # binding self-test: two results swapped must be rejected
            bad = json.loads(json.dumps(good))
            bad["out"][0], bad["out"][1] = bad["out"][1], bad["out"][0]
            v = validate(cfg, [bad], ctx)
            if v[0][0] == v[0][1] and c2s["accepted"] == c2s["executions"]:
                raise tlc.MachineryError("FunctorMap conformance %s: a falsified outcome was accepted" % (cfg,))
            out.setdefault("selftest", []).append({"config": list(cfg), "matched": v[0][0], "of": v[0][1]})
    ok = out["spec_to_code"]["followed"] == out["spec_to_code"]["behaviours"] and out["code_to_spec"]["accepted"] == out["code_to_spec"]["executions"]
    out["status"] = "bound" if ok else "diverged"
    ctx.extra["conformance_with_FunctorMap_tla"] = out
    if not ok:
        ctx.note("step-level conformance with FunctorMap.tla is lost (see evidence): the model no longer describes the code; this is "
                 "not an alarm, the property-level verdict comes from PoolObs.tla")
    return out
