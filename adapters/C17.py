"""C17 - sorted_combinations (judged by the TLA+ predicate) and the min-combination search (definition)."""
import importlib
import itertools
import os
import random

from vlib import cases, graphwalk, model, tlc
from vlib.graphwalk import canon
from adapters.C19 import compare, safe

SPEC = os.path.join(tlc.SPECS, "fun", "SortedCombinations.tla")


def gen():
    import windpyutils.generic as g
    importlib.reload(g)
    return g


def record(g, w, kind, yield_key):
    key = (lambda c: sum(w[i] for i in c)) if kind == "sum" else (lambda c: max(w[i] for i in c))
    elements = list(range(len(w))) if len(w) % 2 else tuple(range(len(w)))
    out = []
    for item in itertools.islice(g.sorted_combinations(elements, key, yield_key=yield_key), 0, 5000):
        if yield_key:
            c, k = item
        else:
            c, k = item, key(item)
        if not isinstance(c, tuple):
            return None, "a combination is not a tuple: %r" % (c,)
        out.append({"c": list(c), "k": k})
    return out, None


def run(ctx):
    quick = ctx.tier == "quick"
    g = gen()
    ctx.rule = ("sorted_combinations: the real generator is run on every weight vector of length 0..4/5 over 0..3 (ties and zeros) with the keys "
                "sum and max (both monotone under appending), with and without yield_key, and TLC judges each recorded output with the TLA+ "
                "predicate (every non-empty index-ordered combination exactly once, keys non-decreasing, key alongside); stopping early must "
                "give a prefix of the full output. min-combination search: TLC enumerates vectors x intervals 0 <= a, b <= 8 and evaluates "
                "the definition; results compared as sets with their sum")
    ctx.assumptions += ["keys sum and max stand for 'a key that never decreases when an element is appended'", "exploration level"]
    k = {"MaxLen": 5 if quick else 6, "MaxW": 3 if not quick else 2, "MaxEnd": 9 if not quick else 6}
    consts = model.constants_block(k)
    results, meta = [], []
    for n in range(0, k["MaxLen"] + 1):
        for w in itertools.product(range(k["MaxW"] + 1), repeat=n):
            for kind in ("sum", "max"):
                yk = (sum(w) + n + (kind == "sum")) % 2 == 0
                try:
                    out, err = graphwalk.guarded(lambda: record(g, list(w), kind, yk), 20.0)
                except graphwalk.Timeout:
                    out, err = [], "does not terminate (no result within 20 s, or unbounded allocation)"
                ctx.case(("sorted_combinations", w, kind))
                ctx.traces += 1
                if err:
                    ctx.violation({"kind": "case", "fn": "sorted_combinations"}, "weights %s key %s: %s" % (w, kind, err),
                                  {"engine": "cases", "w": list(w), "kind": kind})
                    continue
                # laziness: stopping early yields a prefix of the full output
                key = (lambda c: sum(w[i] for i in c)) if kind == "sum" else (lambda c: max(w[i] for i in c))
                pre = [list(c) for c in itertools.islice(g.sorted_combinations(list(range(n)), key), 0, 3)]
                if pre != [o["c"] for o in out[:3]]:
                    ctx.violation({"kind": "case", "fn": "sorted_combinations"}, "weights %s key %s: stopping early gives %s, not a prefix of %s"
                                  % (w, kind, pre, out[:3]), {"engine": "cases", "w": list(w), "kind": kind})
                results.append({"w": list(w), "kind": kind, "out": out})
                meta.append((w, kind, yk))
    # the elements themselves repeat: combine the weights directly (as the library's own callers do)
    vres, vmeta = [], []
    for n in range(0, k["MaxLen"] + 1):
        for w in itertools.product(range(k["MaxW"] + 1), repeat=n):
            kind = "sum" if (sum(w) + n) % 2 else "max"
            keyf = sum if kind == "sum" else max
            out = []
            try:
                def drive():
                    for comb, kk in itertools.islice(g.sorted_combinations(list(w), keyf, yield_key=True), 0, 2 ** n + 3):
                        out.append({"c": list(comb), "k": kk})
                graphwalk.guarded(drive, 20.0)
            except (Exception, graphwalk.Timeout) as e:
                ctx.violation({"kind": "case", "fn": "sorted_combinations"}, "elements %s key %s: raised %r" % (w, kind, e),
                              {"engine": "cases", "elements": list(w), "kind": kind})
                continue
            ctx.case(("sorted_combinations_values", w, kind))
            ctx.traces += 1
            vres.append({"e": list(w), "kind": kind, "out": out})
            vmeta.append((w, kind))
    for (w, kind), r, ok in zip(vmeta, vres, cases.judge(SPEC, consts, vres, ctx, "sorted_combinations_values", law="LawValues")):
        if not ok:
            ctx.violation({"kind": "case", "fn": "sorted_combinations"},
                          "elements %s (repeated values) key %s: the output %s is not a legal output (every combination of positions "
                          "once, non-decreasing keys)" % (w, kind, canon(r["out"])[:300]), {"engine": "cases", "result": r})
    verdicts = cases.judge(SPEC, consts, results, ctx, "sorted_combinations")
    for (w, kind, yk), r, ok in zip(meta, results, verdicts):
        if not ok:
            ctx.violation({"kind": "case", "fn": "sorted_combinations"},
                          "weights %s key %s yield_key %s: the output %s is not a legal output (complete, once each, index-ordered, "
                          "non-decreasing keys, key alongside)" % (w, kind, yk, canon(r["out"])[:300]),
                          {"engine": "cases", "result": r})
    ctx.sample({"fn": "sorted_combinations", "w": results[len(results) // 2]["w"], "out": results[len(results) // 2]["out"][:6]})

    def one(c, exp):
        w = c["w"]
        elements = ["e%d" % i for i in range(len(w))]

        def call():
            res = g.min_combinations_in_interval_iter_sorted(elements, list(w), c["a"], c["b"])
            combos = sorted([[int(e[1:]) for e in comb] for comb, _ in res])
            sums = sorted(set(s for _, s in res))
            if len(combos) != len(set(map(tuple, combos))):
                return {"exc": "a combination is returned twice"}
            return {"sum": sums[0] if len(sums) == 1 else (-1 if not sums else {"several": sums}), "combos": combos}
        compare(ctx, "min_combinations_in_interval_iter_sorted", c, {"sum": exp["sum"], "combos": sorted([list(x) for x in exp["combos"]])},
                safe(call))
    cases.enumerate_cases(SPEC, consts, ctx, "min_combinations", one, "DomainMin", "DefMin", timeout=2400)
    ctx.exhaustive = True
    # second pass: longer vectors, bigger weights
    rnd = random.Random(ctx.seed * 7919 + 17)
    ins = []
    for _ in range(30 if quick else 3000):
        w = [rnd.randint(0, 20) for _ in range(rnd.randint(5, 8))]
        a = rnd.randint(0, 60)
        ins.append({"w": w, "a": a, "b": a + rnd.randint(0, 30)})
    for c, exp in zip(ins, cases.evaluate(SPEC, consts, ins, ctx, "min_combinations_big", "DefMin")):
        one(c, exp)
    ctx.extra["bounds"] = k
