"""C04 - worker lifecycle: begin first once, end last once, quota kept, none left running."""
import random

from adapters import C01, C03, poolconf

JUDGE = {"r": 0, "t": 0, "l": 1}


def run(ctx):
    quick = ctx.tier == "quick"
    ctx.rule = ("the module's own FunctorWorker is subclassed so that begin / every functor application / end report to the observer; "
                "scenarios as C03 plus until_all_ready at the start and between calls and injected faults (begin() raises, the functor raises "
                "at a chosen element of a chosen call in a chosen worker); lifecycle clause enforced: begin at most once and before any item, "
                "items only between completed begin and end, at most quota chunks, end once, until_all_ready only when every worker in the "
                "pool has completed begin, no worker (replaced ones included) running after the context is left")
    from adapters import poolsim
    try:
        hconf = poolsim.Harness()
        crnd = random.Random(ctx.seed * 7919 + 56)
        sc0 = poolconf.scen_for("C2", 1, 1, 0, JUDGE)
        sc0.update(pool="factory", quota=1)
        hconf.shared = hconf.learn(sc0, crnd)
    except Exception:
        hconf, crnd = None, random.Random(1)
    poolconf.factory_conformance(ctx, hconf, crnd, quick, JUDGE)
    poolconf.factory_design_legs(ctx, quick, ['Lifecycle'], 'leak', ['Lifecycle'])
    rnd = random.Random(ctx.seed * 7919 + 104)
    scens = C03.scenarios(rnd, quick)
    out = []
    for i, s in enumerate(scens):
        s = dict(s)
        s["judge"] = JUDGE
        s["uar"] = ["start", "between", None][i % 3]
        out.append(s)
    # until_all_ready() called by the consumer in the middle of a call, while workers retire and are replaced
    for q, (nw, quota, n) in enumerate([(1, 1, 3), (2, 1, 4), (2, 2, 5)]):
        out.append(dict(pool="factory", nw=nw, quota=quota, uar="during", judge=JUDGE, name="u%d" % q,
                        calls=[dict(n=n, chunk=1, ordered=True), dict(n=2, chunk=1, ordered=q % 2 == 0)]))
    # fault injection: every worker x {begin, item 0, item 1}
    base = dict(pool="functor", nw=2, calls=[dict(n=3, chunk=1, ordered=True)])
    fbase = dict(pool="factory", nw=1, quota=2, calls=[dict(n=2, chunk=1, ordered=True), dict(n=2, chunk=1, ordered=True)])
    k = 0
    for b in (base, fbase):
        for w in range(b["nw"] + (1 if b["pool"] == "factory" else 0)):
            for fault in (dict(where="begin", w=w), dict(where="item", w=w, c=1, i=0), dict(where="item", w=w, c=1, i=1)):
                s = dict(b, judge=JUDGE, fault=fault, name="f%d" % k)
                s["calls"] = [dict(c) for c in b["calls"]]
                out.append(s)
                k += 1
    C01.run_family(ctx, out, 300 if quick else 10000, "C04")


def replay_witness(ctx, witness):
    from adapters import poolsim
    return poolsim.replay_witness(ctx, witness)
