"""C07 - LFUCache: exhaustive model, graph walk over candidate count vectors, trace validation."""
import copy
import importlib
import os
import random

from vlib import graphwalk, model, tlc, tracecheck
from vlib.graphwalk import Unexpected
from adapters import C06

SPEC = os.path.join(tlc.SPECS, "adt", "LFUCache.tla")
INVS = ["TypeOK"]
PROPS = ["ReadYourWrite", "EvictOnlyLFU", "CountRule"]
MUTATORS = {"store", "delete", "pop", "clear"}


def cache_class():
    import windpyutils.structures.lists as l
    import windpyutils.structures.caches as m
    importlib.reload(l)
    importlib.reload(m)
    return m.LFUCache


class LFUAdapter(C06.MappingAdapter):
    def obs(self, w):
        c = w["c"]
        if c is None:
            return {"cap": 0, "keys": [], "vals": []}
        keys = sorted(copy.deepcopy(c))
        vals = []
        for k in keys:
            vals.append(copy.deepcopy(c)[k])
        if len(c) != len(keys) or len(set(keys)) != len(keys):
            raise Unexpected("len()=%d but iteration lists keys %s" % (len(c), keys))
        return {"cap": c.max_size, "keys": keys, "vals": vals}


def sig_fn(pre, op, ret, post):
    return {"entries": len(pre["keys"]) if pre else 0}


def run(ctx):
    quick = ctx.tier == "quick"
    consts = {"Keys": "{1,2,3}", "Vals": "{10,20}", "Caps": "{1,2}" if quick else "{1,2,3}", "MaxCnt": 2,
              "VictimRule": '"min"'}
    ctx.rule = ("TLC enumerates every reachable (content, use-count) state within the count bound and every operation; the real "
                "LFUCache is driven through every (observable state, operation) pair while the walk tracks the set of count "
                "vectors the specification still allows (membership tests / views may or may not count); iteration order is "
                "checked by the iter operation in every state; seeded random histories are judged by TLC. distinct = distinct "
                "(state, operation) pairs and traces")
    ctx.assumptions += ["use counts are hidden state: the walk keeps every count vector consistent with the observations",
                        "exhaustive part bounded by a use-count cap (state constraint, safety only)"]
    model.mc(SPEC, consts, ctx, "LFUCache", invariants=INVS, properties=PROPS, extra="ACTION_CONSTRAINT Bounded")
    neg = dict(consts, VictimRule='"max"')
    model.mc(SPEC, neg, ctx, "LFUCache_neg", invariants=INVS, properties=PROPS, extra="ACTION_CONSTRAINT Bounded", expect_violation=True)
    adapter = LFUAdapter(cache_class())
    # one graph per capacity, walked in parallel (the walk itself is a sequential breadth-first search)
    from vlib import par
    jobs = []
    for cap in consts["Caps"].strip("{}").split(","):
        cc = dict(consts, Caps="{%s}" % cap.strip())
        g, _ = graphwalk.emit_graph(SPEC, model.cfg_text(cc, view="View", action_constraint="EmitBounded"), ctx, "LFUCache_cap" + cap.strip())
        jobs.append((g, adapter, "LFUCache", dict(sig_fn=sig_fn, paths_per_state=2, history_ops=("clear", "popitem"))))
    for stats in par.walks(ctx, jobs):
        ctx.note("walk %s" % stats)
    ctx.exhaustive = True
    rnd = random.Random(ctx.seed * 7919 + 7)
    traces = []
    # operations whose effect on the hidden use counts is left open by the property (membership tests, get, views)
    # make TLC branch; a trace gets at most two membership/get calls and one view so that validation stays linear
    sure = ["store"] * 6 + ["lookup"] * 5 + ["delete", "pop", "popitem", "setdefault", "update", "len"] + ["iter"] * 4
    for i in range(120 if quick else 900):
        cap = rnd.randint(1, 4)
        length = 60 if quick else 150
        tr_ops = [rnd.choice(sure + ["clear"] * (i % 2)) for _ in range(length)]
        for name in (rnd.choice(["contains", "get"]), rnd.choice(["contains", "get"]), rnd.choice(["values", "items", "eq", "keys"])):
            tr_ops[rnd.randrange(length)] = name
        # two histories in three run over three keys only: stores of keys that are present and lookups that make counts overtake
        # each other are then the rule, not the exception
        hot = i % 3 != 0
        if hot:
            cap = 3 if i % 3 == 1 else 2
            tr_ops = [rnd.choice(["store"] * 5 + ["lookup"] * 6 + ["iter"] * 3 + ["delete"] * 2 + ["pop", "setdefault"]) for _ in range(length)]
        nkeys = 3 if hot else 6
        if hot and cap == 3:
            # three entries and a fourth key: counts overtake each other in the middle of the order, entries next to them leave
            nkeys = 4
            tr_ops = [rnd.choice(["store"] * 4 + ["lookup"] * 6 + ["delete"] * 3 + ["iter"] * 3) for _ in range(length)]
        traces.append(C06.random_trace(adapter, rnd, nkeys, [10, 20, 30], cap, length, tr_ops, scripted=True))
    good = C06.split_failed(traces, ctx, "LFUCache", sig_fn)
    tconsts = dict(consts, Keys="{1,2,3,4,5,6}", Vals="{10,20,30}", Caps="{1,2,3,4}", MaxCnt=100000)
    tracecheck.check_traces(SPEC, model.constants_block(tconsts), good, ctx, "LFUCache", MUTATORS, sig_fn=sig_fn, dfs=True)
