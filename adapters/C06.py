"""C06 - LRUCache: exhaustive model, graph walk, trace validation."""
import copy
import os
import random

from vlib import graphwalk, model, tlc, tracecheck
from vlib.graphwalk import Unexpected

SPEC = os.path.join(tlc.SPECS, "adt", "LRUCache.tla")
INVS = ["TypeOK"]
PROPS = ["ReadYourWrite", "EvictOnlyLRU", "AddOnlyStored"]
MUTATORS = {"store", "delete", "pop", "clear"}


def cache_class():
    import importlib
    import windpyutils.structures.caches as m
    importlib.reload(m)
    return m.LRUCache


class MappingAdapter:
    """Drives a MutableMapping-style cache through operation records; observes through the public
    API on a deep copy, so that observing never perturbs the recency state."""

    def __init__(self, cls):
        self.cls = cls

    def new_world(self):
        return {"c": None}

    def obs(self, w):
        c = w["c"]
        if c is None:
            return {"cap": 0, "order": [], "vals": []}
        cc = copy.deepcopy(c)
        order = list(cc)
        vals = []
        for k in order:
            c2 = copy.deepcopy(c)
            vals.append(c2[k])
        if len(c) != len(order):
            raise Unexpected("len()=%d but iteration lists %d keys" % (len(c), len(order)))
        return {"cap": c.max_size, "order": order, "vals": vals}

    def apply(self, w, op):
        name = op["op"]
        c = w["c"]
        try:
            if name == "new":
                w["c"] = self.cls(op["cap"])
                return []
            if name == "store":
                c[op["k"]] = op["v"]
                return []
            if name == "lookup":
                try:
                    return [c[op["k"]]]
                except KeyError:
                    return []
            if name == "contains":
                return [1 if op["k"] in c else 0]
            if name == "get":
                return [c.get(op["k"], op["d"])]
            if name == "delete":
                try:
                    del c[op["k"]]
                    return [1]
                except KeyError:
                    return []
            if name == "pop":
                try:
                    return [c.pop(op["k"])]
                except KeyError:
                    return []
            if name == "popitem":
                try:
                    k, v = c.popitem()
                    return [k, v]
                except KeyError:
                    return []
            if name == "clear":
                c.clear()
                return []
            if name == "setdefault":
                return [c.setdefault(op["k"], op["d"])]
            if name == "update":
                c.update([tuple(p) for p in op["ps"]])
                return []
            if name == "len":
                return [len(c)]
            if name == "iter":
                return list(iter(c))
            if name == "iter_touch":
                seen, bound = [], 3 * len(c) + 5
                for k in c:
                    seen.append(k)
                    if len(seen) > bound:
                        raise Unexpected("an iteration with lookups in between does not end (%d keys so far from %d entries)" % (len(seen), len(c)))
                    c.get(op["k"])          # a lookup of another (or the same, or an absent) key between two steps
                if len(set(seen)) != len(seen):
                    raise Unexpected("an iteration with lookups in between lists a key twice: %r" % (seen,))
                return sorted(seen)
            if name == "keys":
                return list(c.keys())
            if name == "values":
                return list(c.values())
            if name == "items":
                out = []
                for k, v in c.items():
                    out += [k, v]
                return out
            if name == "eq":
                return [1 if c == dict(tuple(p) for p in op["ps"]) else 0]
        except (graphwalk.Timeout, Unexpected):
            raise
        except Exception as e:     # anything else is not a result the specification knows
            raise Unexpected("%s raised %s: %s" % (name, type(e).__name__, e))
        raise tlc.MachineryError("adapter: unknown op %r" % (op,))


def sig_fn(pre, op, ret, post):
    n = len(pre["order"]) if pre else 0
    return {"entries": n}


def random_trace(adapter, rnd, nkeys, vals, cap, length, ops_weighted, scripted=False):
    w = adapter.new_world()
    tr = []

    def do(op):
        try:
            ret = graphwalk.guarded(lambda: adapter.apply(w, op), 2.0)
            st = graphwalk.guarded(lambda: graphwalk.safe_obs(adapter, w), 2.0)
        except (graphwalk.Timeout, Unexpected) as e:
            tr.append({"op": op, "ret": None, "st": None, "exc": type(e).__name__ + ":" + str(e)})
            return False
        tr.append({"op": op, "ret": ret, "st": st})
        return True

    do({"op": "new", "cap": cap})
    for step in range(length):
        name = ops_weighted[step] if scripted else rnd.choice(ops_weighted)
        k = rnd.randint(1, nkeys)
        if name == "store":
            op = {"op": name, "k": k, "v": rnd.choice(vals)}
        elif name in ("lookup", "contains", "delete", "pop"):
            op = {"op": name, "k": k}
        elif name in ("get", "setdefault"):
            op = {"op": name, "k": k, "d": 99}
        elif name == "update":
            op = {"op": name, "ps": [[rnd.randint(1, nkeys), rnd.choice(vals)] for _ in range(rnd.randint(0, 3))]}
        elif name == "eq":
            ks = sorted(rnd.sample(range(1, nkeys + 1), rnd.randint(0, min(cap, nkeys))))
            if rnd.random() < 0.5 and w["c"] is not None:
                try:
                    st = graphwalk.guarded(lambda: adapter.obs(w), 2.0)
                except Exception:       # noqa - a broken object: the next recorded operation will show it
                    st = {"order": [], "keys": [], "vals": []}
                ps = [[kk, vv] for kk, vv in zip(st.get("order", st.get("keys")), st["vals"])]
                rnd.shuffle(ps)
            else:
                ps = [[kk, rnd.choice(vals)] for kk in ks]
            op = {"op": name, "ps": ps}
        else:
            op = {"op": name}
        if not do(op):
            break
    return tr


OPS_W = ["store"] * 6 + ["lookup"] * 4 + ["contains", "get", "delete", "pop", "popitem", "setdefault", "update",
                                           "len", "iter", "keys", "values", "items", "eq"] + ["clear"] * 0


def split_failed(traces, ctx, name, sig_extra=None):
    """Traces that ended in an unexpected exception / timeout are violations by themselves (the
    specification has no such result); return the traces that can go to TLC."""
    good = []
    for t in traces:
        if t and "exc" in t[-1]:
            ev = t[-1]
            pre = t[-2]["st"] if len(t) > 1 else None
            sig = {"kind": "trace", "spec": name, "op": ev["op"].get("op")}
            if sig_extra and pre is not None:
                sig.update(sig_extra(pre, ev["op"], None, None))
            ctx.traces += 1
            ctx.violation(sig, "%s: operation %s failed with %s after state %s" % (name, ev["op"], ev["exc"], pre),
                          {"engine": "tracecheck", "spec": name, "trace": t})
        else:
            good.append(t)
    return good


def run(ctx, spec=SPEC, cls_fn=cache_class, name="LRUCache", neg_consts=None, props=PROPS, invs=INVS, extra_consts=None):
    quick = ctx.tier == "quick"
    keys = "{1,2,3}" if quick else "{1,2,3,4}"
    caps = "{1,2,3}" if quick else "{1,2,3,4}"
    consts = {"Keys": keys, "Vals": "{10,20}", "Caps": caps}
    consts.update(extra_consts or {"Evict": '"lru"'})
    ctx.rule = ("TLC enumerates every reachable abstract cache state for the bounded key/value/capacity sets and every "
                "operation in it; the real object is driven through every (state, operation) pair (distinct = distinct "
                "pairs, all non-trivial: each runs the real code), plus seeded random histories on larger domains judged by TLC")
    ctx.assumptions += ["keys are small integers, values from a small set: the cache never inspects them",
                        "observation uses the public API on a deep copy of the object"]
    # 1. the specification satisfies the property (exhaustive), and the property can fail (negative control)
    model.mc(spec, consts, ctx, name, invariants=invs, properties=props)
    neg = dict(consts)
    neg.update(neg_consts or {"Evict": '"mru"'})
    model.mc(spec, neg, ctx, name + "_neg", invariants=invs, properties=props, expect_violation=True)
    # 2. complete transition relation -> real code
    adapter = MappingAdapter(cls_fn())
    from vlib import par
    jobs = []
    for cap in consts["Caps"].strip("{}").split(","):
        cc = dict(consts, Caps="{%s}" % cap.strip())
        g, _ = graphwalk.emit_graph(spec, model.cfg_text(cc, view="View", action_constraint="Emit"), ctx, name + "_cap" + cap.strip())
        jobs.append((g, adapter, name, dict(sig_fn=sig_fn, paths_per_state=2, history_ops=("clear", "popitem"))))
    for stats in par.walks(ctx, jobs):
        ctx.note("walk %s" % stats)
    ctx.exhaustive = True
    # 3. long random histories on larger domains -> TLC
    rnd = random.Random(ctx.seed * 7919 + 6)
    n = 60 if quick else 600
    traces = []
    for i in range(n):
        cap = rnd.randint(1, 5)
        traces.append(random_trace(adapter, rnd, 8, [10, 20, 30], cap, 120 if quick else 300, OPS_W + ["clear"] * (i % 2)))
    good = split_failed(traces, ctx, name, sig_fn)
    tconsts = dict(consts)
    tconsts.update({"Keys": "{1,2,3,4,5,6,7,8}", "Vals": "{10,20,30}", "Caps": "{1,2,3,4,5}"})
    tracecheck.check_traces(spec, model.constants_block(tconsts), good, ctx, name, MUTATORS, sig_fn=sig_fn)
