#!/usr/bin/env python3
"""Print the prompt for a mutation sub-agent: property text only, nothing from /verif's machinery."""
import json, sys
pid = sys.argv[1]; tag = sys.argv[2] if len(sys.argv) > 2 else "a"
for l in open('/verif/properties.jsonl'):
    p = json.loads(l)
    if p['id'] == pid: break
wt = "/tmp/mut/%s%s" % (pid, tag)
print(f"""You are helping to evaluate a verification tool by producing realistic *defective* variants of a small Python library (mdocekal/windPyUtils). Work ONLY inside your own scratch git worktree; never touch /repo or /verif.

Setup (run first):
  git -C /repo worktree add --detach {wt} HEAD
  cd {wt}
The library's tests run with:  cd {wt} && PYTHONPATH={wt} /venv/bin/python -m pytest -q -p no:cacheprovider --timeout=900 <test files>
(check with `PYTHONPATH={wt} /venv/bin/python -c "import windpyutils; print(windpyutils.__file__)"` that the worktree copy is the one imported). The full suite takes ~4 minutes (multiprocessing tests); run at least the test files related to the files you change, and the full suite once at the end if you can.

The property (this is ALL you get; do not read anything under /verif):

  {p['id']}: {p['title']}
  Statement: {p['statement']}
  Quantified over: {p['quantifier']['text']}
  Relevant files: {', '.join(p['anchors']['files'])}

Task: produce TWO different, independent changes (mutations) to the library source, each of which BREAKS this property while the code still imports, and ALL existing tests of the repository still pass. Each change should be realistic (the kind of slip a maintainer could make in a refactoring or optimisation: an off-by-one, a wrong condition, a missed case, an update done in the wrong order, a forgotten reset, two sites that each look fine alone), small (a few lines), and must need something specific to manifest: a particular multi-step sequence of operations, an unusual input, a particular interleaving or a fault at a particular point - NOT something any ordinary single use would expose at once. Do not change tests. Do not add new public API. Make the two mutations differ in kind (different operation / different mechanism).

For each mutation i in (1, 2) write into {wt}/out/m<i>/ :
  patch.diff   - `git diff` of the library change only, relative to the worktree root (must apply with `git apply` to a clean checkout of HEAD)
  demo.py      - a small standalone program (run as `PYTHONPATH=<tree> /venv/bin/python demo.py`) that exits 0 on the unmodified library and exits non-zero (assertion failure, or a timeout you implement yourself of <= 20 s) with the mutation applied
  meta.json    - {{"property": "{p['id']}", "summary": "...what was changed...", "needs": "...what specific sequence/input/interleaving is needed to manifest...", "tests_run": "...which test command you ran and its result..."}}
After writing mutation 1's files, run `git checkout -- .` (keep out/) before starting mutation 2, so the patches are independent. Verify for each: demo passes on the clean tree, fails with the patch applied, and the related existing tests pass with the patch applied.

When done, leave the worktree in place with the clean tree (patches only in out/), and reply with a short summary of the two mutations (files changed, what they break, what is needed to trigger them) and the test results. Do not remove the worktree.""")
