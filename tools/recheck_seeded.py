#!/usr/bin/env python3
"""tools/recheck_seeded.py <property> <name> [tier] : apply a kept mutation to /repo, run the check, revert, update meta.json"""
import json, subprocess, sys, time
pid, name = sys.argv[1:3]
tier = sys.argv[3] if len(sys.argv) > 3 else "quick"
check_id = sys.argv[4] if len(sys.argv) > 4 else pid        # a mutation may break a neighbouring property instead
d = "/verif/seeded/%s/%s" % (pid, name)
def sh(c, cwd=None, timeout=3600):
    p = subprocess.run(c, shell=True, cwd=cwd, stdout=subprocess.PIPE, stderr=subprocess.STDOUT, text=True, timeout=timeout)
    return p.returncode, p.stdout
import fcntl
_lock = open("/tmp/mut/repo.lock", "w")
fcntl.flock(_lock, fcntl.LOCK_EX)
assert sh("git diff --quiet", "/repo")[0] == 0, "/repo dirty"
rc, out = sh("git apply %s/patch.diff" % d, "/repo")
if rc != 0:
    print("patch does not apply any more:", out[:200]); sys.exit(1)
t = time.time()
try:
    rc, out = sh("timeout 3400 ./check %s --tier %s" % (check_id, tier), "/verif")
finally:
    sh("git checkout -- .", "/repo")
lines = out.splitlines()
viol = [l for l in lines if l.startswith("VIOLATION")]
first = ""
for i, l in enumerate(lines):
    if l.startswith("VIOLATION") and i + 1 < len(lines):
        first = lines[i + 1].strip()[:400]; break
meta = json.load(open(d + "/meta.json"))
meta.setdefault("history", []).append(meta.get("check"))
meta["check"] = {"cmd": "./check %s --tier %s" % (check_id, tier), "rc": rc, "violations": len(viol), "first_violation": first,
                 "secs": round(time.time() - t, 1), "repo_head": sh("git -C /repo rev-parse --short HEAD")[1].strip()}
meta["detected"] = rc == 1 and len(viol) > 0
json.dump(meta, open(d + "/meta.json", "w"), indent=1)
print("RECHECK (check %s) %s/%s detected=%s rc=%d violations=%d  %s" % (check_id, pid, name, meta["detected"], rc, len(viol), first[:200]))
