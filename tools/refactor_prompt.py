#!/usr/bin/env python3
"""Print the prompt for a *refactoring* sub-agent: behaviour-preserving changes on which no check may raise an alarm.
usage: tools/refactor_prompt.py <group> <tag>   (group = key of GROUPS)"""
import json, os, sys
sys.path.insert(0, os.path.dirname(os.path.abspath(__file__)))
from refactor_prompt_groups import GROUPS
grp, tag = sys.argv[1], sys.argv[2]
pids, files = GROUPS[grp]
props = {}
for l in open('/verif/properties.jsonl'):
    p = json.loads(l)
    props[p['id']] = p
wt = "/tmp/mut/R%s%s" % (grp, tag)
ptext = "\n".join("  %s: %s\n  Statement: %s\n" % (i, props[i]['title'], props[i]['statement']) for i in pids)
print(f"""You are helping to evaluate a verification tool for a small Python library (mdocekal/windPyUtils). The tool must NOT raise an alarm on code that still satisfies the library's properties. Your job is to produce realistic *behaviour-preserving* changes (refactorings) of the library: the observable behaviour stays exactly the same, only the implementation differs. Work ONLY inside your own scratch git worktree; never touch /repo or /verif, and do not read anything under /verif.

Setup (run first):
  git -C /repo worktree add --detach {wt} HEAD
  cd {wt}
The library's tests run with:  cd {wt} && PYTHONPATH={wt} /venv/bin/python -m pytest -q -p no:cacheprovider --timeout=900 <test files>
(check with `PYTHONPATH={wt} /venv/bin/python -c "import windpyutils; print(windpyutils.__file__)"` that the worktree copy is the one imported).

Files to refactor: {files}

The properties that must keep holding (for every input, history and interleaving - not just for the tests):

{ptext}
Task: produce THREE different, independent refactorings, each a realistic change a maintainer could make and that a careful reviewer would accept as *semantically equivalent for every public use*: e.g. renaming private attributes or local variables, extracting / inlining a helper method, restructuring a loop or a condition into an equivalent one, replacing an internal data structure by an equivalent one (a list by a deque, a dict by two lists, ...), reordering independent statements, adding a *correct* fast path or a *correct* cache, changing how an internal lock / queue / thread is created (but not what it protects), using a different but equivalent standard-library call. Make them non-trivial (touch the mechanisms the properties rest on, 10-60 changed lines each) and different in kind from each other. Do NOT change the public API (names, signatures, return values, exceptions and their types, documented attributes), do NOT change what is written to files or queues that other processes read, and do not change tests. Be careful: the change must really be equivalent, including on unusual inputs (empty inputs, repeated elements, falsy values, equal keys), after multi-step histories, and under every interleaving of threads / processes where the code is concurrent. If you are not sure a change is equivalent, do not use it.

For each refactoring i in (1, 2, 3) write into {wt}/out/r<i>/ :
  patch.diff   - `git diff` of the library change only, relative to the worktree root (must apply with `git apply` to a clean checkout of HEAD)
  meta.json    - {{"group": "{grp}", "summary": "...what was changed...", "why_equivalent": "...the argument that no public behaviour changed...", "tests_run": "...which test command you ran and its result..."}}
After writing refactoring i's files, run `git checkout -- .` (keep out/) before starting the next one, so the patches are independent. For each: run the related existing tests with the patch applied (they must pass), and the full suite (about 4 minutes) once for at least one of them.

When done, leave the worktree in place with the clean tree (patches only in out/), and reply with a short summary of the three refactorings. Do not remove the worktree.""")
