#!/usr/bin/env python3
"""Regenerates MANIFEST.json from the table below (kept in one place so it stays valid)."""
import json, os
HERE = os.path.dirname(os.path.dirname(os.path.abspath(__file__)))
ALL = ["C%02d" % i for i in range(1, 21)]

MC = "model_checking"
EX = "exploration"
CHECKS = {
 "C06": dict(level=MC, engine="graphwalk+tracecheck", technique="TLA+ ADT spec (LRUCache.tla) model-checked by TLC; TLC's complete edge relation replayed into the real object (graph walk); recorded random histories validated by TLC (trace validation)",
             text="TLC exhaustively checks the LRU specification (size bound, read-your-write, evict-only-LRU, add-only-stored as invariants/action properties; negative control with MRU eviction must fail) for 3-4 keys x 2 values x capacities 1..4, emits every labelled transition, and the real LRUCache is driven through every (state, operation) pair and must land on an allowed successor; longer seeded histories over 8 keys / capacities 1..5 are recorded from the real object and accepted or rejected by TLC.",
             note="small-scope: exhaustive for the stated constants, sampled beyond; keys/values are ints; observation through the public API on a deep copy; TLC 1.8, CPython 3.12 trusted", ref="4 C06, 2.3"),
 "C07": dict(level=MC, engine="graphwalk+tracecheck", technique="TLA+ ADT spec (LFUCache.tla, hidden use counts, nondeterministic ties) model-checked by TLC; graph walk over candidate count vectors; trace validation by TLC",
             text="TLC exhaustively checks the LFU specification (size bound, read-your-write, evict-only-a-least-used key, count rule; negative control evicting a most-used key must fail) for 3 keys x 2 values x capacities 1..3 within a use-count bound, emits every labelled transition, and the real LFUCache is driven through every (observable state, operation) pair while the walk keeps the set of hidden count vectors the spec still allows; seeded histories over 6 keys are validated by TLC.",
             note="use counts are not observable: candidate-set tracking; exhaustive part bounded by a count cap; ties and 'may or may not count' are free in the spec so the code's own choices are never constrained", ref="4 C07"),
 "C08": dict(level=MC, engine="graphwalk+tracecheck", technique="TLA+ ADT spec (DLList.tla, operations defined on node identity) model-checked by TLC; graph walk of every (list, operation, node) triple; random and long-run traces validated by TLC",
             text="TLC exhaustively checks the list specification (each node linked once, len = count, moves permute; negative control where a move loses one from len must fail) for up to 4 live / 5 created nodes over 2 payload values, emits every transition, and the real DoublyLinkedList is driven through every (state, operation) pair comparing forward walk, backward walk, len() and iteration; random histories and runs of 1500-4000 equal payloads with moves deep inside are recorded and validated by TLC.",
             note="node arguments are nodes of the list; links read through head/tail/prev_node/next_node; small-scope exhaustive, sampled beyond", ref="4 C08"),
 "C09": dict(level=MC, engine="graphwalk+tracecheck", technique="TLA+ ADT specs (SortedSet.tla, SortedMap.tla = builtin set/dict semantics with ascending iteration) model-checked by TLC; graph walk from every initial collection; trace validation by TLC",
             text="TLC exhaustively checks both specifications (no repeats, ascending iteration, later pair wins; negative controls must fail) from every initial collection of up to 3 elements (empty, unsorted, repeats; mapping and pair form) over abstract numbers concretised as mixed int/float, emits every transition, and the real SortedSet/SortedMap are driven through every (content, operation) pair including foreign-typed probes; random histories over 12 values are validated by TLC.",
             note="numeric keys without NaN; foreign probes = str and None against non-empty content; pop/popitem may return any member; small-scope exhaustive, sampled beyond", ref="4 C09"),
 "C15": dict(level=MC, engine="graphwalk+tracecheck", technique="TLA+ ADT specs (ReorderBuffer.tla, PrintBuffer.tla, CircularBuffer.tla) model-checked by TLC; graph walk over every arrival order x drain point / put-clear sequence; trace validation of 200-serial permutations by TLC",
             text="TLC exhaustively checks the three specifications (emit-in-order-once, counters, flush ascending, window = last min(k,c) puts, reject outside 0..len-1; each with a negative control that must fail) for every arrival order of 4-5 serials with drain/flush/clear at every point and for ring capacities 1..3, emits every transition, and the real Buffer, PrintBuffer and CircularBuffer are driven through every (state, operation) pair; random permutations of 200 serials and long ring histories are validated by TLC.",
             note="each serial fed once per epoch; draining = exhausting the iterator; printed output captured through a StringIO; small-scope exhaustive, sampled beyond", ref="4 C15"),
 "C20": dict(level=MC, engine="graphwalk+tracecheck", technique="TLA+ specs (TmpPool.tla with an exit-by-exception action enabled in every state of the body and child-process creation; FilePool.tla) model-checked by TLC; graph walk against a real directory inside a real with-statement; trace validation by TLC",
             text="TLC exhaustively checks the specifications (paths distinct, listed = created-not-removed, nothing left after flush/exit/exit-by-exception, all handles open inside and closed outside; negative controls that skip the clean-up on the exception path must fail), emits every transition, and the real TmpPool (single- and multi-process, with files created by forked children) and FilePool are driven through every (state, operation) pair: operations run inside a real with-body, exceptions are thrown into that body, and the directory listing / handle.closed are compared after every step.",
             note="private temporary directory; the body exception is an ordinary Exception; multi-process walk bounded to 2-3 files because every replay starts manager processes", ref="4 C20"),
 "C11": dict(level=MC, engine="graphwalk+tracecheck", technique="TLA+ spec (LineFile.tla + PySeq.tla: Python list/slice semantics, per-iterator positions) model-checked by TLC; graph walk of every variant over a content config and an interleaving config; trace validation of 200-line files by TLC",
             text="TLC exhaustively checks the line-file specification (iterators keep their own position; negative control with a shared cursor must fail), emits every transition for (a) every file of up to 2-3 lines over 7 line kinds x terminated or not x every read and (b) distinct-line files x index sources (built / list / index file; identity, reversed, subset) x gets, a slice grid and two interleaved iterators, and all eight variants (buffered, memory-mapped, mutable, record) are driven through every (state, operation) pair - they must all produce the specification's observations, hence agree; 200-line files with 300 interleaved reads are validated by TLC.",
             note="UTF-8 files and locale; empty file only for buffered variants; line kinds stand for the classes of content that stress the mechanisms (terminators, multi-byte boundaries, buffer size); observation of content uses a second object so the cursor of the object under test is never moved", ref="4 C11"),
 "C12": dict(level=MC, engine="graphwalk+tracecheck", technique="TLA+ spec (MutableLineFile.tla: Python list of lines, dirty flag, save) model-checked by TLC; graph walk of the four mutable variants; trace validation by TLC",
             text="TLC exhaustively checks the mutable-file specification (dirty rule, save writes the content, out-of-range changes nothing; negative control with a stale dirty flag must fail) for files starting with 0-2 lines and every edit/read/save history up to length 3-4, emits every transition, and the four mutable variants are driven through every (state, operation) pair; save output is read back for three line endings and reopened with the buffered and memory-mapped reader, and the source bytes are compared after every step; 120-operation histories are validated by TLC.",
             note="break-free line content; dirty specified for plain variants only; small-scope exhaustive, sampled beyond", ref="4 C12"),
 "C13": dict(level=MC, engine="graphwalk+tracecheck+cases", technique="record files: MutableLineFile.tla with symbols = JSON/CSV/TSV records, graph walk + trace validation by TLC; codec: TLC enumerates the field domain (RecordCodec.tla) and judges every recorded (r, line, loaded) with the TLA+ law",
             text="Record files: the mutable-file specification is walked with JSON, CSV and TSV record classes (fields with delimiters, quotes, blanks, nested values) for the buffered and memory-mapped mutable variants, including save and reopen. Codec: TLC enumerates strings up to length 2-3 over an alphabet of delimiters, quotes, backslash, blanks, ASCII / non-ASCII letters (JSON: also line breaks) plus padded patterns with integer/float tokens; the real save/load run on every case in one process and TLC judges round-trip and single-line. The codec half is exhaustive enumeration against a TLA+-stated law (exploration in nature); the file half is model checking.",
             note="codec laws are about pure functions (weak fit for a state machine, see DESIGN 7); equality is Python ==; numbers are tokens into a table because TLC integers are 32-bit", ref="4 C13"),
 "C10": dict(level=EX, engine="cases", technique="definitional TLA+ module (SpanSet.tla) - TLC enumerates every bounded pair of span collections x 16 relation pairs and evaluates the membership-based definitions; case replay into the real SpanSet",
             text="Exhaustive enumeration of a bounded input domain against an independent definition evaluated by TLC: every pair of span collections (length <= 2 x <= 1/2, with repeats, over the 10 spans on points 0..3) x 16 relation pairs, all 13 operators compared, both constructor forms; plus a seeded pass with 6-span collections over 0..10 evaluated by TLC on demand. Exploration level: these are pure functions, the specification serves as the oracle.",
             note="integer end points; results of constructive operators compared as 'each span once', order free; bounded domain", ref="4 C10, 7"),
 "C16": dict(level=EX, engine="cases", technique="definitional TLA+ module (IntervalMap.tla) - TLC enumerates all dictionaries of <= 3 intervals in every insertion order with all probes; case replay",
             text="Exhaustive enumeration: every dictionary of up to 3 distinct closed intervals (invalid, touching, nested, single-point, unsorted) over 4-5 end points, validity / len / ascending items / lookup of every probe (on ends and in gaps) computed by TLC from the definition and compared with the real ImmutIntervalMap (KeyError exactly when invalid, 'in' agrees with lookup).",
             note="end points and probes are multiples of 0.5 given as ints or floats; bounded domain; exploration level", ref="4 C16, 7"),
 "C17": dict(level=EX, engine="cases", technique="TLA+ predicate (SortedCombinations.tla) judges every recorded generator output; TLC enumerates vectors x intervals and evaluates the min-combination definition; case replay",
             text="The real sorted_combinations runs on every weight vector (length <= 4/5 over 0..2/3, keys sum and max, with and without yield_key) and TLC judges each recorded output with the predicate 'every non-empty index-ordered combination exactly once, keys non-decreasing, key alongside' (several outputs are legal: order among equal keys is free); early stopping must give a prefix. The min-combination search is compared with the TLC-evaluated definition for every vector x interval, plus longer seeded vectors.",
             note="keys sum/max stand for monotone keys; bounded domain; exploration level", ref="4 C17, 7"),
 "C19": dict(level=EX, engine="cases", technique="definitional TLA+ module (Helpers.tla) - TLC enumerates the complete bounded domain of each helper and evaluates a definition different from the library's algorithm; case replay",
             text="Exhaustive enumeration: all 3999 integers for both roman conversions (canonical numeral by digit tables and the inverse law), all sequences over a 3-symbol alphabet up to length 4-6 x reverse flag for arg_sort (stable permutation), all needle/haystack pairs for sub_seq/search_sub_seq, all pairs for multiset equality, all (n, batch_size) for Batcher/BatcherIter incl. lock-step tuples; plus seeded longer inputs evaluated by TLC on demand.",
             note="pure total functions: a weak fit for a state machine, decided with the TLA+ definitions as oracle at exploration level", ref="4 C19, 7"),
 "C01": dict(level=MC, engine="simworld+tracecheck", technique="real own_proc_pools.py under a deterministic scheduler (simworld); schedules by preemption-bounded DFS + random/PCT walks; every execution's observer events validated by TLC against the TLA+ observer spec PoolObs.tla (results clause); design model FunctorPool.tla model-checked by TLC",
             text="The property is stated once, over API-visible events, in PoolObs.tla (a call yields exactly the elements of its own input, once, in order / chunk-order-preserving for unordered). The real source runs with threading/multiprocessing/queue replaced by scheduler-controlled shims and shared pool attributes instrumented, so the schedule is an input: for a seeded scenario family (0-7 elements, lists and lazy generators, chunk sizes 1-3, 1-3 workers, queue bounds, both pools) schedules are enumerated up to a preemption bound and sampled; TLC accepts or rejects each recorded execution.",
             note="shim fidelity (documented blocking semantics of queue/multiprocessing primitives; an item is visible as soon as put returns); atomicity between visible operations; bounded exploration (preemption bound + random/PCT walks), not all schedules of the real code; explicit integer work_queue_maxsize >= number of workers", ref="4 C01, 2.4"),
 "C02": dict(level=MC, engine="simworld+tracecheck", technique="as C01 with the termination clause of PoolObs.tla: a deadlock is a state of the controlled world (no enabled task) and is judged by TLC as a 'hang' event the spec never allows",
             text="Same machinery as C01 with scenarios stressing late StopIteration (lazy inputs, feeder scheduled arbitrarily late) and flow control (results_queue_maxsize=1, workers finishing out of order); every explored schedule must end with the generator finished and the context left; a state with no enabled task is reported with the schedule that reached it.",
             note="shim fidelity (documented blocking semantics of queue/multiprocessing primitives; an item is visible as soon as put returns); atomicity between visible operations; bounded exploration (preemption bound + random/PCT walks), not all schedules of the real code; explicit integer work_queue_maxsize >= number of workers", ref="4 C02, 2.4"),
 "C03": dict(level=MC, engine="simworld+tracecheck", technique="as C01/C02 on sequences of 2-4 calls and FactoryFunctorPool with quotas (retirement inside and exactly at the end of calls); values carry the call number so leakage is rejected by PoolObs.tla",
             text="Multi-call scenarios (different lengths, chunk sizes, ordered/unordered, empty inputs in between) and quota-driven worker replacement on one pool instance, results + termination clauses enforced; schedules explored as in C01.",
             note="shim fidelity (documented blocking semantics of queue/multiprocessing primitives; an item is visible as soon as put returns); atomicity between visible operations; bounded exploration (preemption bound + random/PCT walks), not all schedules of the real code; explicit integer work_queue_maxsize >= number of workers", ref="4 C03, 2.4"),
 "C04": dict(level=MC, engine="simworld+tracecheck", technique="as C03 with the lifecycle clause of PoolObs.tla; the module's own worker class is subclassed to report begin/item/end; faults injected in begin() and in the functor at chosen elements; until_all_ready probed",
             text="Every worker's begin / functor applications / end are observer events; PoolObs.tla enforces begin once and first, items only between completed begin and end, at most quota chunks, end once (also on the fault paths), until_all_ready only when every worker in the slots has completed begin, and no worker task alive after the context is left; fault positions are enumerated (every worker x begin / element 0 / element 1).",
             note="shim fidelity (documented blocking semantics of queue/multiprocessing primitives; an item is visible as soon as put returns); atomicity between visible operations; bounded exploration (preemption bound + random/PCT walks), not all schedules of the real code; explicit integer work_queue_maxsize >= number of workers", ref="4 C04, 2.4"),
}
PENDING = "check not built yet in this session (planned, see DESIGN.md section 4)"

def main():
    checks = []
    for pid in ALL:
        if pid not in CHECKS: continue
        c = CHECKS[pid]
        checks.append({
            "property_id": pid,
            "quick_cmd": "./check %s --tier quick" % pid,
            "thorough_cmd": "./check %s --tier thorough" % pid,
            "evidence_file": "/verif/evidence/%s.json" % pid,
            "replay_cmd_template": "./check %s --replay {path}" % pid,
            "engine": c["engine"],
            "level_claimed": {"category": c["level"], "text": c["text"], "design_ref": "DESIGN.md section " + c["ref"]},
            "level_note": c["note"],
            "technique": c["technique"],
        })
    man = {
        "version": 1,
        "setup_cmd": "./setup.sh",
        "hooks": {"guard": "WINDPYUTILS_VERIF", "enable": "no hooks are needed: the checks import /repo's working tree directly (see DESIGN.md section 8)",
                  "baseline_off_cmd": "cd /repo && /venv/bin/python -m pytest -ra -q -p no:cacheprovider --timeout=900 --continue-on-collection-errors",
                  "source_commits": [], "add_only": True},
        "engines": [
            {"name": "graphwalk", "path": "vlib/graphwalk.py", "serves_properties": sorted(p for p in CHECKS if "graphwalk" in CHECKS[p]["engine"]), "kind_free_text": "TLC emits the complete labelled transition relation of the TLA+ ADT spec; BFS drives the real object through every (state, op)"},
            {"name": "tracecheck", "path": "vlib/tracecheck.py", "serves_properties": sorted(p for p in CHECKS if "tracecheck" in CHECKS[p]["engine"]), "kind_free_text": "executions recorded from the real code validated by TLC against the spec (batch, registers, POSTCONDITION)"},
            {"name": "cases", "path": "vlib/cases.py", "serves_properties": sorted(p for p in CHECKS if "cases" in CHECKS[p]["engine"]), "kind_free_text": "TLC enumerates a bounded input domain and evaluates the TLA+ definition; the real function is run on every case"},
            {"name": "simworld", "path": "vlib/simworld.py", "serves_properties": sorted(p for p in CHECKS if "simworld" in CHECKS[p]["engine"]), "kind_free_text": "real source loaded with threading/multiprocessing/queue shims under a deterministic scheduler; schedules from TLC's graph and from exploration; traces validated by TLC"},
        ],
        "checks": checks,
        "notes": "All checks: ./check <id> --tier quick|thorough. Specs under specs/. Known findings in KNOWN_FINDINGS.json.",
        "not_applicable": [{"property_id": p, "reason": PENDING} for p in ALL if p not in CHECKS],
    }
    with open(os.path.join(HERE, "MANIFEST.json"), "w") as fh:
        json.dump(man, fh, indent=1)
    print("checks:", [c["property_id"] for c in checks])

main()
