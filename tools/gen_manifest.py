#!/usr/bin/env python3
"""Regenerates MANIFEST.json from the table below (kept in one place so it stays valid)."""
import json, os
HERE = os.path.dirname(os.path.dirname(os.path.abspath(__file__)))
ALL = ["C%02d" % i for i in range(1, 21)]

MC = "model_checking"
EX = "exploration"
CHECKS = {
 "C06": dict(level=MC, engine="graphwalk+tracecheck", technique="TLA+ ADT spec (LRUCache.tla) model-checked by TLC; TLC's complete edge relation replayed into the real object (graph walk); recorded random histories validated by TLC (trace validation)",
             text="TLC exhaustively checks the LRU specification (size bound, read-your-write, evict-only-LRU, add-only-stored as invariants/action properties; negative control with MRU eviction must fail) for 3-4 keys x 2 values x capacities 1..4, emits every labelled transition, and the real LRUCache is driven through every (state, operation) pair and must land on an allowed successor; longer seeded histories over 8 keys / capacities 1..5 are recorded from the real object and accepted or rejected by TLC.",
             note="small-scope: exhaustive for the stated constants, sampled beyond; keys/values are ints; observation through the public API on a deep copy; TLC 1.8, CPython 3.12 trusted", ref="4 C06, 2.3"),
}
PENDING = "check not built yet in this session (planned, see DESIGN.md section 4)"

def main():
    checks = []
    for pid in ALL:
        if pid not in CHECKS: continue
        c = CHECKS[pid]
        checks.append({
            "property_id": pid,
            "quick_cmd": "./check %s --tier quick" % pid,
            "thorough_cmd": "./check %s --tier thorough" % pid,
            "evidence_file": "/verif/evidence/%s.json" % pid,
            "replay_cmd_template": "./check %s --replay {path}" % pid,
            "engine": c["engine"],
            "level_claimed": {"category": c["level"], "text": c["text"], "design_ref": "DESIGN.md section " + c["ref"]},
            "level_note": c["note"],
            "technique": c["technique"],
        })
    man = {
        "version": 1,
        "setup_cmd": "./setup.sh",
        "hooks": {"guard": "WINDPYUTILS_VERIF", "enable": "no hooks are needed: the checks import /repo's working tree directly (see DESIGN.md section 8)",
                  "baseline_off_cmd": "cd /repo && /venv/bin/python -m pytest -ra -q -p no:cacheprovider --timeout=900 --continue-on-collection-errors",
                  "source_commits": [], "add_only": True},
        "engines": [
            {"name": "graphwalk", "path": "vlib/graphwalk.py", "serves_properties": sorted(p for p in CHECKS if "graphwalk" in CHECKS[p]["engine"]), "kind_free_text": "TLC emits the complete labelled transition relation of the TLA+ ADT spec; BFS drives the real object through every (state, op)"},
            {"name": "tracecheck", "path": "vlib/tracecheck.py", "serves_properties": sorted(p for p in CHECKS if "tracecheck" in CHECKS[p]["engine"]), "kind_free_text": "executions recorded from the real code validated by TLC against the spec (batch, registers, POSTCONDITION)"},
            {"name": "cases", "path": "vlib/cases.py", "serves_properties": sorted(p for p in CHECKS if "cases" in CHECKS[p]["engine"]), "kind_free_text": "TLC enumerates a bounded input domain and evaluates the TLA+ definition; the real function is run on every case"},
            {"name": "simworld", "path": "vlib/simworld.py", "serves_properties": sorted(p for p in CHECKS if "simworld" in CHECKS[p]["engine"]), "kind_free_text": "real source loaded with threading/multiprocessing/queue shims under a deterministic scheduler; schedules from TLC's graph and from exploration; traces validated by TLC"},
        ],
        "checks": checks,
        "notes": "All checks: ./check <id> --tier quick|thorough. Specs under specs/. Known findings in KNOWN_FINDINGS.json.",
        "not_applicable": [{"property_id": p, "reason": PENDING} for p in ALL if p not in CHECKS],
    }
    with open(os.path.join(HERE, "MANIFEST.json"), "w") as fh:
        json.dump(man, fh, indent=1)
    print("checks:", [c["property_id"] for c in checks])

main()
