#!/usr/bin/env python3
"""tools/keep_mut.py <worktree> <mutation dir> <property> <name> [tier]
Confirm a sub-agent's mutation myself (scratch worktree: demo passes clean, fails patched, related tests pass patched),
run the property's check against it in /repo (apply, check, revert), and keep it under /verif/seeded/<property>/<name>/."""
import json, os, shutil, subprocess, sys, time
wt, mdir, pid, name = sys.argv[1:5]
tier = sys.argv[5] if len(sys.argv) > 5 else "quick"
TESTS = {"C06": "tests/test_caches.py tests/test_lists.py", "C07": "tests/test_caches.py tests/test_lists.py",
         "C08": "tests/test_lists.py tests/test_caches.py", "C09": "tests/test_sorted.py tests/test_generic.py",
         "C10": "tests/test_span_set.py tests/test_maps.py", "C16": "tests/test_maps.py tests/test_span_set.py",
         "C17": "tests/test_generic.py", "C19": "tests/test_generic.py", "C15": "tests/test_buffers.py tests/test_circular_buffer.py",
         "C11": "tests/test_files.py", "C12": "tests/test_files.py", "C13": "tests/test_files.py", "C18": "tests/test_files.py",
         "C20": "tests/test_files.py", "C14": "tests/test_storage.py",
         "C01": "tests/test_own_proc_pools.py tests/test_buffers.py", "C02": "tests/test_own_proc_pools.py",
         "C03": "tests/test_own_proc_pools.py", "C04": "tests/test_own_proc_pools.py",
         "C05": "tests/test_pools.py tests/test_parallel_maps.py tests/test_parallel_workers.py tests/test_buffers.py"}
def sh(cmd, cwd=None, timeout=1800):
    p = subprocess.run(cmd, shell=True, cwd=cwd, stdout=subprocess.PIPE, stderr=subprocess.STDOUT, text=True, timeout=timeout)
    return p.returncode, p.stdout
env = "PYTHONPATH=%s" % wt
assert sh("git status --porcelain --untracked-files=no", wt)[1].strip() == "", "worktree dirty"
# the worktree must be at /repo's HEAD so that the patch is relative to the current tree
sh("git checkout -q --detach %s" % sh("git -C /repo rev-parse HEAD")[1].strip(), wt)
rc_clean, _ = sh("timeout 120 env %s /venv/bin/python %s/demo.py" % (env, mdir), wt)
rc, out = sh("git apply %s/patch.diff" % mdir, wt)
if rc != 0:
    print("KEEP-FAIL patch does not apply to HEAD:", out[:300]); sys.exit(1)
rc_mut, _ = sh("timeout 120 env %s /venv/bin/python %s/demo.py" % (env, mdir), wt)
t0 = time.time()
rc_tests, tout = sh("env %s /venv/bin/python -m pytest -q -p no:cacheprovider --timeout=900 %s 2>&1 | tail -3" % (env, TESTS[pid]), wt)
tests_line = [l for l in tout.splitlines() if "passed" in l or "failed" in l or "error" in l][-1:] or [tout[-200:]]
sh("git checkout -- .", wt)
ok = rc_clean == 0 and rc_mut != 0 and "failed" not in tests_line[0] and "error" not in tests_line[0]
print("confirm: demo_clean=%d demo_mut=%d tests=%s ok=%s" % (rc_clean, rc_mut, tests_line[0].strip(), ok))
if not ok:
    sys.exit(1)
# run the check against the scratch worktree with the patch applied (VERIF_REPO: /repo, evidence/ and replays/ stay untouched)
sh("git apply %s/patch.diff" % mdir, wt)
t1 = time.time()
outdir = wt.rstrip("/") + ".checkout"
try:
    rc_chk, cout = sh("timeout 3400 env VERIF_REPO=%s VERIF_SCRATCH_OUT=%s ./check %s --tier %s" % (wt, outdir, pid, tier), "/verif", timeout=3500)
finally:
    sh("git checkout -- .", wt)
    shutil.rmtree(outdir, ignore_errors=True)
viol = [l for l in cout.splitlines() if l.startswith("VIOLATION")]
first = ""
lines = cout.splitlines()
for i, l in enumerate(lines):
    if l.startswith("VIOLATION") and i + 1 < len(lines):
        first = lines[i + 1].strip()[:400]; break
dst = "/verif/seeded/%s/%s" % (pid, name)
os.makedirs(dst, exist_ok=True)
shutil.copy(os.path.join(mdir, "patch.diff"), dst)
shutil.copy(os.path.join(mdir, "demo.py"), dst)
meta = json.load(open(os.path.join(mdir, "meta.json")))
meta.update({"property": pid, "confirmed": {"demo_on_clean_tree_rc": rc_clean, "demo_with_patch_rc": rc_mut,
             "existing_tests_with_patch": tests_line[0].strip(), "tests_cmd": "pytest " + TESTS[pid],
             "repo_head": sh("git -C /repo rev-parse --short HEAD")[1].strip()},
             "check": {"cmd": "./check %s --tier %s" % (pid, tier), "rc": rc_chk, "violations": len(viol),
                       "first_violation": first, "secs": round(time.time() - t1, 1)},
             "detected": rc_chk == 1 and len(viol) > 0})
json.dump(meta, open(os.path.join(dst, "meta.json"), "w"), indent=1)
print("KEPT %s detected=%s rc=%d violations=%d (%.0fs)  %s" % (dst, meta["detected"], rc_chk, len(viol), time.time() - t1, first[:160]))
