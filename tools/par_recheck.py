#!/usr/bin/env python3
"""tools/par_recheck.py [--jobs N] [--refactor] [pattern ...]
Regression of the seeded changes in parallel: every kept mutation (seeded/C*/*/) is applied to its OWN scratch copy of the
repository (git worktree under /tmp/mut/par), the recorded check runs against that copy (VERIF_REPO / VERIF_SCRATCH_OUT, so
/repo, evidence/ and replays/ are not touched), and meta.json records the verdict.  --refactor: the behaviour-preserving
changes under seeded/refactor instead (every check of the group must stay quiet)."""
import glob, json, os, shutil, subprocess, sys, time
from concurrent.futures import ThreadPoolExecutor
sys.path.insert(0, os.path.dirname(os.path.abspath(__file__)))
from refactor_prompt_groups import GROUPS
args = sys.argv[1:]
jobs = 4
if "--jobs" in args:
    i = args.index("--jobs"); jobs = int(args[i + 1]); del args[i:i + 2]
refactor = "--refactor" in args
args = [a for a in args if a != "--refactor"]
ROOT = "/tmp/mut/par"
os.makedirs(ROOT, exist_ok=True)
HEAD = subprocess.run("git -C /repo rev-parse HEAD", shell=True, stdout=subprocess.PIPE, text=True).stdout.strip()

def sh(c, cwd=None, timeout=3600, env=None):
    p = subprocess.run(c, shell=True, cwd=cwd, stdout=subprocess.PIPE, stderr=subprocess.STDOUT, text=True, timeout=timeout, env=env)
    return p.returncode, p.stdout

def run_check(tree, out, chk, tier="quick"):
    env = dict(os.environ, VERIF_REPO=tree, VERIF_SCRATCH_OUT=out)
    t = time.time()
    rc, o = sh("timeout 3400 ./check %s --tier %s" % (chk, tier), "/verif", env=env)
    lines = o.splitlines()
    viol = [l for l in lines if l.startswith("VIOLATION")]
    first = ""
    for i, l in enumerate(lines):
        if l.startswith("VIOLATION") and i + 1 < len(lines):
            first = lines[i + 1].strip()[:400]; break
    if rc not in (0, 1):
        first = " / ".join(lines[-4:])[:400]
    r = {"rc": rc, "violations": len(viol), "first_violation": first, "secs": round(time.time() - t, 1), "repo_head": HEAD[:7]}
    ev = os.path.join(out, "evidence", chk + ".json")
    if os.path.exists(ev):
        cov = json.load(open(ev)).get("coverage", {})
        conf = {k: v.get("status") for k, v in cov.items() if k.startswith("conformance_with") and isinstance(v, dict)}
        if conf:
            r["conformance"] = conf
        if cov.get("controlled_legs"):
            r["controlled_legs"] = cov["controlled_legs"]
    return r

def one(d):
    name = d.rstrip("/").split("/")[-2] + "_" + d.rstrip("/").split("/")[-1]
    tree, out = os.path.join(ROOT, name), os.path.join(ROOT, name + ".out")
    sh("git -C /repo worktree remove --force %s" % tree); shutil.rmtree(tree, ignore_errors=True)
    rc, o = sh("git -C /repo worktree add --detach %s %s" % (tree, HEAD))
    try:
        rc, o = sh("git apply %s/patch.diff" % os.path.abspath(d), tree)
        if rc != 0:
            return "%s: patch does not apply: %s" % (name, o[:200])
        meta = json.load(open(d + "/meta.json"))
        if refactor:
            res = {c: run_check(tree, out, c) for c in GROUPS[meta["group"]][0]}
            meta.setdefault("history", []).append(meta.get("checks"))
            meta["checks"], meta["quiet"] = res, all(r["rc"] == 0 for r in res.values())
            line = "REFACTOR %s quiet=%s %s" % (name, meta["quiet"], {c: r["rc"] for c, r in res.items()})
        else:
            chk = meta["check"]["cmd"].split()[1]
            r = run_check(tree, out, chk)
            r["cmd"] = "./check %s --tier quick" % chk
            meta.setdefault("history", []).append(meta.get("check"))
            meta["check"], meta["detected"] = r, r["rc"] == 1 and r["violations"] > 0
            line = "RECHECK %s (check %s) detected=%s rc=%d violations=%d %.0fs %s" % (name, chk, meta["detected"], r["rc"], r["violations"], r["secs"], r["first_violation"][:100])
        json.dump(meta, open(d + "/meta.json", "w"), indent=1)
        return line
    finally:
        sh("git -C /repo worktree remove --force %s" % tree)
        shutil.rmtree(tree, ignore_errors=True); shutil.rmtree(out, ignore_errors=True)

dirs = sorted(glob.glob("/verif/seeded/refactor/*/" if refactor else "/verif/seeded/C*/*/"))
if args:
    dirs = [d for d in dirs if any(a in d for a in args)]
with ThreadPoolExecutor(max_workers=jobs) as ex:
    for line in ex.map(one, dirs):
        print(line, flush=True)
print("PAR-RECHECK-DONE %d" % len(dirs))
