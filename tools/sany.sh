#!/bin/sh
# tools/sany.sh <module.tla> : parse one module, print errors only
d=$(mktemp -d); cp "$(dirname "$1")"/*.tla "$d"/ 2>/dev/null; cp /verif/specs/common/*.tla "$d"/ 2>/dev/null
(cd "$d" && java -cp /opt/veriftools/tla/tla2tools.jar:/opt/veriftools/tla/CommunityModules-deps.jar tla2sany.SANY "$(basename "$1")" 2>&1 | grep -v -e "^Parsing" -e "^Semantic processing" -e "^$" -e "^\*\*\*\*" -e "Linting")
rm -rf "$d"
