#!/usr/bin/env python3
"""tools/keep_refactor.py <worktree> <refactoring dir> <group> <name> [tier]
A behaviour-preserving change produced by a sub-agent: apply to /repo, run the group's checks, revert; no check may raise an alarm.
Kept under /verif/seeded/refactor/<name>/ with the verdict of every check."""
import json, os, shutil, subprocess, sys, time
sys.path.insert(0, os.path.dirname(__file__))
from refactor_prompt_groups import GROUPS
wt, rdir, grp, name = sys.argv[1:5]
tier = sys.argv[5] if len(sys.argv) > 5 else "quick"
def sh(cmd, cwd=None, timeout=3600):
    p = subprocess.run(cmd, shell=True, cwd=cwd, stdout=subprocess.PIPE, stderr=subprocess.STDOUT, text=True, timeout=timeout)
    return p.returncode, p.stdout
assert sh("git status --porcelain --untracked-files=no", wt)[1].strip() == "", "worktree dirty"
rc, out = sh("git apply %s/patch.diff" % rdir, wt)
if rc != 0:
    print("KEEP-FAIL patch does not apply:", out[:300]); sys.exit(1)
res = {}
outdir = wt.rstrip("/") + ".checkout"
try:
    for pid in GROUPS[grp][0]:
        t1 = time.time()
        rc_chk, cout = sh("timeout 3400 env VERIF_REPO=%s VERIF_SCRATCH_OUT=%s ./check %s --tier %s" % (wt, outdir, pid, tier), "/verif", timeout=3500)
        lines = cout.splitlines()
        viol = [l for l in lines if l.startswith("VIOLATION")]
        first = ""
        for i, l in enumerate(lines):
            if l.startswith("VIOLATION") and i + 1 < len(lines):
                first = lines[i + 1].strip()[:500]; break
        if rc_chk not in (0, 1):
            first = "\n".join(lines[-6:])[:600]
        res[pid] = {"rc": rc_chk, "violations": len(viol), "first": first, "secs": round(time.time() - t1, 1)}
        ev = os.path.join(outdir, "evidence", pid + ".json")
        if os.path.exists(ev):
            cov = json.load(open(ev))["coverage"]
            conf = {k: v.get("status") for k, v in cov.items() if k.startswith("conformance_with") and isinstance(v, dict)}
            if conf:
                res[pid]["conformance"] = conf
            if cov.get("controlled_legs"):
                res[pid]["controlled_legs"] = cov["controlled_legs"]
        print("  %s rc=%d violations=%d %s %s" % (pid, rc_chk, len(viol), res[pid].get("conformance", ""), first[:200]))
finally:
    sh("git checkout -- .", wt)
    shutil.rmtree(outdir, ignore_errors=True)
dst = "/verif/seeded/refactor/%s" % name
os.makedirs(dst, exist_ok=True)
shutil.copy(os.path.join(rdir, "patch.diff"), dst)
meta = json.load(open(os.path.join(rdir, "meta.json")))
meta.update({"group": grp, "checks": res, "quiet": all(r["rc"] == 0 for r in res.values())})
json.dump(meta, open(os.path.join(dst, "meta.json"), "w"), indent=1)
print("REFACTOR %s quiet=%s" % (name, meta["quiet"]))
