#!/usr/bin/env python3
"""Regenerate the table of seeded changes at the end of DESIGN.md section 11.5 from seeded/*/*/meta.json, and print the counts per round."""
import glob, json, os, re
rows, rounds = [], {}
for mf in sorted(glob.glob('/verif/seeded/C*/*/meta.json')):
    pid, name = mf.split('/')[-3], mf.split('/')[-2]
    m = json.load(open(mf))
    hist = m.get("history", [])
    first = hist[0] if hist else m["check"]
    first_ok = first.get("rc") == 1 and first.get("violations", 0) > 0
    r = rounds.setdefault(name.split('_')[0], [0, 0, 0])
    r[0] += 1; r[1] += 1 if (first_ok and not m.get("anticipated")) else 0; r[2] += 1 if m.get("detected") else 0
    summ = re.sub(r'\s+', ' ', m.get("summary", "")).replace('|', '/')[:110]
    rows.append("| %s | %s | %s | %s | %s | %s |" % (pid, name, summ, m["check"]["cmd"].replace(" --tier quick", "").replace(" --tier thorough", " (thorough)"),
                                                 "yes" if m.get("detected") else "NO",
                                                 "anticipated from the summary" if m.get("anticipated") else ("" if first_ok else "missed at first")))
head = "| property | mutation | what it changes | caught by | detected | note |\n|---|---|---|---|---|---|\n"
s = open('/verif/DESIGN.md').read()
a = s.index("| property | mutation | what it changes")
b = s.index("### 11.6")
s = s[:a] + head + "\n".join(rows) + "\n\n" + s[b:]
open('/verif/DESIGN.md', 'w').write(s)
for k, v in sorted(rounds.items()):
    print("round %s: %d changes, %d detected at first run, %d detected now" % (k, v[0], v[1], v[2]))
