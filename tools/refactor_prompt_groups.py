"""property groups per source file (shared by refactor_prompt.py and keep_refactor.py)"""
GROUPS = {
    "pools": (["C01", "C02", "C03", "C04"], "windpyutils/parallel/own_proc_pools.py"),
    "pmaps": (["C05"], "windpyutils/parallel/pools.py, windpyutils/parallel/maps.py, windpyutils/parallel/workers.py"),
    "caches": (["C06", "C07", "C08"], "windpyutils/structures/caches.py, windpyutils/structures/lists.py"),
    "sorted": (["C09", "C10", "C16"], "windpyutils/structures/sorted.py, windpyutils/structures/span_set.py, windpyutils/structures/maps.py"),
    "files": (["C11", "C12", "C13", "C18", "C20"], "windpyutils/files.py"),
    "storage": (["C14"], "windpyutils/parallel/storage.py"),
    "buffers": (["C15", "C17", "C19"], "windpyutils/buffers.py, windpyutils/structures/circular_buffer.py, windpyutils/generic.py"),
}
