#!/bin/bash
# tools/try_mut.sh <mutation dir with patch.diff demo.py meta.json> <property id> [tier]
# Confirms the mutation (demo passes clean, fails patched), runs the check against it, reverts. Prints a verdict line.
set -u
D=$1; P=$2; T=${3:-quick}
cd /repo || exit 2
if ! git diff --quiet; then echo "REPO-DIRTY"; exit 2; fi
timeout 120 env PYTHONPATH=/repo /venv/bin/python "$D/demo.py" >/dev/null 2>&1; clean=$?
if ! git apply --check "$D/patch.diff" 2>/dev/null; then echo "RESULT $P $D patch-does-not-apply"; exit 0; fi
git apply "$D/patch.diff"
timeout 120 env PYTHONPATH=/repo /venv/bin/python "$D/demo.py" >/dev/null 2>&1; mut=$?
cd /verif
start=$(date +%s)
timeout 3000 ./check "$P" --tier "$T" > /tmp/mut/last_check_$P.log 2>&1; rc=$?
end=$(date +%s)
git -C /repo checkout -- .
nv=$(grep -c '^VIOLATION' /tmp/mut/last_check_$P.log)
first=$(grep -A1 '^VIOLATION' /tmp/mut/last_check_$P.log | sed -n 2p | cut -c1-300)
echo "RESULT $P $D demo_clean=$clean demo_mut=$mut check_rc=$rc violations=$nv secs=$((end-start))"
echo "   first: $first"
