"""Case replay (DESIGN.md section 2.3, shape F): TLC enumerates a bounded input domain and evaluates the TLA+
definition (`Def`) on every input, or judges recorded results with the TLA+ predicate (`Law`)."""
import json
import os

from . import tlc

_HEAD = "---------------------------- MODULE %(dmod)s ----------------------------\nEXTENDS %(mod)s, IOUtils\nVARIABLE drv_x\n"
_TAIL = "\nDrvSpec == drv_x = 0 /\\ [][drv_x' = drv_x]_drv_x\n=============================================================================\n"


def _run(module_file, constants_cfg, body, files, ctx, name, tagset, on_print, timeout):
    mod = os.path.splitext(os.path.basename(module_file))[0]
    dmod = "Drive_" + mod
    text = _HEAD % {"mod": mod, "dmod": dmod} + body + _TAIL
    cfg = "SPECIFICATION DrvSpec\nCONSTANTS\n%s\nCHECK_DEADLOCK FALSE\n" % constants_cfg
    extra = {dmod + ".tla": text}
    extra.update(files)
    res = tlc.run(module_file, cfg, tag="case_" + name, workers=1, timeout=timeout, extra_text=extra, module_name=dmod,
                  print_tags=tagset, on_print=on_print)
    ctx.add_tlc("cases:" + name, res, count=False)
    if not res.ok:
        raise tlc.MachineryError("case run %s failed: %s %s" % (name, res.violated, res.errors[:3]))
    return res


def enumerate_cases(module_file, constants_cfg, ctx, name, on_case, domain="Domain", definition="Def", timeout=1800):
    """TLC prints [i |-> input, o |-> Def(input)] for every input of the domain; on_case(input, expected)."""
    n = [0]

    def on_print(tag, payload):
        c = tlc.decode_json_print(payload)
        n[0] += 1
        on_case(c["i"], c["o"])

    body = 'ASSUME \\A c \\in %s : PrintT(<<"CASE", ToJson([i |-> c, o |-> %s(c)])>>)\n' % (domain, definition)
    _run(module_file, constants_cfg, body, {}, ctx, name, ("CASE",), on_print, timeout)
    if n[0] == 0:
        raise tlc.MachineryError("case enumeration %s produced no cases" % name)
    ctx.states += n[0]
    return n[0]


def evaluate(module_file, constants_cfg, inputs, ctx, name, definition="Def", timeout=1800):
    """TLC evaluates the definition on the given inputs (a list of JSON-able values); returns the expected outputs."""
    if not inputs:
        return []
    out = {}

    def on_print(tag, payload):
        c = tlc.decode_json_print(payload)
        out[c["k"]] = c["o"]

    body = ('DrvIn == JsonDeserialize("inputs.json")\n'
            'ASSUME \\A k \\in DOMAIN DrvIn : PrintT(<<"CASE", ToJson([k |-> k, o |-> %s(DrvIn[k])])>>)\n' % definition)
    _run(module_file, constants_cfg, body, {"inputs.json": json.dumps(inputs)}, ctx, name, ("CASE",), on_print, timeout)
    if len(out) != len(inputs):
        raise tlc.MachineryError("evaluation %s: %d of %d inputs evaluated" % (name, len(out), len(inputs)))
    ctx.states += len(inputs)
    return [out[k + 1] for k in range(len(inputs))]


def judge(module_file, constants_cfg, results, ctx, name, law="Law", timeout=1800):
    """TLC evaluates the predicate `law` on every recorded result; returns a list of booleans."""
    if not results:
        return []
    out = {}

    def on_print(tag, payload):
        parts = [p.strip() for p in payload.split(",")]
        out[int(parts[0])] = parts[1] == "TRUE"

    body = ('DrvRes == JsonDeserialize("results.json")\n'
            'ASSUME \\A k \\in DOMAIN DrvRes : PrintT(<<"VERDICT", k, %s(DrvRes[k])>>)\n' % law)
    _run(module_file, constants_cfg, body, {"results.json": json.dumps(results)}, ctx, name, ("VERDICT",), on_print, timeout)
    if len(out) != len(results):
        raise tlc.MachineryError("judging %s: %d of %d results judged" % (name, len(out), len(results)))
    ctx.states += len(results)
    return [out[k + 1] for k in range(len(results))]
