"""Apalache (symbolic model checker) for inductive invariants of small typed specs."""
import os
import shutil
import subprocess
import time

from . import tlc


def check(module_file, cinit, init, inv, length, timeout=180):
    """Returns (ok, violated, seconds, tail of the output). ok = no error found; violated = an invariant violation found."""
    wd = tlc.newdir("apa")
    try:
        shutil.copy(module_file, wd)
        t0 = time.time()
        try:
            p = subprocess.run(["apalache-mc", "check", "--cinit=" + cinit, "--init=" + init, "--inv=" + inv, "--length=%d" % length,
                                "--out-dir=" + os.path.join(wd, "out"), os.path.basename(module_file)],
                               cwd=wd, stdout=subprocess.PIPE, stderr=subprocess.STDOUT, text=True, timeout=timeout)
            out = p.stdout
        except (subprocess.TimeoutExpired, FileNotFoundError) as e:
            return None, None, time.time() - t0, str(e)
        ok = "EXITCODE: OK" in out
        violated = "invariant" in out and "violated" in out
        return ok, violated, time.time() - t0, out[-600:]
    finally:
        shutil.rmtree(wd, ignore_errors=True)
