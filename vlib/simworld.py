"""simworld - the real source under a deterministic scheduler (DESIGN.md section 2.4).

The module under test is executed in a fresh namespace while `threading`, `multiprocessing`
(+ .context, .process) resolve to the shims below.  Every Thread / Process becomes a *task*: a real
OS thread gated by its own semaphore, so exactly one task runs at a time and control changes hands
only at *visible operations* (queue / lock / event / value / manager-list operations, thread and
process start / join / exitcode, reads and writes of instrumented shared attributes, file
operations of the storage shim).  A chooser decides which enabled task performs its pending
operation next; a state with unfinished tasks and no enabled task is a deadlock.
"""
import copy
import queue as _q
import sys
import threading as _th
import types


class Killed(BaseException):
    pass


class Task:
    def __init__(self, world, name, fn):
        self.world, self.name, self.fn = world, name, fn
        self.sem = _th.Semaphore(0)
        self.pending = None          # (kind, obj, enabled_fn) while parked on a visible operation
        self.started = False
        self.done = False
        self.exc = None
        self.index = len(world.tasks)
        self.thread = _th.Thread(target=self._main, daemon=True)

    def _main(self):
        self.sem.acquire()
        try:
            if self.world.killing:
                raise Killed()
            self.started = True
            self.fn()
        except Killed:
            pass
        except BaseException as e:      # noqa
            self.exc = e
        self.done = True
        self.pending = None
        self.world.sched_sem.release()


class World:
    """One controlled execution."""

    def __init__(self, chooser, max_steps=4000, shared_names=(), learn=False):
        self.tasks = []
        self.sched_sem = _th.Semaphore(0)
        self.cur = None
        self.chooser = chooser
        self.trace = []              # visible operations: (task, kind, object name, detail, result)
        self.events = []             # observer-level events appended by the harness (not scheduling points)
        self.killing = False
        self.max_steps = max_steps
        self.steps = 0
        self.counters = {}
        self.shared_names = set(shared_names)
        self.learn = learn
        self.learned = set()
        self.constructed = False     # set by the harness once the object under test is built
        self.fs = {}                 # in-memory files of the storage shim: path -> bytearray
        self.outcome = None
        self.schedule = []           # names of the tasks chosen, in order
        self.choices = []            # per step: (chosen, [enabled names], current-was-enabled)
        self.record_trace = True
        self.piped = []              # queues with a pipe capacity (a process holding undelivered items cannot exit)
        self.step_ops = {}           # scheduler step -> kind of the visible operation performed in it

    def fresh(self, prefix):
        self.counters[prefix] = self.counters.get(prefix, 0) + 1
        return "%s%d" % (prefix, self.counters[prefix])

    def spawn(self, name, fn):
        t = Task(self, name, fn)
        self.tasks.append(t)
        t.thread.start()
        return t

    def op(self, kind, obj, enabled, effect, detail=None, timed=False):
        if self.killing:
            raise Killed()           # unwinding (finally / __exit__ blocks) after the execution was stopped
        t = self.cur
        # timed: an operation with a timeout. Virtual time: it proceeds when its condition holds, and the timeout fires only when no
        # task at all can take a step (time passes only when nothing else can happen), so a polling loop cannot starve the others
        t.pending = (kind, obj, enabled, timed)
        self.sched_sem.release()
        t.sem.acquire()
        if self.killing:
            raise Killed()
        t.pending = None
        r = effect()
        self.step_ops[self.steps] = kind
        if self.record_trace:
            self.trace.append((t.name, kind, getattr(obj, "name", None), detail, _show(r)))
        return r

    def event(self, **kw):
        kw["task"] = self.cur.name if self.cur else None
        self.events.append(kw)

    def run(self, main_fn):
        global W
        W = self
        main = self.spawn("main", main_fn)
        self.cur = main
        self.schedule.append("main")
        main.sem.release()
        self.sched_sem.acquire()
        last = main
        while True:
            live = [t for t in self.tasks if not t.done]
            if not live:
                self.outcome = "ok"
                break
            en = [t for t in live if t.pending is None or t.pending[2]()]
            if not en:
                en = [t for t in live if t.pending is not None and len(t.pending) > 3 and t.pending[3]]     # timeouts fire
            if not en:
                self.outcome = "deadlock"
                self.blocked = [(t.name, t.pending[0], getattr(t.pending[1], "name", None)) for t in live]
                self.kill()
                break
            self.steps += 1
            if self.steps > self.max_steps:
                self.outcome = "steplimit"
                self.kill()
                break
            t = self.chooser(en, self, last)
            self.choices.append((t.name, [x.name for x in en], last in en))
            self.schedule.append(t.name)
            self.cur = t
            last = t
            t.sem.release()
            self.sched_sem.acquire()
        W = None
        return self.outcome

    def kill(self):
        self.killing = True
        for t in self.tasks:
            if not t.done:
                t.sem.release()
        for t in self.tasks:
            t.thread.join(2)


W = None    # the world of the execution in progress (one at a time per process)


def _show(r):
    if r is None or isinstance(r, (bool, int, str)):
        return r
    if isinstance(r, type) and issubclass(r, Exception):
        return r.__name__
    return type(r).__name__


def vop(kind, obj, enabled, effect, detail=None, timed=False):
    w = W
    if w is None or w.cur is None:
        return effect()              # outside a controlled execution (e.g. module import)
    return w.op(kind, obj, enabled, effect, detail, timed)


def _always():
    return True


# ---------------------------------------------------------------------------------------- primitives
class SimEvent:
    def __init__(self):
        self.flag = False
        self.name = W.fresh("ev") if W else "ev?"

    def set(self):
        vop("ev.set", self, _always, lambda: setattr(self, "flag", True))

    def clear(self):
        vop("ev.clear", self, _always, lambda: setattr(self, "flag", False))

    def is_set(self):
        return vop("ev.is_set", self, _always, lambda: self.flag)

    def wait(self, timeout=None):
        if timeout is not None:
            return vop("ev.wait_t", self, lambda: self.flag, lambda: self.flag, timed=True)
        return vop("ev.wait", self, lambda: self.flag, lambda: True)


class SimLock:
    def __init__(self):
        self.holder = None
        self.name = W.fresh("lock") if W else "lock?"

    def acquire(self, block=True, timeout=None):
        me = W.cur
        if not block:
            def eff():
                if self.holder is None:
                    self.holder = me
                    return True
                return False
            return vop("lock.try", self, _always, eff)
        if timeout is not None and timeout >= 0:
            def eff_t():
                if self.holder is None:
                    self.holder = me
                    return True
                return False
            return vop("lock.acq_t", self, lambda: self.holder is None, eff_t, timed=True)
        return vop("lock.acq", self, lambda: self.holder is None, lambda: setattr(self, "holder", me) or True)

    def release(self):
        vop("lock.rel", self, _always, lambda: setattr(self, "holder", None))

    def __enter__(self):
        self.acquire()
        return self

    def __exit__(self, *a):
        self.release()


class SimRLock:
    def __init__(self):
        self.holder = None
        self.count = 0
        self.name = W.fresh("rlock") if W else "rlock?"

    def _owner(self):
        # a simulated process is a task; threads of one process are distinct tasks too (RLock is per thread)
        return W.cur

    def acquire(self, block=True, timeout=None):
        me = self._owner()

        def eff():
            self.holder = me
            self.count += 1
            return True
        return vop("rlock.acq", self, lambda: self.holder is None or self.holder is me, eff)

    def release(self):
        def eff():
            self.count -= 1
            if self.count == 0:
                self.holder = None
        vop("rlock.rel", self, _always, eff)

    def __enter__(self):
        self.acquire()
        return self

    def __exit__(self, *a):
        self.release()


def _through_pickle(x):
    import pickle
    try:
        return pickle.loads(pickle.dumps(x))
    except Exception:       # noqa - an object the harness cannot copy is passed as it is (the real queue would have raised later)
        return x


PIPE_CAP = [0]       # 0 = unbounded; k = a multiprocessing.Queue's pipe holds k items (models results larger than the pipe buffer)


class SimQueue:
    """Queue shim. With a pipe capacity (context / module-level multiprocessing.Queue only) it behaves like the real
    thing: put() hands the item to the producer's feeder, which moves it into the pipe when there is room; the item
    becomes visible to get() only then, and the producer process cannot exit while its feeder still holds items."""

    def __init__(self, maxsize=0, piped=False, copies=None, simple=False):
        # multiprocessing.SimpleQueue has no feeder thread: put() itself writes into the pipe and blocks while the pipe is full
        self.simple = simple
        # queues that cross process boundaries (manager / multiprocessing queues) deliver a pickled copy: the receiver never gets
        # the sender's object (identity is lost, later changes of the sender's object are not seen)
        self.copies = piped if copies is None else copies
        self.items = []
        self.maxsize = maxsize or 0
        self.name = W.fresh("q") if W else "q?"
        self.pipe_cap = PIPE_CAP[0] if piped else 0
        self.held = []               # (task, item) accepted by put() but still in the producer's feeder
        if W is not None and self.pipe_cap:
            W.piped.append(self)

    def _pump(self):
        while self.held and len(self.items) < self.pipe_cap:
            self.items.append(self.held.pop(0)[1])

    def holds_for(self, task):
        return any(t is task for t, _ in self.held)

    def _full(self):
        return self.maxsize > 0 and len(self.items) + len(self.held) >= self.maxsize

    def _add(self, x):
        if self.copies:
            x = _through_pickle(x)
        if self.pipe_cap and not self.simple:
            self.held.append((W.cur, x))
            self._pump()
        else:
            self.items.append(x)

    def put(self, x, block=True, timeout=None):
        if self.simple and self.pipe_cap:
            # SimpleQueue.put() writes into the pipe itself: the bytes become readable at once, but the call returns only when
            # they fit - with items as large as the pipe (PIPE_CAP = 1) only when the reader has taken them
            vop("q.put", self, _always, lambda: self._add(x), _tag(x))
            vop("q.put_done", self, lambda: len(self.items) <= self.pipe_cap - 1, lambda: None)
            return
        if block and timeout is None:
            vop("q.put", self, lambda: not self._full(), lambda: self._add(x), _tag(x))
            return

        def eff():
            if self._full():
                return _q.Full
            self._add(x)
        if block:       # put with a timeout: waits for room, the timeout fires only when nothing else can happen
            r = vop("q.put_t", self, lambda: not self._full(), eff, _tag(x), timed=True)
        else:
            r = vop("q.put_nb", self, _always, eff, _tag(x))
        if r is _q.Full:
            raise _q.Full()

    def put_nowait(self, x):
        self.put(x, block=False)

    def _take(self):
        x = self.items.pop(0)
        if self.pipe_cap:
            self._pump()
        return x

    def get(self, block=True, timeout=None):
        if block and timeout is None:
            return vop("q.get", self, lambda: len(self.items) > 0, self._take)

        def eff():
            if not self.items:
                return _q.Empty
            return self._take()
        if block:       # get with a timeout
            r = vop("q.get_t", self, lambda: len(self.items) > 0, eff, timed=True)
        else:
            r = vop("q.get_nb", self, _always, eff)
        if r is _q.Empty:
            raise _q.Empty()
        return r

    def get_nowait(self):
        return self.get(block=False)

    def qsize(self):
        return vop("q.qsize", self, _always, lambda: len(self.items))

    def empty(self):
        return vop("q.empty", self, _always, lambda: len(self.items) == 0)

    def full(self):
        return vop("q.full", self, _always, self._full)

    def close(self):
        pass

    def join_thread(self):
        pass

    def cancel_join_thread(self):
        pass


def _tag(x):
    if x is None:
        return None
    if isinstance(x, tuple) and x and isinstance(x[0], int):
        return x[0]
    if isinstance(x, (int, str)):
        return x
    return type(x).__name__


class SimSemaphore:
    def __init__(self, value=1):
        self.v = value
        self.name = W.fresh("sem") if W else "sem?"

    def acquire(self, blocking=True, timeout=None):
        if not blocking or timeout is not None:
            def eff():
                if self.v > 0:
                    self.v -= 1
                    return True
                return False
            if blocking:
                return vop("sem.acq_t", self, lambda: self.v > 0, eff, timed=True)
            return vop("sem.try", self, _always, eff)

        def take():
            self.v -= 1
            return True
        return vop("sem.acq", self, lambda: self.v > 0, take)

    def release(self, n=1):
        vop("sem.rel", self, _always, lambda: setattr(self, "v", self.v + n))

    def __enter__(self):
        self.acquire()
        return self

    def __exit__(self, *a):
        self.release()


class SimCondition:
    """threading.Condition over a (re-entrant) lock: wait releases the lock and parks until notified."""

    def __init__(self, lock=None):
        self.lock = lock or SimRLock()
        self.waiters = []
        self.name = W.fresh("cond") if W else "cond?"

    def acquire(self, *a, **k):
        return self.lock.acquire(*a, **k)

    def release(self):
        self.lock.release()

    def __enter__(self):
        self.lock.acquire()
        return self

    def __exit__(self, *a):
        self.lock.release()

    def wait(self, timeout=None):
        me = W.cur
        token = [False]
        self.waiters.append(token)
        depth = getattr(self.lock, "count", 1)
        for _ in range(depth if isinstance(self.lock, SimRLock) else 1):
            self.lock.release()
        if timeout is not None:
            r = vop("cond.wait_t", self, lambda: token[0], lambda: token[0], timed=True)
        else:
            r = vop("cond.wait", self, lambda: token[0], lambda: True)
        if token in self.waiters:
            self.waiters.remove(token)
        for _ in range(depth if isinstance(self.lock, SimRLock) else 1):
            self.lock.acquire()
        return r

    def wait_for(self, predicate, timeout=None):
        while not predicate():
            self.wait(timeout)
            if timeout is not None:
                break
        return predicate()

    def notify(self, n=1):
        def eff():
            for t in self.waiters[:n]:
                t[0] = True
            del self.waiters[:n]
        vop("cond.notify", self, _always, eff)

    def notify_all(self):
        self.notify(len(self.waiters) + 1)


class SimValue:
    def __init__(self, typecode=None, value=0, lock=True):
        self._v = value
        self.name = W.fresh("val") if W else "val?"

    @property
    def value(self):
        return vop("val.get", self, _always, lambda: self._v)

    @value.setter
    def value(self, v):
        vop("val.set", self, _always, lambda: setattr(self, "_v", v), v)

    def get_lock(self):
        if getattr(self, "_lock", None) is None:
            self._lock = SimRLock()
        return self._lock


class SimList:
    """Manager list proxy: every method call is one round trip to the manager, hence one visible operation."""

    def __init__(self, init=()):
        self._l = list(init)
        self.name = W.fresh("mlist") if W else "mlist?"

    def __len__(self):
        return vop("ml.len", self, _always, lambda: len(self._l))

    def __getitem__(self, i):
        def eff():
            try:
                return ("ok", copy.copy(self._l[i]) if isinstance(i, slice) else self._l[i])
            except IndexError as e:
                return ("err", e)
        k, v = vop("ml.get", self, _always, eff, i if isinstance(i, int) else "slice")
        if k == "err":
            raise v
        return v

    def __setitem__(self, i, v):
        def eff():
            try:
                self._l[i] = v
                return None
            except IndexError as e:
                return e
        r = vop("ml.set", self, _always, eff, i if isinstance(i, int) else "slice")
        if r is not None:
            raise r

    def append(self, v):
        vop("ml.append", self, _always, lambda: self._l.append(v))

    def extend(self, vs):
        vs = list(vs)
        vop("ml.extend", self, _always, lambda: self._l.extend(vs), len(vs))

    def remove(self, v):
        def eff():
            try:
                self._l.remove(v)
                return None
            except ValueError as e:
                return e
        r = vop("ml.remove", self, _always, eff)
        if r is not None:
            raise r

    def __contains__(self, v):
        return vop("ml.contains", self, _always, lambda: v in self._l)

    def _call(self, kind, fn, tag=None):
        """one round trip whose exception (if any) is raised in the caller, like a proxy method"""
        def eff():
            try:
                return ("ok", fn())
            except Exception as e:      # noqa
                return ("err", e)
        k, v = vop(kind, self, _always, eff, tag)
        if k == "err":
            raise v
        return v

    def __delitem__(self, i):
        self._call("ml.del", lambda: self._l.__delitem__(i), i if isinstance(i, int) else "slice")

    def pop(self, *a):
        return self._call("ml.pop", lambda: self._l.pop(*a))

    def insert(self, i, v):
        self._call("ml.insert", lambda: self._l.insert(i, v), i)

    def index(self, *a):
        return self._call("ml.index", lambda: self._l.index(*a))

    def count(self, v):
        return self._call("ml.count", lambda: self._l.count(v))

    def reverse(self):
        self._call("ml.reverse", lambda: self._l.reverse())

    def sort(self, *a, **k):
        self._call("ml.sort", lambda: self._l.sort(*a, **k))

    def __add__(self, other):
        return self._call("ml.add", lambda: self._l + list(other))

    def __mul__(self, n):
        return self._call("ml.mul", lambda: self._l * n)

    __rmul__ = __mul__

    def __reversed__(self):
        return iter(self._call("ml.reversed", lambda: list(reversed(self._l))))

    # no __iter__: like the real ListProxy, iteration falls back to __getitem__(0), (1), ... until IndexError


class VisList(list):
    """A plain list attribute of a shared object (e.g. the worker slot table): item reads / writes / iteration
    steps are visible operations because another thread may replace items meanwhile."""
    name = "slots"

    def __getitem__(self, i):
        return vop("slots.get", self, _always, lambda: list.__getitem__(self, i), i if isinstance(i, int) else "slice")

    def __setitem__(self, i, v):
        vop("slots.set", self, _always, lambda: list.__setitem__(self, i, v), i if isinstance(i, int) else "slice")

    def __len__(self):
        return list.__len__(self)

    def __iter__(self):
        i = 0
        while True:
            def eff(i=i):
                return ("ok", list.__getitem__(self, i)) if i < list.__len__(self) else ("end", None)
            k, v = vop("slots.iter", self, _always, eff, i)
            if k == "end":
                return
            yield v
            i += 1


class SimManager:
    def __init__(self):
        self.name = W.fresh("mgr") if W else "mgr?"

    def Queue(self, maxsize=0):
        return SimQueue(maxsize, copies=True)

    def list(self, init=()):
        return SimList(init)

    def Lock(self):
        return SimLock()

    def RLock(self):
        return SimRLock()

    def Event(self):
        return SimEvent()

    def Value(self, typecode, value):
        return SimValue(typecode, value)

    def start(self):
        pass

    def shutdown(self):
        pass

    def __enter__(self):
        return self

    def __exit__(self, *a):
        pass


class SimContext:
    def Manager(self):
        return SimManager()

    def Queue(self, maxsize=0):
        return SimQueue(maxsize, piped=True)

    def SimpleQueue(self):
        return SimQueue(0, piped=True, simple=True)

    def Lock(self):
        return SimLock()

    def RLock(self):
        return SimRLock()

    def Event(self):
        return SimEvent()

    def Value(self, typecode, value=0, lock=True):
        return SimValue(typecode, value)

    def Semaphore(self, value=1):
        return SimSemaphore(value)

    def Condition(self, lock=None):
        return SimCondition(lock)

    def JoinableQueue(self, maxsize=0):
        return SimQueue(maxsize, piped=True)

    def cpu_count(self):
        return CPU_COUNT[0]

    @property
    def Process(self):
        return SimProc


CPU_COUNT = [2]


def _holding(task):
    w = W
    return bool(w and any(q.holds_for(task) for q in w.piped))


def fork_copy(obj):
    """What a forked child sees: its own copy of the object's plain fields, the same shared primitives."""
    c = copy.copy(obj)
    for k, v in list(vars(c).items()):
        if type(v) in (list, dict, set):
            setattr_plain(c, k, copy.copy(v))
    return c


def setattr_plain(o, k, v):
    object.__setattr__(o, k, v)


class SimThread:
    def __init__(self, *a, target=None, args=(), kwargs=None, daemon=None, **k):
        self._task = None
        self._target, self._args, self._kwargs = target, args, kwargs or {}
        self.daemon = daemon
        self.name = (W.fresh("T") if W else "T?") + ":" + type(self).__name__

    def run(self):
        if self._target is not None:
            self._target(*self._args, **self._kwargs)

    def _body(self):
        return self.run

    def start(self):
        def eff():
            self._task = W.spawn(self.name, self._body())
        vop("start", self, _always, eff)

    def join(self, timeout=None):
        if timeout is not None:
            vop("join_t", self, lambda: self._task is not None and self._task.done and not _holding(self._task), lambda: None, timed=True)
            return
        vop("join", self, lambda: self._task is not None and self._task.done and not _holding(self._task), lambda: None)

    def is_alive(self):
        return vop("is_alive", self, _always, lambda: self._task is not None and not self._task.done)


class SimProcess(SimThread):
    """multiprocessing.process.BaseProcess: run() executes on a fork-like copy of the object."""

    def __init__(self, *a, **k):
        SimThread.__init__(self, *a, **k)
        self.name = (W.fresh("P") if W else "P?") + ":" + type(self).__name__

    def _body(self):
        child = fork_copy(self)
        return child.run

    @property
    def exitcode(self):
        t = self._task
        return vop("exitcode", self, _always, lambda: (None if t is None or not t.done or _holding(t) else (1 if t.exc else 0)))

    @property
    def pid(self):
        return self._task.index if self._task else None

    def terminate(self):
        pass

    def kill(self):
        pass

    def close(self):
        pass


class SimProc(SimProcess):
    pass


def make_shims():
    th = types.ModuleType("threading")
    th.Thread = SimThread
    th.Event = SimEvent
    th.Lock = SimLock
    th.RLock = SimRLock
    th.Semaphore = SimSemaphore
    th.BoundedSemaphore = SimSemaphore
    th.Condition = SimCondition
    th.current_thread = lambda: W.cur if W else None
    qm = types.ModuleType("queue")
    qm.Queue = SimQueue
    qm.SimpleQueue = lambda: SimQueue(0)
    qm.Empty = _q.Empty
    qm.Full = _q.Full
    mp = types.ModuleType("multiprocessing")
    ctx = SimContext()
    mp.Process = SimProc
    mp.get_context = lambda *a: ctx
    mp.cpu_count = lambda: CPU_COUNT[0]
    mp.Queue = lambda maxsize=0: SimQueue(maxsize, piped=True)
    mp.SimpleQueue = lambda: SimQueue(0, piped=True, simple=True)
    mp.Manager = SimManager
    mp.Value = SimValue
    mp.Lock = SimLock
    mp.RLock = SimRLock
    mp.Event = SimEvent
    mp.Semaphore = SimSemaphore
    mp.BoundedSemaphore = SimSemaphore
    mp.Condition = SimCondition
    mp.JoinableQueue = lambda maxsize=0: SimQueue(maxsize, piped=True)
    mp.current_process = lambda: W.cur if W else None
    mp.Array = lambda *a, **k: (_ for _ in ()).throw(NotImplementedError("Array is not offered by the shims"))
    mctx = types.ModuleType("multiprocessing.context")
    mctx.BaseContext = SimContext
    mctx.Process = SimProc
    mproc = types.ModuleType("multiprocessing.process")
    mproc.BaseProcess = SimProcess
    mp.context = mctx
    mp.process = mproc
    return {"threading": th, "multiprocessing": mp, "multiprocessing.context": mctx, "multiprocessing.process": mproc, "queue": qm}


def load(path, modname, extra_modules=None, inject=None):
    """Execute the source at `path` in a fresh module with the shims in place of the stdlib modules."""
    shims = make_shims()
    shims.update(extra_modules or {})
    saved = {k: sys.modules.get(k) for k in shims}
    sys.modules.update(shims)
    try:
        mod = types.ModuleType(modname)
        mod.__file__ = path
        mod.__dict__.update(inject or {})
        with open(path) as fh:
            src = fh.read()
        exec(compile(src, path, "exec"), mod.__dict__)
    finally:
        for k, v in saved.items():
            if v is None:
                sys.modules.pop(k, None)
            else:
                sys.modules[k] = v
    return mod


def instrument(cls, role="pool"):
    """Subclass whose instance attributes become visible operations: every write after construction, and
    every read of a name that is (learned to be) written after construction; plain-list attributes are
    wrapped in VisList when construction ends (see `constructed`)."""
    class Inst(cls):
        name = role

        def __getattribute__(self, name):
            w = W
            if w is None or w.cur is None or name.startswith("__") or not w.constructed:
                return object.__getattribute__(self, name)
            if name in w.shared_names:
                d = object.__getattribute__(self, "__dict__")
                if name in d:
                    return vop("rd", self, _always, lambda: d[name], name)
            return object.__getattribute__(self, name)

        def __setattr__(self, name, value):
            w = W
            if w is not None and w.cur is not None and w.constructed:
                if w.learn:
                    w.learned.add(name)
                if name in w.shared_names:
                    vop("wr", self, _always, lambda: object.__setattr__(self, name, value), name)
                    return
            object.__setattr__(self, name, value)
    Inst.__name__ = cls.__name__
    Inst.__qualname__ = cls.__qualname__
    return Inst


def constructed(obj):
    """Mark the end of construction of the shared object: wrap its plain lists, start watching attributes."""
    for k, v in list(vars(obj).items()):
        if type(v) is list:
            object.__setattr__(obj, k, VisList(v))
    W.constructed = True


# ---------------------------------------------------------------------------------------- choosers
def random_chooser(rnd):
    def choose(en, world, last):
        return rnd.choice(en)
    return choose


def pct_chooser(rnd, depth, est_len):
    """PCT-style: random task priorities, lowered at `depth` random change points."""
    prio = {}
    points = sorted(rnd.randrange(1, max(2, est_len)) for _ in range(depth))
    state = {"step": 0, "low": 0}

    def choose(en, world, last):
        state["step"] += 1
        for t in en:
            if t.name not in prio:
                prio[t.name] = rnd.random() + 1.0
        best = max(en, key=lambda t: prio[t.name])
        if points and state["step"] >= points[0]:
            points.pop(0)
            state["low"] -= 1
            prio[best.name] = state["low"]
            best = max(en, key=lambda t: prio[t.name])
        return best
    return choose


def scripted_chooser(script, fallback=None):
    """Follow a list of task names; afterwards (or when the named task is not enabled) use the default policy:
    keep running the last task if it is enabled, else the enabled task with the lowest index."""
    pos = [0]

    def choose(en, world, last):
        if pos[0] < len(script):
            name = script[pos[0]]
            pos[0] += 1
            for t in en:
                if t.name == name:
                    return t
            world.script_diverged = getattr(world, "script_diverged", None) or (pos[0] - 1, name, [t.name for t in en])
        if fallback is not None:
            return fallback(en, world, last)
        if last in en:
            return last
        return min(en, key=lambda t: t.index)
    return choose


# ---------------------------------------------------------------------------------------- files (storage shim)
class SimFile:
    """A file of the in-memory file system of a world. Text is UTF-8. A flush of buffered text reaches the
    file in two OS writes with a scheduling point in between, so that a partially written line is a state
    other tasks can observe."""

    def __init__(self, path, mode):
        self.path, self.mode = path, mode
        self.name = "file:" + str(path).rsplit("/", 1)[-1]
        self.buf = ""
        self.pos = 0
        self.closed = False
        w = W
        # a handle refers to the file (inode) it was opened on, not to the path: after remove + re-create an old handle
        # still sees the old content
        self.data = None
        if "w" in mode:
            def create():
                w.fs[path] = bytearray()
                self.data = w.fs[path]
            vop("file.create", self, _always, create)
        elif "a" in mode:
            def open_a():
                self.data = w.fs.setdefault(path, bytearray())
            vop("file.open_a", self, _always, open_a)
        else:
            def eff():
                if path not in w.fs:
                    return FileNotFoundError(path)
                self.data = w.fs[path]
                return None
            r = vop("file.open_r", self, _always, eff)
            if r is not None:
                raise r

    def write(self, s):
        self.buf += s
        return len(s)

    def flush(self):
        if not self.buf or "r" in self.mode:
            return
        data = self.buf.encode("utf-8")
        self.buf = ""
        w = W
        cut = max(1, len(data) // 2)
        vop("file.write", self, _always, lambda: self.data.extend(data[:cut]), "part1")
        if data[cut:]:
            vop("file.write", self, _always, lambda: self.data.extend(data[cut:]), "part2")

    def tell(self):
        if "r" in self.mode:
            return self.pos
        return vop("file.tell", self, _always, lambda: len(self.data) + len(self.buf.encode("utf-8")))

    def seek(self, off, whence=0):
        if whence == 1:
            off = self.pos + off
        elif whence == 2:
            off = len(bytes(self.data)) + off
        self.pos = off
        return off

    def readline(self):
        w = W

        def eff():
            data = bytes(self.data)
            end = data.find(b"\n", self.pos)
            chunk = data[self.pos:] if end < 0 else data[self.pos:end + 1]
            self.pos += len(chunk)
            return chunk.decode("utf-8", errors="replace")
        return vop("file.readline", self, _always, eff)

    def read(self):
        w = W

        def eff():
            data = bytes(self.data)[self.pos:]
            self.pos += len(data)
            return data.decode("utf-8", errors="replace")
        return vop("file.read", self, _always, eff)

    def close(self):
        if not self.closed:
            self.flush()
            self.closed = True

    def __enter__(self):
        return self

    def __exit__(self, *a):
        self.close()


def sim_open(path, mode="r", *a, **k):
    return SimFile(path, mode)


def make_os_shim():
    import os as real_os
    m = types.ModuleType("os")
    m.path = real_os.path
    m.sep = real_os.sep
    m.linesep = real_os.linesep

    def remove(path):
        w = W

        def eff():
            if path not in w.fs:
                return FileNotFoundError(path)
            del w.fs[path]
            return None
        r = vop("os.remove", types.SimpleNamespace(name="fs"), _always, eff, str(path).rsplit("/", 1)[-1])
        if r is not None:
            raise r
    m.remove = remove
    m.unlink = remove
    m.getpid = lambda: (W.cur.index + 1000) if W and W.cur else real_os.getpid()
    m.listdir = lambda d: sorted(p.rsplit("/", 1)[-1] for p in W.fs if p.rsplit("/", 1)[0] == d.rstrip("/"))
    m.cpu_count = lambda: CPU_COUNT[0]
    # everything that does not touch the file system or processes is the real thing (a module imported by the code under
    # test may need it); file-system and process functions that are not shimmed stay unknown, so that the harness degrades
    # instead of silently working on the real disk
    harmless = {"name", "fspath", "PathLike", "environ", "error", "strerror", "urandom", "curdir", "pardir", "extsep", "altsep",
                "pathsep", "devnull", "fsencode", "fsdecode", "get_terminal_size", "getenv", "SEEK_SET", "SEEK_CUR", "SEEK_END",
                "getcwd", "times", "uname", "getppid"}

    def fallback(name):
        if name in harmless or (name.startswith(("O_", "F_", "EX_", "P_")) and name.isupper()):
            return getattr(real_os, name)
        raise AttributeError("module 'os' (verification shim) has no attribute %r" % name)
    m.__getattr__ = fallback
    return m


def make_io_shim():
    """`io` with open() on the in-memory file system; the in-memory classes are the real ones."""
    import io as real_io
    m = types.ModuleType("io")
    m.open = sim_open
    for name in ("StringIO", "BytesIO", "SEEK_SET", "SEEK_CUR", "SEEK_END", "DEFAULT_BUFFER_SIZE", "UnsupportedOperation", "IOBase",
                 "TextIOBase", "BufferedIOBase", "RawIOBase", "TextIOWrapper", "BufferedReader", "BufferedWriter"):
        setattr(m, name, getattr(real_io, name))
    return m


def role_chooser(script, fallback=None):
    """Follow a list of roles: "main", ("worker", i) = the i-th process task created, ("feeder", c) = the c-th
    SendWorkThread task, ("thread", substring, c). Divergence (the role's task does not exist or is not enabled) is
    recorded in world.script_diverged and the default policy takes over."""
    pos = [0]

    def resolve(role, world):
        if role == "main":
            cands = [t for t in world.tasks if t.name == "main"]
            return cands[0] if cands else None
        kind, idx = role[0], role[-1]
        if kind == "worker":
            cands = [t for t in world.tasks if t.name.startswith("P")]
        elif kind == "feeder":
            cands = [t for t in world.tasks if "SendWorkThread" in t.name]
        else:
            cands = [t for t in world.tasks if role[1] in t.name]
        return cands[idx - 1] if 0 < idx <= len(cands) else None

    def choose(en, world, last):
        if pos[0] < len(script) and not getattr(world, "script_diverged", None):
            role = script[pos[0]]
            pos[0] += 1
            t = resolve(role, world)
            if t is not None and t in en:
                world.script_followed = pos[0]
                return t
            world.script_diverged = (pos[0] - 1, role, [x.name for x in en])
        if fallback is not None:
            return fallback(en, world, last)
        if last in en:
            return last
        return min(en, key=lambda t: t.index)
    return choose
