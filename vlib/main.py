"""./check <id> --tier quick|thorough [--replay file]"""
import argparse
import importlib
import os
import shutil
import sys
import traceback

sys.path.insert(0, os.path.dirname(os.path.dirname(os.path.abspath(__file__))))
sys.path.insert(0, os.environ.get("VERIF_REPO") or "/repo")
sys.dont_write_bytecode = True

from vlib import tlc            # noqa: E402
from vlib.ctx import Ctx        # noqa: E402

LEVELS = {"C10": "exploration", "C16": "exploration", "C17": "exploration", "C19": "exploration"}


def main():
    ap = argparse.ArgumentParser()
    ap.add_argument("pid")
    ap.add_argument("--tier", default=os.environ.get("VERIF_TIER", "quick"))
    ap.add_argument("--replay")
    args = ap.parse_args()
    tier = args.tier if args.tier in ("quick", "thorough") else "quick"
    seed = int(os.environ.get("VERIF_SEED", "0") or 0)
    ctx = Ctx(args.pid, tier, seed, LEVELS.get(args.pid, "model_checking"))
    try:
        mod = importlib.import_module("adapters." + args.pid)
        if args.replay:
            rc = mod.replay(ctx, args.replay)
            sys.exit(rc)
        mod.run(ctx)
        rc = ctx.finish()
    except tlc.MachineryError as e:
        print("MACHINERY-FAILURE: %s" % e, file=sys.stderr, flush=True)
        ctx.note("machinery failure: %s" % e)
        try:
            ctx.write_evidence()
        except Exception:
            pass
        rc = 2
    except Exception:
        traceback.print_exc()
        print("MACHINERY-FAILURE: harness exception", file=sys.stderr, flush=True)
        rc = 2
    sys.exit(rc)


if __name__ == "__main__":
    main()
