"""./check <id> --tier quick|thorough [--replay file]"""
import argparse
import importlib
import os
import shutil
import sys
import traceback

sys.path.insert(0, os.path.dirname(os.path.dirname(os.path.abspath(__file__))))
sys.path.insert(0, os.environ.get("VERIF_REPO") or "/repo")
sys.dont_write_bytecode = True

from vlib import tlc            # noqa: E402
from vlib.ctx import Ctx        # noqa: E402

LEVELS = {"C10": "exploration", "C16": "exploration", "C17": "exploration", "C19": "exploration"}


def main():
    ap = argparse.ArgumentParser()
    ap.add_argument("pid")
    ap.add_argument("--tier", default=os.environ.get("VERIF_TIER", "quick"))
    ap.add_argument("--replay")
    args = ap.parse_args()
    tier = args.tier if args.tier in ("quick", "thorough") else "quick"
    seed = int(os.environ.get("VERIF_SEED", "0") or 0)
    recorded = None
    if args.replay:
        # re-run what a VIOLATION line pointed to: the file records the property, tier, seed, the violation's signature and an
        # engine-specific witness (schedule, operation path, input)
        import json
        with open(args.replay) as fh:
            recorded = json.load(fh)
        tier, seed = recorded.get("tier", tier), int(recorded.get("seed", seed))
        os.environ["VERIF_CHILD_CTX"] = "1"       # keep the replay files of the run that is being replayed
    ctx = Ctx(args.pid, tier, seed, LEVELS.get(args.pid, "model_checking"))
    try:
        mod = importlib.import_module("adapters." + args.pid)
        if recorded is not None:
            sys.exit(replay(ctx, mod, recorded))
        mod.run(ctx)
        rc = ctx.finish()
    except tlc.MachineryError as e:
        print("MACHINERY-FAILURE: %s" % e, file=sys.stderr, flush=True)
        ctx.note("machinery failure: %s" % e)
        try:
            ctx.write_evidence()
        except Exception:
            pass
        rc = 2
    except Exception:
        traceback.print_exc()
        print("MACHINERY-FAILURE: harness exception", file=sys.stderr, flush=True)
        rc = 2
    sys.exit(rc)


def replay(ctx, mod, recorded):
    """exit 1 (with a VIOLATION line) when the recorded violation occurs again on the current tree, 0 when it does not."""
    ctx.replay_prefix = "replay_"
    sig = recorded.get("signature")
    print("[%s] replaying: %s" % (ctx.pid, str(recorded.get("description", ""))[:400]), flush=True)
    witness = recorded.get("replay") or {}
    precise = getattr(mod, "replay_witness", None)
    if precise is not None and witness.get("engine") == "simworld":
        # the exact execution: the recorded scenario under the recorded schedule, judged by the observer specification again
        verdict = precise(ctx, witness)
        if verdict is not None:
            print("[%s] replay of the recorded schedule: %s" % (ctx.pid, "rejected again" if verdict else "accepted now"), flush=True)
            if verdict:
                return 1 if ctx.violations else 0
    # the whole check with the recorded tier and seed (the checks are deterministic for a given seed); reproduced iff a violation
    # with the same signature is reported again
    mod.run(ctx)
    ctx.write_evidence()
    same = [v for v in ctx.violations if v.get("signature") == sig]
    if same:
        print("[%s] replay: the recorded violation occurred again (%d violation(s) in this run)" % (ctx.pid, len(ctx.violations)), flush=True)
        return 1
    if ctx.violations:
        print("[%s] replay: the recorded violation did not occur again, but %d other violation(s) did" % (ctx.pid, len(ctx.violations)), flush=True)
        return 1
    print("[%s] replay: the recorded violation did not occur again" % ctx.pid, flush=True)
    return 0


if __name__ == "__main__":
    main()
