"""Parse every specification with SANY (setup-time sanity check)."""
import os
import sys
from concurrent.futures import ThreadPoolExecutor

from . import tlc


def main():
    mods = []
    for root, _, files in os.walk(tlc.SPECS):
        for f in sorted(files):
            if f.endswith(".tla"):
                mods.append(os.path.join(root, f))
    bad = 0
    with ThreadPoolExecutor(8) as ex:
        for path, (ok, out) in zip(mods, ex.map(tlc.sany, mods)):
            if not ok:
                bad += 1
                print("SANY failed for", path)
                print(out[-2000:])
    print("parsed %d modules, %d failed" % (len(mods), bad))
    sys.exit(1 if bad else 0)


if __name__ == "__main__":
    main()
