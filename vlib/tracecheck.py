"""Batch trace validation (DESIGN.md section 2.2 use 3): executions recorded from the real code are
accepted or rejected by TLC against the specification, thousands per JVM start.

A trace is a list of events {"op": operation record, "ret": result, "st": observation after the call}
(optionally "hs": 0 = no observation was taken after this call, "st" is then ignored).
The trace module is generated from a template; it re-uses the specification's own `Init`, `Apply`
and `Obs`, so the trace is accepted iff it is a behaviour of the specification.
"""
import copy
import json
import os

from . import tlc
from .graphwalk import canon

TEMPLATE = r"""
---------------------------- MODULE %(tmod)s ----------------------------
EXTENDS %(mod)s, IOUtils
VARIABLES tid, l
Traces == JsonDeserialize("traces.json")
T == Traces[tid]
E == T[l]
TInit == Init /\ tid \in 1..Len(Traces) /\ l = 1
\* an event recorded without an observation (hs = 0: observing would itself call the object and could hide what the
\* history left behind) constrains the operation and its result only; the state in between is inferred by TLC
HasSt(e) == IF "hs" \in DOMAIN e THEN e.hs = 1 ELSE TRUE
TStep == /\ l <= Len(T) /\ l' = l + 1 /\ UNCHANGED tid
         /\ Apply(E.op) /\ last'.ret = E.ret /\ (HasSt(E) => Obs' = E.st)
TSpec == TInit /\ [][TStep]_<<vars, last, tid, l>>
ASSUME \A i \in 1..Len(Traces) : TLCSet(i, 0)
Progress == TLCSet(tid, IF TLCGet(tid) < l THEN l ELSE TLCGet(tid))
Accepted == \A i \in 1..Len(Traces) : PrintT(<<"RESULT", i, TLCGet(i) - 1, Len(Traces[i])>>)
=============================================================================
"""


BATCH = 20000


def validate(module_file, constants_cfg, traces, ctx, name, timeout=300, dfs=False, extra_cfg=""):
    """Return a list of (matched_events, total_events) per trace. Large sets are validated in batches, several JVMs at a time."""
    if not traces:
        return []
    if len(traces) > BATCH:
        from concurrent.futures import ThreadPoolExecutor
        chunks = [traces[i:i + BATCH] for i in range(0, len(traces), BATCH)]
        with ThreadPoolExecutor(max_workers=6) as ex:
            parts = list(ex.map(lambda c: validate(module_file, constants_cfg, c, ctx, name, timeout=max(timeout, 900), dfs=dfs,
                                                   extra_cfg=extra_cfg), chunks))
        return [v for part in parts for v in part]
    mod = os.path.splitext(os.path.basename(module_file))[0]
    tmod = "Trace_" + mod
    text = TEMPLATE % {"mod": mod, "tmod": tmod}
    cfg = "SPECIFICATION TSpec\nCONSTANTS\n%s\nCONSTRAINT Progress\nPOSTCONDITION Accepted\nCHECK_DEADLOCK FALSE\n%s" % (
        constants_cfg, extra_cfg)
    results = {}

    def on_print(tag, payload):
        if tag == "RESULT":
            parts = [p.strip() for p in payload.split(",")]
            results[int(parts[0])] = (int(parts[1]), int(parts[2]))

    res = tlc.run(module_file, cfg, tag="trace_" + name, workers=1, timeout=timeout, dfs=dfs,
                  extra_text={tmod + ".tla": text, "traces.json": json.dumps(traces)},
                  module_name=tmod, print_tags=("RESULT",), on_print=on_print)
    ctx.add_tlc("trace:" + name, res, count=True)
    if len(results) != len(traces):
        raise tlc.MachineryError("trace validation %s: TLC did not report a verdict for every trace (%d of %d): %s" % (
            name, len(results), len(traces), res.errors[:3]))
    return [results[i + 1] for i in range(len(traces))]


def corrupt(traces, mutator_ops, limit=6):
    """Type-preserving corruptions for the binding self-test: copies of recorded traces in which ONE state-changing event reports
    the state before it. Several candidates (different events): where the specification leaves a choice (e.g. a flag it does not
    fix after a failed operation) a single candidate could happen to be legal too."""
    out = []
    for t in traces:
        for i in range(1, len(t)):
            if t[i].get("hs", 1) == 0 or t[i - 1].get("hs", 1) == 0:
                continue
            if t[i]["op"].get("op") in mutator_ops and canon(t[i]["st"]) != canon(t[i - 1]["st"]):
                bad = copy.deepcopy(t)
                bad[i]["st"] = bad[i - 1]["st"]
                out.append((bad, i))
                if len(out) >= limit:
                    return out
                break           # at most one candidate per trace: spread them over different histories
    return out


def check_traces(module_file, constants_cfg, traces, ctx, name, mutator_ops, sig_fn=None, dfs=False, timeout=300,
                 extra_cfg=""):
    """Validate recorded traces; report rejections as violations; run the corruption self-test."""
    verdicts = validate(module_file, constants_cfg, traces, ctx, name, timeout=timeout, dfs=dfs, extra_cfg=extra_cfg)
    rejected = 0
    for i, (matched, total) in enumerate(verdicts):
        ctx.traces += 1
        ctx.case(("trace", name, i, canon(traces[i][:6])))
        if matched != total:
            rejected += 1
            ev = traces[i][matched] if matched < total else None
            sig = {"kind": "trace", "spec": name, "op": ev and ev["op"].get("op")}
            if sig_fn and ev is not None:
                prev = traces[i][matched - 1]["st"] if matched > 0 else None
                sig.update(sig_fn(prev, ev["op"], ev["ret"], ev["st"]))
            desc = "%s: recorded execution %d is not a behaviour of the specification: %d of %d events matched; " \
                   "first unmatched event %s (state before: %s)" % (
                       name, i, matched, total, json.dumps(ev), json.dumps(traces[i][matched - 1]["st"]) if matched else "initial")
            ctx.violation(sig, desc, {"engine": "tracecheck", "spec": name, "trace": traces[i][:matched + 1]})
    # binding self-test: corrupted copies of recorded traces must be rejected (at least one of the candidates)
    cands = corrupt(traces, mutator_ops)
    if cands:
        v = validate(module_file, constants_cfg, [c[0] for c in cands], ctx, name + "_selftest", timeout=timeout, dfs=dfs, extra_cfg=extra_cfg)
        ctx.tlc_runs[-1]["selftest"] = True
        rejected_c = sum(1 for m, t in v if m != t)
        if rejected_c == 0 and verdicts and not rejected:
            bad, at = cands[0]
            raise tlc.MachineryError("%s: binding self-test failed, %d corrupted traces were all accepted, e.g. event %d: %s" % (
                name, len(cands), at, json.dumps(bad[max(0, at - 1):at + 1])[:1500]))
        ctx.extra.setdefault("selftests", []).append({"spec": name, "corrupted_traces": len(cands), "rejected": rejected_c})
    ctx.extra.setdefault("trace_batches", []).append(
        {"spec": name, "traces": len(traces), "events": sum(len(t) for t in traces), "rejected": rejected})
    if traces:
        ctx.sample({"trace": name, "events": traces[0][:5]})
    return verdicts
