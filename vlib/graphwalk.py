"""Graph walk (DESIGN.md section 2.3): TLC's complete bounded transition relation vs. the real object.

TLC emits one line per transition: source state (observable part `o`, hidden part `h`), label
(operation record + result) and target state.  The walk drives a fresh real object to every state
the code can reach and applies every operation the spec enables there; the (result, observation)
pair the code produces must be one the spec allows from some candidate spec state.
"""
import collections
import json
import resource
import signal

from . import tlc


def canon(x):
    return json.dumps(x, sort_keys=True, separators=(",", ":"))


class Timeout(Exception):
    pass


class Unexpected(Exception):
    """The code raised something the adapter does not map to a result."""


class Skip(Exception):
    """The operation does not apply to this variant of the code (e.g. memory-mapping an empty file): not judged."""


def wrap(fn):
    """Decorator for adapter.apply: any exception the adapter did not map to a result is Unexpected."""
    def inner(self, w, op):
        try:
            r = fn(self, w, op)
        except (Timeout, Unexpected, Skip, tlc.MachineryError):
            raise
        except Exception as e:
            raise Unexpected("%s raised %s: %s" % (op["op"], type(e).__name__, str(e)[:80]))
        if r is None:
            raise tlc.MachineryError("adapter: unknown op %r" % (op,))
        return r
    return inner


MEMORY_HEADROOM = 2 << 30       # an operation of the code under test may allocate this much before it is stopped


def _address_space():
    try:
        with open("/proc/self/statm") as fh:
            return int(fh.read().split()[0]) * resource.getpagesize()
    except Exception:       # noqa
        return None


def guarded(fn, seconds=2.0):
    """Run one operation of the code under test under a time limit and a memory limit: a non-terminating operation is a Timeout
    (a result the specification does not know), and one that allocates without bound (e.g. list() of an iteration that never ends)
    gets a MemoryError instead of taking the whole check down."""
    def h(*a):
        raise Timeout()
    old = signal.signal(signal.SIGALRM, h)
    soft, hard = resource.getrlimit(resource.RLIMIT_AS)
    cur = _address_space()
    limited = False
    if cur is not None:
        want = cur + MEMORY_HEADROOM
        if hard == resource.RLIM_INFINITY or want <= hard:
            try:
                resource.setrlimit(resource.RLIMIT_AS, (want, hard))
                limited = True
            except (ValueError, OSError):
                pass
    signal.setitimer(signal.ITIMER_REAL, seconds)
    try:
        try:
            return fn()
        except MemoryError:
            raise Timeout()         # unbounded allocation: the operation does not come to an end
    finally:
        signal.setitimer(signal.ITIMER_REAL, 0)
        signal.signal(signal.SIGALRM, old)
        if limited:
            try:
                resource.setrlimit(resource.RLIMIT_AS, (soft, hard))
            except (ValueError, OSError):
                pass


def safe_obs(adapter, w):
    """Observation through the public API; an exception there is a result the specification does not know."""
    try:
        return adapter.obs(w)
    except (Timeout, Unexpected, tlc.MachineryError):
        raise
    except Exception as e:
        raise Unexpected("observing the state raised %s: %s" % (type(e).__name__, str(e)[:80]))


class Graph:
    def __init__(self):
        self.edges = collections.defaultdict(set)   # (obs, hid, op) -> [(ret, tobs, thid)]
        self.ops_at = collections.defaultdict(dict)  # obs -> {op_canon: op}
        self.init = None
        self.n_edges = 0
        self.states = set()
        self.sources = set()

    def add(self, e):
        so, sh = canon(e["s"]["o"]), canon(e["s"]["h"])
        to, th = canon(e["t"]["o"]), canon(e["t"]["h"])
        op = canon(e["l"]["op"])
        if self.init is None:
            self.init = (so, sh)
        self.edges[(so, sh, op)].add((canon(e["l"]["ret"]), to, th))
        self.ops_at[so][op] = e["l"]["op"]
        self.n_edges += 1
        self.states.add((so, sh))
        self.sources.add((so, sh))
        self.states.add((to, th))


def emit_graph(module_file, cfg_text, ctx, name, timeout=1200, injective=True):
    """Run the *_emit configuration (workers 1: PrintT lines must not interleave) and build the graph."""
    g = Graph()

    def on_print(tag, payload):
        if tag == "EDGE":
            g.add(tlc.decode_json_print(payload))

    res = tlc.run(module_file, cfg_text, tag="emit_" + name, workers=1, on_print=on_print, timeout=timeout)
    ctx.add_tlc("emit:" + name, res)
    if not res.ok:
        raise tlc.MachineryError("edge emission for %s failed: %s %s" % (name, res.violated, res.errors[:3]))
    if g.n_edges == 0:
        raise tlc.MachineryError("edge emission for %s produced no edges" % name)
    if injective and len(g.states) != res.distinct:
        raise tlc.MachineryError("%s: the projection (Obs, Hid) is not injective on the reachable states (%d projected, %d states)"
                                 % (name, len(g.states), res.distinct))
    return g, res


def walk(g, adapter, ctx, name, max_nodes=200000, op_timeout=2.0, sig_fn=None, report_limit=40, paths_per_state=1, history_ops=()):
    """Breadth-first walk of the real code over graph `g`.

    adapter.new_world() -> world ; adapter.apply(world, op) -> JSON-able result ; adapter.obs(world) -> JSON-able
    adapter.close(world) optional.  `paths_per_state` > 1 drives the code into each abstract state along several
    different operation paths (the implementation may keep history the abstract state does not have, e.g. the
    arrival order inside a dict) and applies every operation after each of them.
    Returns statistics; violations go to ctx.violation.
    """
    init_obs, init_hid = g.init
    start = (init_obs, frozenset([init_hid]))
    paths = {start: [[]]}
    queue = collections.deque([(start, 0)])
    checked = 0
    spec_states_hit = set()
    spec_edges_hit = 0
    reported = 0
    frontier = 0
    skipped = 0
    nondet = 0
    closer = getattr(adapter, "close", None)

    def run_path(path, op):
        w = adapter.new_world()
        try:
            for p in path:
                adapter.apply(w, p)
            pre = canon(safe_obs(adapter, w))
            ret = adapter.apply(w, op) if op is not None else None
            post = canon(safe_obs(adapter, w))
            return pre, canon(ret), post
        finally:
            if closer:
                closer(w)

    while queue:
        node, pidx = queue.popleft()
        obs, hids = node
        for h in hids:
            spec_states_hit.add((obs, h))
        path = paths[node][pidx]
        if any((obs, h) not in g.sources for h in hids):
            # a candidate lies beyond the bound of the exhaustive model (TLC did not expand it): nothing can be
            # judged from here without risking a false alarm
            if pidx == 0:
                frontier += 1
            continue
        for opc in sorted(g.ops_at[obs]):
            # enabled in at least one candidate?
            if not any((obs, h, opc) in g.edges for h in hids):
                continue
            op = g.ops_at[obs][opc]
            try:
                pre, ret, post = guarded(lambda: run_path(path, op), op_timeout * (len(path) + 1))
            except Timeout:
                pre, ret, post = obs, canon({"exc": "Timeout(non-terminating)"}), None
            except Unexpected as e:
                pre, ret, post = obs, canon({"exc": str(e)}), None
            except Skip:
                skipped += 1
                continue
            checked += 1
            ctx.case((obs, opc, pidx))
            if pre != obs:
                # a fresh object driven along a path that was verified before is now in another state: either the specification
                # leaves a choice here (then nothing can be judged along this path), or the state is one the specification does
                # not allow after this sequence - the behaviour of an object depends on something outside it (other instances,
                # module-level state)
                states, known = {(init_obs, init_hid)}, True
                for pop in path:
                    pc = canon(pop)
                    if any(st not in g.sources for st in states):
                        known = False
                        break
                    states = {(to, th) for st in states for (_r, to, th) in g.edges.get((st[0], st[1], pc), ())}
                if known and pre not in {st[0] for st in states}:
                    desc = ("%s: a fresh object driven through %s is in state %s; the specification allows only %s after this sequence "
                            "(the same sequence gave %s before: the behaviour depends on something outside the object)" % (
                                name, json.dumps(path), pre, json.dumps(sorted({st[0] for st in states})[:4]), obs))
                    sig = {"kind": "walk", "spec": name, "op": "fresh-object-replay"}
                    if ctx.violation(sig, desc, {"engine": "graphwalk", "spec": name, "path": path, "op": None,
                                                 "observed": {"state": json.loads(pre)}, "allowed": sorted({st[0] for st in states})[:8]}):
                        reported += 1
                    if reported >= report_limit:
                        return {"checked": checked, "nodes": len(paths), "aborted": True}
                else:
                    nondet += 1
                break       # nothing more can be judged from this node along this path
            succ = set()
            allowed = []
            for h in hids:
                for (r, to, th) in g.edges.get((obs, h, opc), ()):
                    allowed.append((r, to))
                    if r == ret and to == post:
                        succ.add(th)
                        spec_edges_hit += 1
            if not succ:
                sig = {"kind": "walk", "spec": name, "op": op.get("op")}
                if sig_fn:
                    sig.update(sig_fn(json.loads(obs), op, json.loads(ret), post and json.loads(post)))
                desc = "%s: after %s the operation %s gave result %s and state %s; the specification allows only %s" % (
                    name, json.dumps(path), json.dumps(op), ret, post, json.dumps(sorted(set(allowed))[:4]))
                if ctx.violation(sig, desc, {"engine": "graphwalk", "spec": name, "path": path, "op": op,
                                             "observed": {"ret": json.loads(ret), "state": post and json.loads(post)},
                                             "allowed": sorted(set(allowed))[:8]}):
                    reported += 1
                if reported >= report_limit:
                    ctx.note("%s: stopping walk after %d violations" % (name, reported))
                    return {"checked": checked, "nodes": len(paths), "aborted": True}
                continue
            nxt = (post, frozenset(succ))
            if nxt not in paths:
                if len(paths) < max_nodes:
                    paths[nxt] = [path + [op]]
                    queue.append((nxt, 0))
            elif len(paths[nxt]) < paths_per_state and (nxt != node or op.get("op") in history_ops) \
                    and len(path) < 12 and (path + [op]) not in paths[nxt]:
                # another way into the same abstract state; operations named in history_ops (flush, clear, ...) count even
                # when they lead back to the state they started from: the implementation may remember that they happened
                paths[nxt].append(path + [op])
                queue.append((nxt, len(paths[nxt]) - 1))
    stats = {"spec": name, "spec_states": len(g.states), "spec_edges": g.n_edges, "code_nodes": len(paths),
             "paths_driven": sum(len(v) for v in paths.values()),
             "pairs_checked": checked, "spec_states_reached_by_code": len(spec_states_hit),
             "spec_edges_taken_by_code": spec_edges_hit, "frontier_nodes_not_expanded": frontier, "skipped_not_applicable": skipped,
             "replays_where_the_spec_left_a_choice": nondet}
    ctx.extra.setdefault("walks", []).append(stats)
    ctx.traces += checked
    if len(ctx.samples) < 4 and paths:
        longest = max((p for v in paths.values() for p in v), key=len)
        ctx.sample({"walk": name, "path": longest})
    return stats
