"""Run independent walks in forked child processes and merge what they found into the parent's context."""
import multiprocessing
import os

from . import graphwalk
from .ctx import Ctx

_JOBS = []


def _run(i):
    g, adapter, name, kw, pid, tier, seed, level = _JOBS[i]
    sub = Ctx(pid, tier, seed, level)
    sub.quiet = True
    try:
        stats = graphwalk.walk(g, adapter, sub, name, **kw)
        err = None
    except Exception as e:          # machinery errors travel as text
        stats, err = None, "%s: %s" % (type(e).__name__, e)
    return {"stats": stats, "err": err, "pending": sub.pending, "traces": sub.traces, "evaluations": sub.evaluations,
            "distinct": list(sub.distinct)[:200000], "samples": sub.samples, "walks": sub.extra.get("walks", [])}


def walks(ctx, jobs, procs=None):
    """jobs: list of (graph, adapter, name, kwargs). Violations are reported by the parent in job order."""
    global _JOBS
    _JOBS = [(g, a, n, kw, ctx.pid, ctx.tier, ctx.seed, ctx.level) for (g, a, n, kw) in jobs]
    procs = procs or min(len(jobs), os.cpu_count() or 4)
    mp = multiprocessing.get_context("fork")
    with mp.Pool(procs) as pool:
        results = pool.map(_run, range(len(jobs)), chunksize=1)
    out = []
    for (g, a, name, kw), r in zip(jobs, results):
        if r["err"]:
            from .tlc import MachineryError
            raise MachineryError("walk %s failed in the child: %s" % (name, r["err"]))
        for (sig, desc, replay) in r["pending"]:
            ctx.violation(sig, desc, replay)
        ctx.traces += r["traces"]
        ctx.evaluations += r["evaluations"]
        ctx.distinct.update(r["distinct"])
        for s in r["samples"]:
            ctx.sample(s)
        ctx.extra.setdefault("walks", []).extend(r["walks"])
        out.append(r["stats"])
    return out
