"""Helpers shared by the adapters: cfg text, exhaustive runs, negative controls."""
from . import tlc


def cfg_text(constants, invariants=(), properties=(), spec="Spec", view=None, constraint=None, action_constraint=None,
             deadlock=False, extra=""):
    lines = ["SPECIFICATION " + spec, "CONSTANTS"]
    for k, v in constants.items():
        if str(v).startswith("<-"):
            lines.append(" %s <- %s" % (k, str(v)[2:].strip()))
        else:
            lines.append(" %s = %s" % (k, v))
    for i in invariants:
        lines.append("INVARIANT " + i)
    for p in properties:
        lines.append("PROPERTY " + p)
    if view:
        lines.append("VIEW " + view)
    if constraint:
        lines.append("CONSTRAINT " + constraint)
    if action_constraint:
        lines.append("ACTION_CONSTRAINT " + action_constraint)
    lines.append("CHECK_DEADLOCK " + ("TRUE" if deadlock else "FALSE"))
    if extra:
        lines.append(extra)
    return "\n".join(lines) + "\n"


def constants_block(constants):
    return "\n".join((" %s <- %s" % (k, str(v)[2:].strip())) if str(v).startswith("<-") else (" %s = %s" % (k, v))
                     for k, v in constants.items())


def mc(module_file, constants, ctx, name, invariants=(), properties=(), view="View", constraint=None, deadlock=False,
       expect_violation=False, workers=1, timeout=1200, spec="Spec", count=True, extra=""):
    """Exhaustive TLC run. A model that is meant to hold and does not is a machinery failure (the
    code did not change the model); a negative control that passes is one too."""
    cfg = cfg_text(constants, invariants, properties, spec=spec, view=view, constraint=constraint, deadlock=deadlock,
                   extra=extra)
    res = tlc.run(module_file, cfg, tag="mc_" + name, workers=workers, timeout=timeout)
    if workers > 1 and any("unexpected exception" in e for e in res.errors):
        # TLC 1.8 occasionally trips over lazily normalised record values shared between workers
        # ("Attempted to check equality of the function ... with the value ..."); one worker is immune
        res = tlc.run(module_file, cfg, tag="mc_" + name, workers=1, timeout=timeout)
    ctx.add_tlc(("neg:" if expect_violation else "mc:") + name, res, count=count and not expect_violation)
    if expect_violation:
        if res.violated is None:
            raise tlc.MachineryError("negative control %s passed: the invariants cannot fail (%s)" % (name, res.errors[:2]))
        ctx.extra.setdefault("negative_controls", []).append({"name": name, "violated": res.violated})
    else:
        if not res.ok:
            raise tlc.MachineryError("model %s does not satisfy its own properties: %s %s" % (
                name, res.violated, res.errors[:3]))
    return res


def tla_set(xs):
    return "{" + ", ".join(str(x) for x in xs) + "}"
