"""Helpers shared by the adapters: cfg text, exhaustive runs, negative controls."""
import os

from . import tlc


def cfg_text(constants, invariants=(), properties=(), spec="Spec", view=None, constraint=None, action_constraint=None,
             deadlock=False, extra=""):
    lines = ["SPECIFICATION " + spec, "CONSTANTS"]
    for k, v in constants.items():
        if str(v).startswith("<-"):
            lines.append(" %s <- %s" % (k, str(v)[2:].strip()))
        else:
            lines.append(" %s = %s" % (k, v))
    for i in invariants:
        lines.append("INVARIANT " + i)
    for p in properties:
        lines.append("PROPERTY " + p)
    if view:
        lines.append("VIEW " + view)
    if constraint:
        lines.append("CONSTRAINT " + constraint)
    if action_constraint:
        lines.append("ACTION_CONSTRAINT " + action_constraint)
    lines.append("CHECK_DEADLOCK " + ("TRUE" if deadlock else "FALSE"))
    if extra:
        lines.append(extra)
    return "\n".join(lines) + "\n"


def constants_block(constants):
    return "\n".join((" %s <- %s" % (k, str(v)[2:].strip())) if str(v).startswith("<-") else (" %s = %s" % (k, v))
                     for k, v in constants.items())


def mc(module_file, constants, ctx, name, invariants=(), properties=(), view="View", constraint=None, deadlock=False,
       expect_violation=False, workers=1, timeout=1200, spec="Spec", count=True, extra="", coverage=False):
    """Exhaustive TLC run. A model that is meant to hold and does not is a machinery failure (the
    code did not change the model); a negative control that passes is one too."""
    cfg = cfg_text(constants, invariants, properties, spec=spec, view=view, constraint=constraint, deadlock=deadlock,
                   extra=extra)
    res = tlc.run(module_file, cfg, tag="mc_" + name, workers=workers, timeout=timeout, coverage=coverage)
    if workers > 1 and any("unexpected exception" in e for e in res.errors):
        # TLC 1.8 occasionally trips over lazily normalised record values shared between workers
        # ("Attempted to check equality of the function ... with the value ..."); one worker is immune
        res = tlc.run(module_file, cfg, tag="mc_" + name, workers=1, timeout=timeout)
    ctx.add_tlc(("neg:" if expect_violation else "mc:") + name, res, count=count and not expect_violation)
    if expect_violation:
        if res.violated is None:
            raise tlc.MachineryError("negative control %s passed: the invariants cannot fail (%s)" % (name, res.errors[:2]))
        ctx.extra.setdefault("negative_controls", []).append({"name": name, "violated": res.violated})
    else:
        if not res.ok:
            raise tlc.MachineryError("model %s does not satisfy its own properties: %s %s" % (
                name, res.violated, res.errors[:3]))
        if coverage and res.coverage:
            # vacuity guard (TLC -coverage): how many distinct states every action of the model produced in this exhaustive run
            cov = ctx.extra.setdefault("model_action_coverage", {})
            mod = os.path.splitext(os.path.basename(module_file))[0]
            acc = cov.setdefault(mod, {})
            for a, (distinct, total) in res.coverage.items():
                if a not in ("Init", "Terminating", "Terminated"):
                    acc[a] = acc.get(a, 0) + total
    return res


EXPECTED_DEAD = {"PWrS", "PWrD"}      # labels that exist only in the pinned design of the pool models (their negative control)


def coverage_summary(ctx):
    """after all configurations of a model were run: the actions no configuration ever took (a property that rests on them was
    never exercised) - recorded in the evidence"""
    cov = ctx.extra.get("model_action_coverage", {})
    never = {m: sorted(a for a, n in acts.items() if n == 0 and a not in EXPECTED_DEAD) for m, acts in cov.items()}
    ctx.extra["model_actions_never_taken"] = {m: v for m, v in never.items() if v}
    for m, v in never.items():
        if v:
            ctx.note("model %s: actions never taken in any exhaustive configuration of this run: %s" % (m, ", ".join(v)))
    return never


def tla_set(xs):
    return "{" + ", ".join(str(x) for x in xs) + "}"
