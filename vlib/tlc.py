"""Run TLC and parse what it prints.

One entry point, `run`, used for the four uses of TLC in DESIGN.md section 2.2:
exhaustive checking, edge / case emission, simulation and trace validation.
"""
import json
import os
import re
import shutil
import subprocess
import tempfile
import time

VERIF = os.path.dirname(os.path.dirname(os.path.abspath(__file__)))
SPECS = os.path.join(VERIF, "specs")
WORK = os.path.join(VERIF, ".work")
# the tree under verification: /repo unless a scratch copy is named (used by tools/ to try seeded changes in parallel, never by
# the registered commands)
REPO = os.environ.get("VERIF_REPO") or "/repo"
JAR = "/opt/veriftools/tla/tla2tools.jar"
DEPS = "/opt/veriftools/tla/CommunityModules-deps.jar"


class MachineryError(Exception):
    """The verification machinery itself failed (exit status 2, never a VIOLATION)."""


class TLCResult:
    def __init__(self):
        self.returncode = None
        self.generated = 0
        self.distinct = 0
        self.depth = 0
        self.ok = False              # "No error has been found"
        self.violated = None         # name of violated invariant / property, "deadlock", ...
        self.errors = []             # raw error lines
        self.prints = []             # PrintT lines of interest (tuples starting with a tag)
        self.coverage = {}           # action name -> (distinct, total)
        self.wall = 0.0
        self.stdout_path = None
        self.cex = []                # counterexample states as text blocks
        self.workdir = None

    def summary(self):
        return {"generated": self.generated, "distinct": self.distinct, "depth": self.depth,
                "ok": self.ok, "violated": self.violated, "wall_s": round(self.wall, 2)}


def newdir(prefix):
    os.makedirs(WORK, exist_ok=True)
    return tempfile.mkdtemp(prefix=prefix + "_", dir=WORK)


def _collect_modules(module_file):
    """Module file plus every .tla in its directory and in specs/common (cheap, avoids dependency analysis)."""
    d = os.path.dirname(module_file)
    out = []
    for dd in (d, os.path.join(SPECS, "common")):
        if os.path.isdir(dd):
            for f in os.listdir(dd):
                if f.endswith(".tla"):
                    out.append(os.path.join(dd, f))
    return out


_RE_STATES = re.compile(r"^(\d+) states generated, (\d+) distinct states found")
_RE_DEPTH = re.compile(r"^The depth of the complete state graph search is (\d+)")
_RE_INV = re.compile(r"^Error: Invariant (\S+) is violated")
_RE_ACTPROP = re.compile(r"^Error: Action property (\S+) is violated")
_RE_COV = re.compile(r"^<(\w+) line \d+, col \d+ to line \d+, col \d+ of module (\w+)>: (\d+):(\d+)")


def run(module_file, cfg_text, *, tag="tlc", workers=16, timeout=900, extra_files=None, extra_text=None,
        simulate=None, depth=None, seed=None, coverage=False, print_tags=("EDGE", "CASE", "REJECT", "ACCEPT", "INFO"),
        on_print=None, deadlock=None, keep=False, dfs=False, env_extra=None, heap="4g", module_name=None):
    """Run TLC on `module_file` with configuration text `cfg_text`.

    extra_files: {name: path} copied into the work directory; extra_text: {name: text} written there.
    on_print(tag, payload_text) is called for every PrintT line `<<"TAG", ...>>` (streaming, so huge
    emissions need not be kept); otherwise they are collected in result.prints.
    """
    wd = newdir(tag)
    res = TLCResult()
    res.workdir = wd
    try:
        for f in _collect_modules(module_file):
            shutil.copy(f, wd)
        for name, path in (extra_files or {}).items():
            shutil.copy(path, os.path.join(wd, name))
        for name, text in (extra_text or {}).items():
            with open(os.path.join(wd, name), "w") as fh:
                fh.write(text)
        mod = module_name or os.path.splitext(os.path.basename(module_file))[0]
        with open(os.path.join(wd, mod + ".cfg"), "w") as fh:
            fh.write(cfg_text)
        cmd = ["java", "-XX:+UseParallelGC", "-Xss64m", "-Xmx" + heap]
        if dfs:
            cmd.append("-Dtlc2.tool.queue.IStateQueue=StateDeque")
        cmd += ["-cp", JAR + ":" + DEPS, "tlc2.TLC", "-workers", str(workers), "-metadir", os.path.join(wd, "meta"),
                "-noGenerateSpecTE", "-config", mod + ".cfg"]
        if coverage:
            cmd += ["-coverage", "1"]
        if deadlock is False:
            cmd += ["-deadlock"]
        if simulate is not None:
            cmd += ["-simulate", simulate]
            if depth is not None:
                cmd += ["-depth", str(depth)]
        if seed is not None:
            cmd += ["-seed", str(seed)]
        cmd.append(mod + ".tla")
        env = dict(os.environ)
        env.pop("JAVA_TOOL_OPTIONS", None)
        env.update(env_extra or {})
        out_path = os.path.join(wd, "tlc.out")
        res.stdout_path = out_path
        t0 = time.time()
        with open(out_path, "w") as out:
            try:
                p = subprocess.run(cmd, cwd=wd, stdout=out, stderr=subprocess.STDOUT, timeout=timeout, env=env)
                res.returncode = p.returncode
            except subprocess.TimeoutExpired:
                res.returncode = -9
                res.errors.append("TIMEOUT after %ss" % timeout)
        res.wall = time.time() - t0
        _parse(out_path, res, print_tags, on_print)
        return res
    finally:
        if not keep:
            shutil.rmtree(wd, ignore_errors=True)
            res.workdir = None


def _parse(path, res, print_tags, on_print):
    in_cex = False
    cur = []
    with open(path, errors="replace") as fh:
        for line in fh:
            line = line.rstrip("\n")
            if line.startswith('<<"'):
                m = re.match(r'^<<"(\w+)", ?(.*)>>$', line)
                if m and m.group(1) in print_tags:
                    if on_print is not None:
                        on_print(m.group(1), m.group(2))
                    else:
                        res.prints.append((m.group(1), m.group(2)))
                    continue
            m = _RE_STATES.match(line)
            if m:
                res.generated, res.distinct = int(m.group(1)), int(m.group(2))
                continue
            m = _RE_DEPTH.match(line)
            if m:
                res.depth = int(m.group(1))
                continue
            if line.startswith("Model checking completed. No error has been found."):
                res.ok = True
                continue
            m = _RE_INV.match(line)
            if m:
                res.violated = m.group(1)
            m = _RE_ACTPROP.match(line)
            if m:
                res.violated = m.group(1)
            if line.startswith("Error: Deadlock reached"):
                res.violated = "deadlock"
            if line.startswith("Error: Temporal properties were violated"):
                res.violated = res.violated or "temporal"
            if line.startswith("Error:"):
                res.errors.append(line)
                in_cex = True
            if in_cex:
                if line.startswith("State ") or line.startswith("/\\") or line.startswith("Back to state") \
                        or line.startswith("  ") or line == "":
                    cur.append(line)
            m = _RE_COV.match(line)
            if m:
                name = m.group(1)
                a, b = int(m.group(3)), int(m.group(4))
                old = res.coverage.get(name, (0, 0))
                res.coverage[name] = (old[0] + a, old[1] + b)
    res.cex = cur[:4000]
    if simulateish(res):
        pass


def simulateish(res):
    return False


def decode_json_print(payload):
    """PrintT(<<"TAG", ToJson(x)>>) prints the JSON as a TLA+ string literal: undo both layers."""
    return json.loads(json.loads(payload))


def sany(module_file):
    """Parse a module with SANY (used by setup)."""
    wd = newdir("sany")
    try:
        for f in _collect_modules(module_file):
            shutil.copy(f, wd)
        p = subprocess.run(["java", "-cp", JAR + ":" + DEPS, "tla2sany.SANY", os.path.basename(module_file)],
                           cwd=wd, stdout=subprocess.PIPE, stderr=subprocess.STDOUT, text=True, timeout=120)
        ok = p.returncode == 0 and "Semantic errors" not in p.stdout and "*** Errors" not in p.stdout \
            and "Could not parse" not in p.stdout and "Fatal errors" not in p.stdout
        return ok, p.stdout
    finally:
        shutil.rmtree(wd, ignore_errors=True)
