"""forkbaton - real forked processes stepped by a driver (DESIGN.md section 2.4, C18).

The driver forks an *owner* process which opens the file object under test and forks N children; every
`seek` / `readline` on the underlying file (buffered or memory mapped) first asks the driver for permission
over a pipe, so the driver decides the interleaving of the processes' accesses to possibly shared open file
descriptions.  Schedules come from TLC (every complete behaviour of ForkedReaders.tla).
"""
import os
import select
import signal
import sys
import time
import types


class Gate:
    """Installed in one process: request permission, wait for the grant, acknowledge after the operation."""

    def __init__(self, pid_no, req_w, grant_r):
        self.p, self.req_w, self.grant_r = pid_no, req_w, grant_r

    def ask(self):
        os.write(self.req_w, b"R %d\n" % self.p)
        while True:
            b = os.read(self.grant_r, 1)
            if b:
                return
            raise SystemExit(3)

    def ack(self):
        os.write(self.req_w, b"A %d\n" % self.p)


GATE = [None]


class GatedFile:
    """File (or mmap) proxy: every operation that reads or moves the position of the underlying file object is gated (asks
    the driver for permission first), everything else is delegated.  Whatever way the code reads a line - seek + readline,
    tell + find + slice, read(n) - the driver decides the interleaving; a different number of gated steps than the
    model has is tolerated by run_schedule."""

    GATED = ("seek", "readline", "read", "readinto", "readlines", "tell", "find", "rfind", "read_byte", "write", "truncate")

    def __init__(self, real):
        object.__setattr__(self, "_real", real)

    def _gated(self, fn, *a, **k):
        g = GATE[0]
        if g is None:
            return fn(*a, **k)
        g.ask()
        try:
            return fn(*a, **k)
        finally:
            g.ack()

    def __getattr__(self, name):
        v = getattr(self._real, name)
        if name in GatedFile.GATED and callable(v):
            return lambda *a, **k: self._gated(v, *a, **k)
        return v

    def __setattr__(self, name, value):
        setattr(self._real, name, value)

    def __getitem__(self, i):
        return self._gated(self._real.__getitem__, i)

    def __len__(self):
        return len(self._real)

    def __enter__(self):
        return self

    def __exit__(self, *a):
        self._real.close()

    def __iter__(self):
        return self

    def __next__(self):
        line = self._gated(self._real.readline)
        if not line:
            raise StopIteration
        return line


def install(files_mod):
    """Wrap the names `open` and `mmap` as seen from inside windpyutils.files (module-level names, set from outside)."""
    import builtins
    import mmap as real_mmap

    def gated_open(*a, **k):
        return GatedFile(builtins.open(*a, **k))

    def gated_mmap(*a, **k):
        return GatedFile(real_mmap.mmap(*a, **k))
    ns = types.SimpleNamespace(**{k: getattr(real_mmap, k) for k in dir(real_mmap) if k.isupper()})
    ns.mmap = gated_mmap
    files_mod.open = gated_open
    files_mod.mmap = ns


def run_schedule(make_obj, access, scripts, schedule, timeout=10.0, topology="flat"):
    """Fork owner + children, step them along `schedule` (a list of process numbers), return
    {proc: [values read]} plus diagnostics.  topology "flat": the owner forks every child; "chain": process p is forked by
    process p-1 before either has touched the object (a worker that forks a helper: the helper's parent is not the opener).  `make_obj()` builds and opens the object in the owner;
    `access(obj, key)` performs one read; scripts: proc -> list of keys (0 = owner)."""
    procs = sorted(scripts)
    req_r, req_w = os.pipe()
    grants = {p: os.pipe() for p in procs}
    owner = os.fork()
    if owner == 0:
        code = 0
        try:
            os.setsid()                      # own process group: the driver can kill owner and children together
            os.close(req_r)
            for q in procs:
                os.close(grants[q][1])       # only the driver may hold the write ends, else a reader never sees EOF
            obj = make_obj()
            kids = []
            me = 0
            for p in procs:
                if p == 0:
                    continue
                k = os.fork()
                if k == 0:
                    me = p
                    kids = []
                    if topology == "chain":
                        continue                    # this process forks the next one
                    break
                kids.append(k)
                if topology == "chain":
                    break                           # the parent of p forks nobody else
            GATE[0] = Gate(me, req_w, grants[me][0])
            for i, key in enumerate(scripts[me]):
                try:
                    v = access(obj, key)
                    msg = b"V %d %d %s\n" % (me, i, repr(v).encode("utf-8").hex().encode())
                except BaseException as e:          # noqa
                    msg = b"E %d %d %s\n" % (me, i, repr(e).encode("utf-8").hex().encode())
                os.write(req_w, msg)
            GATE[0] = None
            os.write(req_w, b"D %d\n" % me)
            for k in kids:
                os.waitpid(k, 0)
        except BaseException:                        # noqa
            code = 4
        finally:
            os._exit(code)
    os.close(req_w)
    for p in procs:
        os.close(grants[p][0])
    pending, done, values, errors = set(), set(), {p: {} for p in procs}, []
    buf = b""
    deadline = time.time() + timeout
    acked = [None]

    def pump(until):
        """read driver-bound messages until `until()` holds; returns False on timeout / EOF"""
        nonlocal buf
        while not until():
            left = deadline - time.time()
            if left <= 0:
                return False
            r, _, _ = select.select([req_r], [], [], left)
            if not r:
                return False
            chunk = os.read(req_r, 65536)
            if not chunk:
                return until()
            buf += chunk
            while b"\n" in buf:
                line, buf = buf.split(b"\n", 1)
                parts = line.split()
                kind, p = parts[0], int(parts[1])
                if kind == b"R":
                    pending.add(p)
                elif kind == b"A":
                    acked[0] = p
                elif kind == b"D":
                    done.add(p)
                elif kind in (b"V", b"E"):
                    text = bytes.fromhex(parts[3].decode()).decode("utf-8")
                    values[p][int(parts[2])] = ("ok" if kind == b"V" else "exc", text)
        return True

    def grant(p):
        pending.discard(p)
        acked[0] = None
        try:
            os.write(grants[p][1], b"g")
        except OSError:
            return False
        return pump(lambda: acked[0] == p)
    ok = True
    followed = 0
    for p in schedule:
        if not pump(lambda: p in pending or p in done):
            ok = False
            break
        if p in done:
            continue        # the code needed fewer gated steps than the model
        if not grant(p):
            ok = False
            break
        followed += 1
    # anything left (the code took more gated steps than the model): grant in arrival order
    extra = 0
    while ok and len(done) < len(procs):
        if not pump(lambda: pending or len(done) == len(procs)):
            ok = False
            break
        if pending:
            extra += 1
            if not grant(sorted(pending)[0]):
                ok = False
                break
    if not ok:
        for fn in (lambda: os.killpg(owner, signal.SIGKILL), lambda: os.kill(owner, signal.SIGKILL)):
            try:
                fn()
            except OSError:
                pass
    for p in procs:
        try:
            os.close(grants[p][1])
        except OSError:
            pass
    try:
        os.waitpid(owner, 0)
    except OSError:
        pass
    os.close(req_r)
    out = {p: [values[p].get(i) for i in range(len(scripts[p]))] for p in procs}
    return {"values": out, "completed": ok, "followed": followed, "extra_steps": extra}
