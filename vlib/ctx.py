"""Check context: evidence accumulation, violation / known-finding reporting, exit status."""
import json
import os
import sys
import time

from . import tlc

VERIF = tlc.VERIF
# evidence / replays of a run against a scratch copy (tools/) go to a scratch directory, never over the real ones
_OUT = os.environ.get("VERIF_SCRATCH_OUT") or VERIF
EVIDENCE_DIR = os.path.join(_OUT, "evidence")
REPLAY_DIR = os.path.join(_OUT, "replays")
KNOWN = os.path.join(VERIF, "KNOWN_FINDINGS.json")


def load_known():
    if not os.path.exists(KNOWN):
        return []
    with open(KNOWN) as fh:
        return json.load(fh).get("findings", [])


def sig_matches(entry_sig, sig):
    """An entry's signature matches when every key it names has the same value in the violation's signature."""
    for k, v in entry_sig.items():
        if k.endswith("_min"):
            if sig.get(k[:-4]) is None or sig.get(k[:-4]) < v:
                return False
        elif sig.get(k) != v:
            return False
    return True


class Ctx:
    def __init__(self, pid, tier, seed, level):
        self.pid = pid
        self.tier = tier
        self.seed = seed
        self.level = level
        self.t0 = time.time()
        self.states = 0
        self.transitions = 0
        self.traces = 0            # real executions judged against the spec
        self.evaluations = 0
        self.distinct = set()      # hashes of distinct non-trivial cases (bounded)
        self.distinct_extra = 0
        self.samples = []
        self.rule = ""
        self.assumptions = []
        self.extra = {}            # free-form extra coverage keys
        self.tlc_runs = []
        self.violations = []
        self.known_hits = {}
        self.exhaustive = None
        self.known = [k for k in load_known() if k.get("property") == pid]
        self.notes = []
        self.quiet = False           # child contexts (vlib/par.py) only collect; the parent reports
        self.pending = []
        # replay files of an earlier run of this check are stale
        if os.path.isdir(REPLAY_DIR) and not os.environ.get("VERIF_CHILD_CTX"):
            os.environ["VERIF_CHILD_CTX"] = "1"      # contexts created later in this process tree are children
            for f in os.listdir(REPLAY_DIR):
                if f.startswith(pid + "_"):
                    try:
                        os.remove(os.path.join(REPLAY_DIR, f))
                    except OSError:
                        pass

    # ------------------------------------------------------------------ accounting
    def add_tlc(self, name, res, count=True):
        self.tlc_runs.append(dict(name=name, **res.summary()))
        if count:
            self.states += res.distinct
            self.transitions += res.generated

    def sample(self, s, limit=6):
        if len(self.samples) < limit:
            self.samples.append(s)

    def case(self, key, nontrivial=True):
        self.evaluations += 1
        if nontrivial:
            if len(self.distinct) < 2_000_000:
                self.distinct.add(hash(key))
            else:
                self.distinct_extra += 0   # counted conservatively: not counted beyond the cap

    def note(self, msg):
        self.notes.append(msg)
        print("[%s] %s" % (self.pid, msg), flush=True)

    # ------------------------------------------------------------------ verdicts
    def violation(self, signature, description, replay):
        """Report one violation. Known open findings become KNOWN-FINDING lines (once per entry)."""
        if self.quiet:
            self.pending.append((signature, description, replay))
            self.violations.append({"signature": signature})
            return True
        for e in self.known:
            if e.get("status") == "open" and sig_matches(e.get("signature", {}), signature):
                key = json.dumps(e.get("signature"), sort_keys=True)
                if key not in self.known_hits:
                    self.known_hits[key] = 0
                    print("KNOWN-FINDING: property=%s %s" % (self.pid, e.get("description", "")), flush=True)
                self.known_hits[key] += 1
                return False
        os.makedirs(REPLAY_DIR, exist_ok=True)
        path = os.path.join(REPLAY_DIR, "%s_%s%d.json" % (self.pid, getattr(self, "replay_prefix", ""), len(self.violations)))
        with open(path, "w") as fh:
            json.dump({"property": self.pid, "signature": signature, "description": description,
                       "replay": replay, "seed": self.seed, "tier": self.tier}, fh, indent=1, default=str)
        self.violations.append({"signature": signature, "description": description, "replay": path})
        if len(self.violations) <= 10:
            print("VIOLATION property=%s replay=%s" % (self.pid, path), flush=True)
            print("  " + description[:600], flush=True)
        return True

    # ------------------------------------------------------------------ evidence
    def write_evidence(self):
        os.makedirs(EVIDENCE_DIR, exist_ok=True)
        cov = dict(self.extra)
        cov["evaluations"] = max(self.evaluations, 0)
        cov["distinct_nontrivial"] = len(self.distinct)
        cov["rule"] = self.rule
        cov["samples"] = self.samples[:8] or [{"note": "no individual case was sampled in this run", "tlc_runs": [r.get("name") for r in self.tlc_runs[:5]]}]
        cov["states"] = self.states
        cov["transitions"] = self.transitions
        cov["traces_validated_against_impl"] = self.traces
        cov["tlc_runs"] = self.tlc_runs
        if self.exhaustive is not None:
            cov["exhaustive"] = self.exhaustive
        if self.known_hits:
            cov["known_findings_matched"] = self.known_hits
        cov["notes"] = self.notes[-40:]
        ev = {"property_id": self.pid, "tier": self.tier, "seed": self.seed, "level": self.level,
              "coverage": cov, "assumptions": self.assumptions, "wall_s": round(time.time() - self.t0, 2),
              "violations": len(self.violations)}
        with open(os.path.join(EVIDENCE_DIR, self.pid + ".json"), "w") as fh:
            json.dump(ev, fh, indent=1, default=str)
        return ev

    def finish(self):
        self.write_evidence()
        if self.violations:
            print("[%s] %d violation(s)" % (self.pid, len(self.violations)), flush=True)
            return 1
        print("[%s] OK tier=%s seed=%d states=%d transitions=%d real-executions-judged=%d cases=%d wall=%.1fs" % (
            self.pid, self.tier, self.seed, self.states, self.transitions, self.traces, self.evaluations,
            time.time() - self.t0), flush=True)
        return 0


def machinery(msg):
    print("MACHINERY-FAILURE: " + msg, file=sys.stderr, flush=True)
    raise tlc.MachineryError(msg)
